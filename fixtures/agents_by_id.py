"""Positive fixture for the id-vs-position kind rule (zero-count rule on the real
tree after the repair): functions named bad_* index an agent list with an agent
id, ok_* with a list position.  Parsed, never imported."""


def bad_event(model, event):
    model.agents[event.receiver_id].receive_event(event)


def bad_typemap(self, agent_type, state):
    n = 0
    agent_ids = self.agent_type_map[agent_type]
    for agent_id in agent_ids:
        if self.agents[agent_id].state == state:
            n += 1
    return n


def bad_alias(self, t):
    ids = self.agent_ids(t)
    for k in ids:
        yield self.agents[k]


def bad_attr(self, a):
    return self.agents[a.id]


def ok_range(self):
    for i in range(len(self.agents)):
        self.agents[i].act()


def ok_enumerate(self):
    for i, a in enumerate(self.agents):
        assert self.agents[i] is a


def ok_const(self):
    return self.agents[0], self.agents[-1], self.agents[1:]


def ok_random(self, Model):
    return self.agents[Model.get_random_integer(0, len(self.agents) - 1)]
