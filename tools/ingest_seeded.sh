#!/bin/bash
# usage: tools/ingest_seeded.sh <agent worktree> <property id> <name>
# Copies a seeded change produced by a sub-agent into /verif/seeded/<name>/ and re-confirms it in a fresh scratch
# worktree of /repo: the patch applies, the package compiles, the demo fails with the change and passes without it,
# the pinned suite gives 106 passed (+ the one always-failing test) with the change.  Writes the outcome into meta.json
# ("confirmed") and removes the scratch worktree.
set -u
src=$1; prop=$2; name=$3
dst=/verif/seeded/$name
mkdir -p "$dst"
cp "$src/patch.diff" "$dst/patch.diff" || exit 1
demo=$(ls "$src"/demo_*.py | head -1)
cp "$demo" "$dst/$(basename "$demo")"
cp "$src/meta.json" "$dst/meta.agent.json"
wt=/tmp/confirm_$name
rm -rf "$wt"; git -C /repo worktree prune
git -C /repo worktree add -q --detach "$wt" HEAD || exit 1
cd "$wt" || exit 1
if ! git apply "$dst/patch.diff"; then echo "PATCH DOES NOT APPLY"; git -C /repo worktree remove --force "$wt"; exit 1; fi
cp "$dst/$(basename "$demo")" .
/venv/bin/python -m compileall -q BPTK_Py >/dev/null; comp=$?
PYTHONPATH=$wt timeout 600 /venv/bin/python "$(basename "$demo")" > "$dst/demo_with_change.log" 2>&1; rc_with=$?
PYTHONPATH=$wt timeout 1500 /venv/bin/python -m pytest -q -p no:cacheprovider --timeout=900 > "$dst/suite_with_change.log" 2>&1
suite=$(tail -1 "$dst/suite_with_change.log")
failed=$(grep -c "^FAILED" "$dst/suite_with_change.log")
onlyknown=$(grep "^FAILED" "$dst/suite_with_change.log" | grep -vc "test_sddsl_functions")
git checkout -q -- . ; git clean -fdq tests/
PYTHONPATH=$wt timeout 600 /venv/bin/python "$(basename "$demo")" > "$dst/demo_without_change.log" 2>&1; rc_without=$?
cd /verif
git -C /repo worktree remove --force "$wt"
tail -c 1500 "$dst/suite_with_change.log" > "$dst/suite_with_change.tail.log"; rm -f "$dst/suite_with_change.log"
/venv/bin/python - "$dst" "$prop" "$name" "$comp" "$rc_with" "$rc_without" "$suite" "$onlyknown" <<'EOF'
import json, sys
dst, prop, name, comp, rc_with, rc_without, suite, onlyknown = sys.argv[1:9]
a = json.load(open(dst + "/meta.agent.json"))
meta = {"property": prop, "name": name, "summary": a.get("summary"), "needs": a.get("needs"), "files": a.get("files"),
        "produced_by": "fresh sub-agent given only the property text and a scratch worktree",
        "confirmed": {"compiles": comp == "0", "demo_exit_with_change": int(rc_with), "demo_exit_without_change": int(rc_without),
                      "suite_with_change": suite.strip(), "unexpected_test_failures": int(onlyknown),
                      "how": "tools/ingest_seeded.sh: fresh worktree of /repo HEAD, git apply, demo, full pinned suite, git checkout, demo"}}
ok = comp == "0" and int(rc_with) != 0 and int(rc_without) == 0 and int(onlyknown) == 0
meta["kept"] = ok
json.dump(meta, open(dst + "/meta.json", "w"), indent=1)
print("%s %s: compiles=%s demo_with=%s demo_without=%s suite='%s' unexpected_failures=%s -> %s" % (name, prop, comp == "0", rc_with, rc_without, suite.strip(), onlyknown, "KEPT" if ok else "REJECTED"))
EOF
