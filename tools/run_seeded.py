#!/venv/bin/python
"""Run the registered quick checks against every seeded change under
/verif/seeded/<name>/patch.diff: apply it to /repo (git apply), run the checks,
undo it straight afterwards (git checkout -- .).  Prints, per change, which
checks raise a VIOLATION (new finding keys) - the table in DESIGN.md section 8
is produced from this output.

usage: tools/run_seeded.py [name ...]      (default: all)
"""
import json
import os
import subprocess
import sys

ROOT = os.path.dirname(os.path.dirname(os.path.abspath(__file__)))
REPO = "/repo"
PROPS = ["C%02d" % i for i in range(1, 21)]


def sh(*a, **kw):
    return subprocess.run(a, capture_output=True, text=True, **kw)


def main():
    names = sys.argv[1:] or sorted(os.listdir(os.path.join(ROOT, "seeded")))
    st = sh("git", "-C", REPO, "status", "--porcelain", "--untracked-files=no").stdout.strip()
    if st:
        print("refusing to run: /repo has uncommitted changes:\n" + st)
        return 2
    summary = {}
    for name in names:
        d = os.path.join(ROOT, "seeded", name)
        patch = os.path.join(d, "patch.diff")
        if not os.path.exists(patch):
            continue
        meta = json.load(open(os.path.join(d, "meta.json")))
        if not meta.get("kept"):
            continue
        r = sh("git", "-C", REPO, "apply", patch)
        if r.returncode != 0:
            print("%s: patch does not apply: %s" % (name, r.stderr.strip()[:200]))
            summary[name] = {"applies": False}
            continue
        try:
            fired = {}
            errors = {}
            evdir = "/tmp/seeded_evidence_%d" % os.getpid()
            from concurrent.futures import ThreadPoolExecutor
            with ThreadPoolExecutor(16) as ex:
                outs = list(ex.map(lambda p: (p, sh("/venv/bin/python", "-m", "bptkverif", p, "--tier", "quick", "--quiet", "--evidence-dir", evdir, cwd=ROOT)), PROPS))
            for p, out in outs:
                if out.returncode == 1:
                    vio = [l.strip() for l in out.stdout.splitlines() if l.strip().startswith("violation:")]
                    fired[p] = [v.split()[1] for v in vio][:4]
                elif out.returncode == 2:
                    errors[p] = [l for l in out.stdout.splitlines() if "ANALYSIS-ERROR" in l][0][:160]
        finally:
            sh("git", "-C", REPO, "checkout", "--", ".")
            subprocess.run(["rm", "-rf", evdir])
        own = meta.get("property")
        verdict = "CAUGHT by own check" if own in fired else ("caught by other check(s)" if fired else ("analysis-error only" if errors else "MISSED"))
        print("%-28s breaks %s: %s" % (name, own, verdict))
        for p, keys in fired.items():
            print("      %s -> %s" % (p, ", ".join(keys)))
        for p, e in errors.items():
            print("      %s !! %s" % (p, e))
        summary[name] = {"property": own, "fired": fired, "errors": errors, "verdict": verdict}
    rp = os.path.join(ROOT, "seeded", "RESULTS.json")
    if sys.argv[1:] and os.path.exists(rp):
        # a named subset updates its rows and keeps the others
        merged = json.load(open(rp))
        merged.update(summary)
        summary = merged
    with open(rp, "w") as fh:
        json.dump(summary, fh, indent=1)
        fh.write("\n")
    return 0


if __name__ == "__main__":
    sys.exit(main())
