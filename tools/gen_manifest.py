#!/venv/bin/python
"""Regenerates /verif/MANIFEST.json from the table below (kept next to the
checks so claim texts and checks change together)."""
import json
import os
import sys

ROOT = os.path.dirname(os.path.dirname(os.path.abspath(__file__)))
sys.path.insert(0, ROOT)
from bptkverif.manifest_data import CLAIMS, NOT_APPLICABLE, REPO_FIX_COMMITS  # noqa: E402

BASELINE = ("cd /repo && /venv/bin/python -m pytest -ra -q -p no:cacheprovider --timeout=900 "
            "--continue-on-collection-errors --junitxml=/tmp/bptk_baseline.junit.xml")


def main() -> None:
    checks = []
    for pid in sorted(CLAIMS):
        c = CLAIMS[pid]
        checks.append({
            "property_id": pid,
            "quick_cmd": "/venv/bin/python -m bptkverif %s --tier quick" % pid,
            "thorough_cmd": "/venv/bin/python -m bptkverif %s --tier thorough" % pid,
            "evidence_file": "/verif/evidence/%s.json" % pid,
            "replay_cmd_template": "/venv/bin/python -m bptkverif %s --tier quick  # violations listed in {path}" % pid,
            "engine": "bptkverif",
            "level_claimed": {"category": "other", "text": c["text"], "design_ref": c["design_ref"]},
            "level_note": c["note"],
            "technique": c["technique"],
        })
    m = {
        "version": 1,
        "setup_cmd": "true",
        "hooks": {
            "guard": "BPTK_PY_VERIF",
            "enable": "none needed: the checks read /repo's working tree as source text (ast) and never import or run it; "
                      "no instrumentation exists, the guard name is recorded for form only",
            "baseline_off_cmd": BASELINE,
            "source_commits": [],
            "add_only": True,
        },
        "engines": [{
            "name": "bptkverif",
            "path": "/verif/bptkverif",
            "serves_properties": sorted(CLAIMS),
            "kind_free_text": "repository-specific static analysis on Python ast: program index, statement CFG with "
                              "exceptional/finally/generator-close edges, product-graph dataflow with witness paths, "
                              "template extraction from the two code generators, kind/alias/def-use analyses",
        }],
        "checks": checks,
        "not_applicable": [{"property_id": p, "reason": r} for p, r in sorted(NOT_APPLICABLE.items())],
        "notes": "Static analysis family only. Every check parses /repo/BPTK_Py on each run; exit 0/1/2 = holds / "
                 "VIOLATION / ANALYSIS-ERROR (fail closed). Genuine defects repaired in /repo by 'fix:' commits: "
                 + ", ".join(REPO_FIX_COMMITS) + ". Remaining genuine defects are listed in /verif/known_findings.json "
                 "and printed as KNOWN-FINDING lines.",
    }
    with open(os.path.join(ROOT, "MANIFEST.json"), "w") as fh:
        json.dump(m, fh, indent=1)
        fh.write("\n")
    print("MANIFEST.json: %d checks, %d not applicable" % (len(checks), len(m["not_applicable"])))


if __name__ == "__main__":
    main()
