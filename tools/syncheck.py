#!/venv/bin/python
"""Development aid: run every check on patches given by path (behaviour-preserving, e.g. synthetic alpha-renamings): prints every
finding / error.  usage: tools/syncheck.py [-p C01,C05] <patch.diff> ..."""
import multiprocessing as mp, os, sys
ROOT = os.path.dirname(os.path.dirname(os.path.abspath(__file__)))
sys.path.insert(0, ROOT)
from tools.refcheck import run
from bptkverif.__main__ import REGISTRY
argv = sys.argv[1:]
props = sorted(REGISTRY)
if argv and argv[0] == "-p":
    props = argv[1].split(","); argv = argv[2:]
jobs = [(p, p, pr) for p in argv for pr in props]
with mp.get_context("fork").Pool(16) as pool:
    outs = pool.map(run, jobs, chunksize=1)
bad = 0
for name, prop, err, new in outs:
    if err or new:
        bad += 1
        print("%s x %s" % (name.replace("/patch.diff", ""), prop))
        if err:
            print("     " + err[:300])
        for k in new:
            print("     violation " + k)
print("%d patches x %d checks: %d failing pairs" % (len(argv), len(props), bad))
