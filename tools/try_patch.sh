#!/bin/bash
# usage: tools/try_patch.sh <patch.diff> [Cxx ...]   - run checks against a scratch copy of /repo/BPTK_Py with the patch applied
# (development aid; the registered way is tools/run_seeded.py, which applies the patch to /repo itself and undoes it)
set -u
patch=$1; shift
props=${@:-C01 C02 C03 C04 C05 C06 C07 C08 C09 C10 C11 C12 C13 C14 C15 C16 C17 C18 C19 C20}
t=$(mktemp -d /tmp/trial.XXXX)
cp -r /repo/BPTK_Py "$t/"
(cd "$t" && patch -s -p1 < "$patch") || { echo "patch failed"; rm -rf "$t"; exit 1; }
cd /verif
for p in $props; do
  out=$(/venv/bin/python -m bptkverif $p --repo "$t" --quiet --evidence-dir "$t/ev")
  rc=$?
  if [ $rc -ne 0 ]; then echo "== $p exit=$rc"; echo "$out" | grep -E "violation:|ANALYSIS-ERROR" | cut -c1-260; fi
done
rm -rf "$t"
