#!/venv/bin/python
"""Rewrite the table between <!-- seeded-table-begin --> and <!-- seeded-table-end --> in DESIGN.md from seeded/*/meta.json and
seeded/RESULTS.json (written by tools/run_seeded.py).  The 'first run' column is kept in seeded/FIRST_RUN.json (what the checks
reported when the change arrived, before any strengthening)."""
import json, os, re
ROOT = os.path.dirname(os.path.dirname(os.path.abspath(__file__)))
res = json.load(open(os.path.join(ROOT, "seeded", "RESULTS.json")))
first = json.load(open(os.path.join(ROOT, "seeded", "FIRST_RUN.json")))
rows = ["| seeded change | what it does | needs | first run (before strengthening) | now reported by (quick tier, applied to /repo) |", "|---|---|---|---|---|"]
def clip(s, n):
    s = " ".join(str(s or "").replace("|", "/").split())
    return s if len(s) <= n else s[:n - 1] + "…"
for name in sorted(res):
    meta = json.load(open(os.path.join(ROOT, "seeded", name, "meta.json")))
    r = res[name]
    now = "; ".join("%s: %s" % (p, ", ".join(clip(k.split("/", 1)[1] if "/" in k else k, 70) for k in ks[:2])) for p, ks in sorted(r.get("fired", {}).items()))
    if r.get("errors"):
        now += "; analysis-error in " + ", ".join(sorted(r["errors"]))
    rows.append("| `%s` | %s | %s | %s | %s |" % (name, clip(meta.get("summary"), 170), clip(meta.get("needs"), 130), first.get(name, "?"), now or "nothing"))
p = os.path.join(ROOT, "DESIGN.md")
s = open(p).read()
a, b = "<!-- seeded-table-begin -->", "<!-- seeded-table-end -->"
s = s[:s.index(a) + len(a)] + "\n" + "\n".join(rows) + "\n" + s[s.index(b):]
open(p, "w").write(s)
print("rows:", len(rows) - 2)
