#!/venv/bin/python
"""Development aid: apply behaviour-preserving patches (refactors/<name>/patch.diff) in memory and run quick checks on each; any
finding or analysis error is a false alarm of the machinery.  usage: tools/refcheck.py [-p C01,C05] [name-substring ...]"""
import glob, importlib, multiprocessing as mp, os, sys, traceback
ROOT = os.path.dirname(os.path.dirname(os.path.abspath(__file__)))
sys.path.insert(0, ROOT)
from bptkverif.core import AnalysisError, Index, Result, load_known
from bptkverif.selftest import apply_unified_diff
from bptkverif.__main__ import REGISTRY

def run(args):
    name, patch, prop = args
    import warnings; warnings.simplefilter("ignore")
    try:
        ov = apply_unified_diff("/repo", open(patch).read())
        if ov is None:
            return name, prop, "PATCH-DOES-NOT-APPLY", []
        modname, fname = REGISTRY[prop][:2]
        fn = getattr(importlib.import_module("bptkverif.checks." + modname), fname)
        res = Result(prop); err = None
        try:
            fn(Index("/repo", ov), "quick", res)
            for nm, count, floor in res.floors:
                if count < floor:
                    raise AnalysisError("floor '%s' %d < %d" % (nm, count, floor))
        except AnalysisError as e:
            err = "ANALYSIS-ERROR " + str(e)
        except Exception:
            err = "INTERNAL " + traceback.format_exc(limit=3)
        known = {k["key"] for k in load_known() if k.get("property") == prop and not k.get("fixed")}
        new = [f.key + "  @" + f.where for f in res.findings if f.key not in known]
        return name, prop, err, new
    except Exception:
        return name, prop, "HARNESS " + traceback.format_exc(limit=3), []

def main():
    argv = sys.argv[1:]
    props = sorted(REGISTRY)
    if argv and argv[0] == "-p":
        props = argv[1].split(","); argv = argv[2:]
    patches = sorted(glob.glob(os.path.join(ROOT, "refactors", "*", "patch.diff")))
    if argv:
        patches = [p for p in patches if any(a in p for a in argv)]
    jobs = [(os.path.basename(os.path.dirname(p)), p, pr) for p in patches for pr in props]
    with mp.get_context("fork").Pool(16) as pool:
        outs = pool.map(run, jobs, chunksize=2)
    bad = 0
    for name, prop, err, new in outs:
        if err or new:
            bad += 1
            print("%s x %s" % (name, prop))
            if err: print("     " + err[:300])
            for k in new[:4]: print("     violation " + k[:200])
    print("%d patches x %d checks: %d failing pairs" % (len(patches), len(props), bad))
    return 1 if bad else 0
if __name__ == "__main__":
    sys.exit(main())
