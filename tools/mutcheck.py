#!/venv/bin/python
"""Development aid: apply defect patches in memory and report which checks fire.  usage: tools/mutcheck.py <glob of patch.diff> ...
The property a patch is aimed at is taken from the first Cxx in its path."""
import glob, os, re, sys
ROOT = os.path.dirname(os.path.dirname(os.path.abspath(__file__)))
sys.path.insert(0, ROOT)
import multiprocessing as mp
from tools.refcheck import run          # same worker
from bptkverif.__main__ import REGISTRY

def main():
    patches = sorted(p for a in sys.argv[1:] for p in glob.glob(a))
    jobs = [(p, p, pr) for p in patches for pr in sorted(REGISTRY)]
    with mp.get_context("fork").Pool(16) as pool:
        outs = pool.map(run, jobs, chunksize=2)
    by = {}
    for name, prop, err, new in outs:
        by.setdefault(name, {})[prop] = (err, new)
    for p in patches:
        own = re.search(r"C\d\d", p).group(0)
        fired = {pr: v for pr, v in by[p].items() if v[1]}
        errs = {pr: v for pr, v in by[p].items() if v[0] and not v[1]}
        if own in fired:
            verdict = "own check"
        elif fired:
            verdict = "other check (%s)" % ", ".join(sorted(fired))
        elif errs:
            verdict = "analysis-error only (%s)" % ", ".join(sorted(errs))
        else:
            verdict = "MISSED"
        print("%-34s %s" % (p.replace("/tmp/", "").replace("/patch.diff", ""), verdict))
        for pr, (err, new) in sorted(fired.items()):
            print("        %s: %s" % (pr, "; ".join(k.split("  @")[0] for k in new[:2])[:170]))
        for pr, (err, new) in sorted(errs.items()):
            print("        %s !! %s" % (pr, err[:150]))
if __name__ == "__main__":
    main()
