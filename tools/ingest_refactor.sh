#!/bin/bash
# usage: tools/ingest_refactor.sh <agent worktree> <property id> <Rn>
# Copies a behaviour-preserving change produced by a sub-agent into /verif/refactors/<Cxx>_<Rn>/ and re-confirms it in a fresh
# scratch worktree of /repo: the patch applies, the package compiles, the agent's demo transcript is identical to the one of the
# unchanged code, the pinned suite gives 106 passed (+ the always-failing test).  Writes meta.json ("confirmed", "kept").
set -u
src=$1; prop=$2; rn=$3
name=${4:-${prop}_${rn}}
dst=/verif/refactors/$name
mkdir -p "$dst"
cp "$src/$rn/patch.diff" "$dst/patch.diff" || exit 1
cp "$src/$rn/meta.json" "$dst/meta.agent.json"
demo=$(ls "$src"/demo_*.py | head -1)
cp "$demo" "$dst/$(basename "$demo")"       # kept so that the patch can be re-confirmed after a later change to /repo
wt=/tmp/confirmR_$name
rm -rf "$wt"; git -C /repo worktree prune
git -C /repo worktree add -q --detach "$wt" HEAD || exit 1
cd "$wt" || exit 1
cp "$demo" .
PYTHONPATH=$wt timeout 900 /venv/bin/python "$(basename "$demo")" > /tmp/confirmR_$name.base.txt 2>/dev/null; rc_base=$?
git clean -fdq tests/ 2>/dev/null
if ! git apply "$dst/patch.diff"; then echo "$name PATCH DOES NOT APPLY"; cd /; git -C /repo worktree remove --force "$wt"; exit 1; fi
/venv/bin/python -m compileall -q BPTK_Py >/dev/null; comp=$?
PYTHONPATH=$wt timeout 900 /venv/bin/python "$(basename "$demo")" > /tmp/confirmR_$name.with.txt 2>/dev/null; rc_with=$?
same=no; cmp -s /tmp/confirmR_$name.base.txt /tmp/confirmR_$name.with.txt && same=yes
lines=$(wc -l < /tmp/confirmR_$name.base.txt)
PYTHONPATH=$wt timeout 1500 /venv/bin/python -m pytest -q -p no:cacheprovider --timeout=900 > /tmp/confirmR_$name.suite.log 2>&1
suite=$(tail -1 /tmp/confirmR_$name.suite.log)
onlyknown=$(grep "^FAILED" /tmp/confirmR_$name.suite.log | grep -vc "test_sddsl_functions")
cd /verif
git -C /repo worktree remove --force "$wt"
rm -f /tmp/confirmR_$name.base.txt /tmp/confirmR_$name.with.txt /tmp/confirmR_$name.suite.log
/venv/bin/python - "$dst" "$prop" "$name" "$comp" "$same" "$lines" "$suite" "$onlyknown" "$rc_base" "$rc_with" <<'PYEOF'
import json, sys
dst, prop, name, comp, same, lines, suite, onlyknown, rc_base, rc_with = sys.argv[1:11]
a = json.load(open(dst + "/meta.agent.json"))
meta = {"property": prop, "name": name, "summary": a.get("summary"), "why_equivalent": a.get("why_equivalent"), "files": a.get("files"),
        "produced_by": "fresh sub-agent given only the property text and a scratch worktree; asked for behaviour-preserving edits",
        "confirmed": {"compiles": comp == "0", "demo_transcript_identical": same == "yes", "demo_transcript_lines": int(lines),
                      "demo_exit": [int(rc_base), int(rc_with)], "suite_with_change": suite.strip(), "unexpected_test_failures": int(onlyknown),
                      "how": "tools/ingest_refactor.sh: fresh worktree of /repo HEAD, agent's demo on unchanged code, git apply, demo again (cmp), full pinned suite"}}
ok = comp == "0" and same == "yes" and int(onlyknown) == 0 and int(lines) > 0
meta["kept"] = ok
json.dump(meta, open(dst + "/meta.json", "w"), indent=1)
print("%s: compiles=%s demo_identical=%s (%s lines) suite='%s' unexpected_failures=%s -> %s" % (name, comp == "0", same, lines, suite.strip(), onlyknown, "KEPT" if ok else "REJECTED"))
PYEOF
