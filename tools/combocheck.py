#!/venv/bin/python
"""Development aid: a seeded defect change composed with a behaviour-preserving change of the same property (refactor first, then
the defect, where both still apply): the property's own check must still report the defect.  A miss means a view normalisation
hides a defect.  usage: tools/combocheck.py [Cxx ...]"""
import glob, importlib, json, multiprocessing as mp, os, re, sys, traceback
ROOT = os.path.dirname(os.path.dirname(os.path.abspath(__file__)))
sys.path.insert(0, ROOT)
from bptkverif.core import AnalysisError, Index, Result, load_known
from bptkverif.selftest import apply_unified_diff
from bptkverif.__main__ import REGISTRY

def run(args):
    sname, rname, prop = args
    import warnings; warnings.simplefilter("ignore")
    try:
        ov = apply_unified_diff("/repo", open(os.path.join(ROOT, "refactors", rname, "patch.diff")).read())
        if ov is None:
            return sname, rname, "skip", []
        ov2 = apply_unified_diff("/repo", open(os.path.join(ROOT, "seeded", sname, "patch.diff")).read(), ov)
        if ov2 is None:
            return sname, rname, "skip", []
        for rel, text in ov2.items():
            try:
                compile(text, rel, "exec", dont_inherit=True)
            except SyntaxError:
                return sname, rname, "skip", []
        modname, fname = REGISTRY[prop][:2]
        fn = getattr(importlib.import_module("bptkverif.checks." + modname), fname)
        res = Result(prop); err = None
        try:
            fn(Index("/repo", ov2), "quick", res)
        except AnalysisError as e:
            err = "ANALYSIS-ERROR " + str(e)
        except Exception:
            err = "INTERNAL " + traceback.format_exc(limit=3)
        known = {k["key"] for k in load_known() if k.get("property") == prop and not k.get("fixed")}
        new = [f.key for f in res.findings if f.key not in known]
        return sname, rname, err, new
    except Exception:
        return sname, rname, "HARNESS " + traceback.format_exc(limit=3), []

def main():
    props = sys.argv[1:] or sorted(REGISTRY)
    jobs = []
    for prop in props:
        seeded = [d for d in sorted(os.listdir(os.path.join(ROOT, "seeded"))) if d.startswith(prop) and
                  os.path.exists(os.path.join(ROOT, "seeded", d, "meta.json")) and json.load(open(os.path.join(ROOT, "seeded", d, "meta.json"))).get("kept")]
        refs = [d for d in sorted(os.listdir(os.path.join(ROOT, "refactors"))) if d.startswith(prop + "_")]
        jobs += [(s, r, prop) for s in seeded for r in refs]
    with mp.get_context("fork").Pool(16) as pool:
        outs = pool.map(run, jobs, chunksize=1)
    n = miss = errs = skip = 0
    for sname, rname, err, new in outs:
        if err == "skip":
            skip += 1
            continue
        n += 1
        if new:
            continue
        if err:
            errs += 1
            print("ERR   %-40s + %-10s %s" % (sname, rname, err[:160]))
        else:
            miss += 1
            print("MISS  %-40s + %-10s" % (sname, rname))
    print("%d compositions checked (%d did not compose): %d missed, %d ended in analysis error only" % (n, skip, miss, errs))
if __name__ == "__main__":
    main()
