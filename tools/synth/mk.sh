#!/bin/bash
# usage: mk.sh <name> <sed-expr> <file>...
name=$1; expr=$2; shift 2
mkdir -p /tmp/syn/$name; : > /tmp/syn/$name/patch.diff
for f in "$@"; do
  mkdir -p /tmp/syn/$name/a/$(dirname $f) /tmp/syn/$name/b/$(dirname $f)
  cp /repo/$f /tmp/syn/$name/a/$f; sed -E "$expr" /repo/$f > /tmp/syn/$name/b/$f
  (cd /tmp/syn/$name; echo "diff --git a/$f b/$f"; diff -u --label a/$f --label b/$f a/$f b/$f) >> /tmp/syn/$name/patch.diff
done
