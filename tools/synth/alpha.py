#!/venv/bin/python
"""usage: alpha.py <name> <file>...   alpha-renames every local variable (not parameters) of every function to v<k>_<n>"""
import ast, sys, os, subprocess, symtable
name = sys.argv[1]
d = "/tmp/syn/" + name
os.makedirs(d, exist_ok=True)
open(d + "/patch.diff", "w").close()
for rel in sys.argv[2:]:
    text = open("/repo/" + rel).read()
    tree = ast.parse(text)
    lines = text.split("\n")
    edits = {}
    fcount = 0
    def own_nodes(fn):
        stack = list(fn.body)
        while stack:
            n = stack.pop()
            yield n
            if isinstance(n, (ast.FunctionDef, ast.AsyncFunctionDef, ast.Lambda, ast.ClassDef)):
                continue
            stack.extend(ast.iter_child_nodes(n))
    for fn in [n for n in ast.walk(tree) if isinstance(n, (ast.FunctionDef, ast.AsyncFunctionDef))]:
        if any(isinstance(c, ast.Call) and isinstance(c.func, ast.Name) and c.func.id in ("eval", "exec", "locals", "vars") for c in ast.walk(fn)):
            continue
        a = fn.args
        params = {x.arg for x in a.posonlyargs + a.args + a.kwonlyargs} | ({a.vararg.arg} if a.vararg else set()) | ({a.kwarg.arg} if a.kwarg else set())
        stores = set(); banned = set()
        for n in own_nodes(fn):
            if isinstance(n, ast.Name) and isinstance(n.ctx, (ast.Store, ast.Del)):
                stores.add(n.id)
            elif isinstance(n, (ast.Global, ast.Nonlocal)):
                banned |= set(n.names)
            elif isinstance(n, ast.ExceptHandler) and n.name:
                banned.add(n.name)
            elif isinstance(n, (ast.Import, ast.ImportFrom)):
                banned |= {(al.asname or al.name).split(".")[0] for al in n.names}
            elif isinstance(n, (ast.FunctionDef, ast.AsyncFunctionDef, ast.ClassDef)):
                banned.add(n.name)
        # comprehension targets are their own scope in py3 but renaming consistently within the function subtree is still fine
        nested = [n for n in ast.walk(fn) if n is not fn and isinstance(n, (ast.FunctionDef, ast.AsyncFunctionDef, ast.Lambda))]
        for nf in nested:
            aa = nf.args
            banned |= {x.arg for x in aa.posonlyargs + aa.args + aa.kwonlyargs}
            if not isinstance(nf, ast.Lambda):
                for n in ast.walk(nf):
                    if isinstance(n, ast.Name) and isinstance(n.ctx, ast.Store):
                        banned.add(n.id)
                    if isinstance(n, (ast.Global, ast.Nonlocal)):
                        banned |= set(n.names)
        # enclosing function's locals used here as free variables must not be captured: only rename names stored here
        locs = sorted(stores - params - banned - {"self", "cls", "_"})
        if not locs:
            continue
        fcount += 1
        mp = {l: "v%d_%d" % (fcount, i) for i, l in enumerate(locs)}
        for n in ast.walk(fn):
            if isinstance(n, ast.Name) and n.id in mp:
                edits[(n.lineno, n.col_offset)] = (n.id, mp[n.id])
    for (ln, col), (old, new) in sorted(edits.items(), reverse=True):
        b = lines[ln - 1].encode()
        assert b[col:col + len(old)].decode() == old, (rel, ln, col, old)
        lines[ln - 1] = (b[:col] + new.encode() + b[col + len(old):]).decode()
    new_text = "\n".join(lines)
    compile(new_text, rel, "exec")
    os.makedirs(d + "/a/" + os.path.dirname(rel), exist_ok=True); os.makedirs(d + "/b/" + os.path.dirname(rel), exist_ok=True)
    open(d + "/a/" + rel, "w").write(text); open(d + "/b/" + rel, "w").write(new_text)
    out = subprocess.run(["diff", "-u", "--label", "a/" + rel, "--label", "b/" + rel, "a/" + rel, "b/" + rel], cwd=d, capture_output=True, text=True).stdout
    if out:
        open(d + "/patch.diff", "a").write("diff --git a/%s b/%s\n" % (rel, rel) + out)
    print(rel, len(edits), "edits in", fcount, "functions")
