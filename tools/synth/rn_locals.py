#!/venv/bin/python
"""usage: rn_locals.py <name> <file> old=new ...   renames local variables / parameters (ast.Name, ast.arg, keyword args of private calls are NOT touched)"""
import ast, sys, os, subprocess
name, rel = sys.argv[1], sys.argv[2]
mp = dict(a.split("=") for a in sys.argv[3:])
text = open("/repo/" + rel).read()
tree = ast.parse(text)
lines = text.split("\n")
edits = []
for n in ast.walk(tree):
    if isinstance(n, ast.Name) and n.id in mp:
        edits.append((n.lineno, n.col_offset, n.id))
    elif isinstance(n, ast.arg) and n.arg in mp:
        edits.append((n.lineno, n.col_offset, n.arg))
for ln, col, old in sorted(set(edits), reverse=True):
    l = lines[ln - 1]
    # col_offset is in utf8 bytes
    b = l.encode()
    assert b[col:col + len(old)].decode() == old, (ln, col, old, l)
    lines[ln - 1] = (b[:col] + mp[old].encode() + b[col + len(old):]).decode()
d = "/tmp/syn/" + name
os.makedirs(d + "/a/" + os.path.dirname(rel), exist_ok=True); os.makedirs(d + "/b/" + os.path.dirname(rel), exist_ok=True)
open(d + "/a/" + rel, "w").write(text); open(d + "/b/" + rel, "w").write("\n".join(lines))
out = subprocess.run(["diff", "-u", "--label", "a/" + rel, "--label", "b/" + rel, "a/" + rel, "b/" + rel], cwd=d, capture_output=True, text=True).stdout
open(d + "/patch.diff", "a").write("diff --git a/%s b/%s\n" % (rel, rel) + out)
compile("\n".join(lines), rel, "exec")
print(name, rel, len(edits), "edits")
