#!/venv/bin/python
"""Write bptkverif/baseline_profile.json: the name-independent fingerprints of every function and of every attribute a class stores
on self, on the tree the rules were written for (/repo at the time this is run).  Re-run after a `fix:` commit to /repo."""
import ast, hashlib, json, os, sys
ROOT = os.path.dirname(os.path.dirname(os.path.abspath(__file__)))
sys.path.insert(0, ROOT)
from bptkverif.rename import PROFILE, profile_of
repo = sys.argv[1] if len(sys.argv) > 1 else "/repo"
trees = {}
shas = {}
for d, dirs, files in sorted(os.walk(os.path.join(repo, "BPTK_Py"))):
    dirs.sort()
    for fn in sorted(files):
        if fn.endswith(".py") and "__pycache__" not in d:
            p = os.path.join(d, fn)
            import warnings
            with warnings.catch_warnings():
                warnings.simplefilter("ignore")
                text = open(p, encoding="utf-8").read()
                trees[os.path.relpath(p, repo)] = ast.parse(text)
                shas[os.path.relpath(p, repo)] = hashlib.sha256(text.encode()).hexdigest()[:16]
prof = profile_of(trees, shas)
json.dump(prof, open(PROFILE, "w"), indent=0, sort_keys=True)
print("profile: %d modules, %d functions, %d class attributes" % (len(prof), sum(len(p["funcs"]) for p in prof.values()),
      sum(len(a) for p in prof.values() for a in p["attrs"].values())))
