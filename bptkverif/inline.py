"""Analysis view: see through helper functions and a few interchangeable idioms.

The rules in checks/ are phrased over the functions that implement a property (the anchors).  Maintainers move code around
without changing behaviour: a block becomes a private helper, a membership test loses its ``.keys()``, ``== None`` becomes
``is None``.  So that such edits do not change what the rules see, the index is normalised once after parsing:

* ``canonicalise``: `x in d.keys()` -> `x in d`, `not x in d` -> `x not in d`, `x == None` -> `x is None`,
  `l += [e]` -> `l.append(e)`.
* ``inline_helpers``: a call to a helper defined in the same module (a method of the same class called on ``self``/the class, a
  module-level function, a nested def of an enclosing function) is replaced by the helper's body with its parameters
  substituted - but only for helpers whose *name is not part of the anchor vocabulary* (bptkverif/anchor_vocab.txt: the function
  names of the tree the rules were written against).  Anchors stay calls, because the rules talk about them by name; everything
  else is by construction a helper the rules know nothing about, and looking through it is always sound for a view.

The rewritten tree is a *view for analysis only*; positions of inlined statements are those of the helper (same file).
Return statements of an inlined helper are eliminated structurally (guard clauses become if/else); a helper with a return inside
a loop, with ``yield``, ``*args`` or decorators other than staticmethod/classmethod is left as a call.
"""
from __future__ import annotations

import ast
import copy
import os
from typing import Dict, List, Optional, Set, Tuple

_HERE = os.path.dirname(os.path.abspath(__file__))


def load_vocab() -> Set[str]:
    p = os.path.join(_HERE, "anchor_vocab.txt")
    try:
        with open(p, encoding="utf-8") as fh:
            return {l.strip() for l in fh if l.strip() and not l.startswith("#")}
    except OSError:
        return set()


# ---------------------------------------------------------------------------
# idiom canonicalisation
# ---------------------------------------------------------------------------

class _Canon(ast.NodeTransformer):
    def __init__(self, eq_none: bool = True):
        self.eq_none = eq_none

    def visit_Compare(self, node: ast.Compare):
        self.generic_visit(node)
        if len(node.ops) == 1:
            op, right = node.ops[0], node.comparators[0]
            if isinstance(op, (ast.In, ast.NotIn)) and isinstance(right, ast.Call) and isinstance(right.func, ast.Attribute) \
                    and right.func.attr == "keys" and not right.args and not right.keywords:
                node.comparators[0] = right.func.value
            if self.eq_none and isinstance(op, (ast.Eq, ast.NotEq)) and isinstance(right, ast.Constant) and right.value is None:
                node.ops[0] = ast.Is() if isinstance(op, ast.Eq) else ast.IsNot()
        return node

    def visit_Call(self, node: ast.Call):
        self.generic_visit(node)
        # list((a, b)) / list([a, b]) / tuple([a, b]): the literal itself
        if isinstance(node.func, ast.Name) and node.func.id in ("list", "tuple") and len(node.args) == 1 and not node.keywords \
                and isinstance(node.args[0], (ast.Tuple, ast.List)) and not any(isinstance(e, ast.Starred) for e in node.args[0].elts):
            lit = ast.List if node.func.id == "list" else ast.Tuple
            return ast.copy_location(lit(elts=node.args[0].elts, ctx=ast.Load()), node)
        return node

    def visit_If(self, node: ast.If):
        # if (x := E) is None: ...   ->   x = E; if x is None: ...   (only where the binding is evaluated unconditionally, first)
        self.generic_visit(node)
        pre = []

        def first(e, put):
            """the assignment expression evaluated first and always when *e* is evaluated"""
            if isinstance(e, ast.NamedExpr) and isinstance(e.target, ast.Name):
                pre.append(ast.copy_location(ast.Assign(targets=[ast.Name(e.target.id, ast.Store())], value=e.value), node))
                put(ast.copy_location(ast.Name(e.target.id, ast.Load()), e))
            elif isinstance(e, ast.UnaryOp) and isinstance(e.op, ast.Not):
                first(e.operand, lambda v: setattr(e, "operand", v))
            elif isinstance(e, ast.Compare):
                if isinstance(e.left, ast.Constant) and len(e.comparators) == 1:
                    first(e.comparators[0], lambda v: e.comparators.__setitem__(0, v))      # "k" in (h := request.headers)
                else:
                    first(e.left, lambda v: setattr(e, "left", v))
            elif isinstance(e, ast.BoolOp):
                first(e.values[0], lambda v: e.values.__setitem__(0, v))
        first(node.test, lambda v: setattr(node, "test", v))
        if pre:
            ast.fix_missing_locations(pre[0])
            return pre + [node]
        return node

    def visit_JoinedStr(self, node: ast.JoinedStr):
        # f"({a}) + ({b})"  is  "({}) + ({})".format(a, b): one spelling of a text template for the rules
        self.generic_visit(node)
        tmpl = []
        args = []
        for v in node.values:
            if isinstance(v, ast.Constant) and isinstance(v.value, str):
                tmpl.append(v.value.replace("{", "{{").replace("}", "}}"))
            elif isinstance(v, ast.FormattedValue):
                conv = {115: "!s", 114: "!r", 97: "!a"}.get(v.conversion, "")
                spec = ""
                if v.format_spec is not None:
                    if not (isinstance(v.format_spec, ast.JoinedStr) and all(isinstance(x, ast.Constant) for x in v.format_spec.values)):
                        return node
                    spec = ":" + "".join(x.value for x in v.format_spec.values)
                if conv == "!s" and not spec:
                    conv = ""
                    args.append(ast.copy_location(ast.Call(func=ast.Name(id="str", ctx=ast.Load()), args=[v.value], keywords=[]), v))
                else:
                    args.append(v.value)
                tmpl.append("{%s%s}" % (conv, spec))
            else:
                return node
        if not args:
            return node
        call = ast.Call(func=ast.Attribute(value=ast.Constant(value="".join(tmpl)), attr="format", ctx=ast.Load()), args=args, keywords=[])
        return ast.fix_missing_locations(ast.copy_location(call, node))

    def visit_UnaryOp(self, node: ast.UnaryOp):
        self.generic_visit(node)
        if isinstance(node.op, ast.Not) and isinstance(node.operand, ast.Compare) and len(node.operand.ops) == 1:
            c = node.operand
            flip = {ast.In: ast.NotIn, ast.NotIn: ast.In, ast.Is: ast.IsNot, ast.IsNot: ast.Is}
            for a, b in flip.items():
                if isinstance(c.ops[0], a):
                    c.ops[0] = b()
                    return ast.copy_location(c, node)
        return node

    def visit_FunctionDef(self, node):
        self._fdepth = getattr(self, "_fdepth", 0) + 1
        try:
            self.generic_visit(node)
        finally:
            self._fdepth -= 1
        return node
    visit_AsyncFunctionDef = visit_FunctionDef

    def visit_ClassDef(self, node):
        saved, self._fdepth = getattr(self, "_fdepth", 0), 0       # fields of a record class keep their annotations
        try:
            self.generic_visit(node)
        finally:
            self._fdepth = saved
        return node

    def visit_AnnAssign(self, node: ast.AnnAssign):
        # x: T = v  is  x = v  for every rule (annotations are not evaluated for their effect)
        self.generic_visit(node)
        if getattr(self, "_fdepth", 0) > 0 and node.value is not None and isinstance(node.target, (ast.Name, ast.Attribute, ast.Subscript)):
            return self.visit_Assign(ast.copy_location(ast.Assign(targets=[node.target], value=node.value, lineno=node.lineno), node))
        return node

    def _hoist_walrus(self, node):
        # T += (v := E) / x = (v := E):  v = E; T += v   (E without calls: evaluating it first changes nothing)
        val = node.value
        if isinstance(val, ast.NamedExpr) and isinstance(val.target, ast.Name) and not any(isinstance(x, (ast.Call, ast.Yield, ast.Await)) for x in ast.walk(val.value)):
            pre = ast.copy_location(ast.Assign(targets=[ast.Name(val.target.id, ast.Store())], value=val.value, lineno=node.lineno), node)
            node.value = ast.copy_location(ast.Name(val.target.id, ast.Load()), val)
            return ast.fix_missing_locations(pre)
        return None

    def visit_Assign(self, node: ast.Assign):
        self.generic_visit(node)
        # T[(k := E)] = V:  k = E; T[k] = V   (view only: the key is evaluated before instead of after V)
        for t in node.targets:
            if isinstance(t, ast.Subscript) and isinstance(t.slice, ast.NamedExpr) and isinstance(t.slice.target, ast.Name):
                ne = t.slice
                pre0 = ast.copy_location(ast.Assign(targets=[ast.Name(ne.target.id, ast.Store())], value=ne.value, lineno=node.lineno), node)
                t.slice = ast.copy_location(ast.Name(ne.target.id, ast.Load()), ne)
                rest0 = self.visit_Assign(node)
                return [ast.fix_missing_locations(pre0)] + (rest0 if isinstance(rest0, list) else [rest0])
        pre = self._hoist_walrus(node)
        if pre is not None:
            rest = self.visit_Assign(node)
            return [pre] + (rest if isinstance(rest, list) else [rest])
        # head, *rest = E:  head = E[0]; rest = E[1:]      x, = E:  x = E[0]      (E a sequence; a wrong length is not modelled)
        if len(node.targets) == 1 and isinstance(node.targets[0], (ast.Tuple, ast.List)) and not isinstance(node.value, (ast.Tuple, ast.List)):
            elts = node.targets[0].elts
            star = [i for i, e in enumerate(elts) if isinstance(e, ast.Starred)]
            if (len(elts) == 1 and not star) or (star == [len(elts) - 1] and len(elts) >= 2 and all(isinstance(e, ast.Name) for e in elts[:-1])
                                                  and isinstance(elts[-1].value, ast.Name)):
                out = []
                base = node.value
                if not isinstance(base, ast.Name):
                    tmp = "_unpacked_%d" % getattr(node, "lineno", 0)
                    out.append(ast.copy_location(ast.Assign(targets=[ast.Name(tmp, ast.Store())], value=base, lineno=node.lineno), node))
                    base = ast.Name(tmp, ast.Load())
                for i, e in enumerate(elts):
                    if isinstance(e, ast.Starred):
                        v = ast.Subscript(value=copy.deepcopy(base), slice=ast.Slice(lower=ast.Constant(i), upper=None, step=None), ctx=ast.Load())
                        out.append(ast.copy_location(ast.Assign(targets=[e.value], value=v, lineno=node.lineno), node))
                    else:
                        v = ast.Subscript(value=copy.deepcopy(base), slice=ast.Constant(i), ctx=ast.Load())
                        out.append(ast.copy_location(ast.Assign(targets=[e], value=v, lineno=node.lineno), node))
                return [ast.fix_missing_locations(x) for x in out]
        # t1[k] = t2[k] = v  with v a plain name or constant: one store each
        if len(node.targets) >= 2 and isinstance(node.value, (ast.Name, ast.Constant)) \
                and all(isinstance(t, (ast.Subscript, ast.Attribute)) and not any(isinstance(x, ast.Call) for x in ast.walk(t)) for t in node.targets):
            return [ast.copy_location(ast.Assign(targets=[t], value=copy.deepcopy(node.value), lineno=node.lineno), node) for t in node.targets]
        # row = table[k] = {}  (a name and a slot bound to the same fresh value):  table[k] = {}; row = table[k]
        if len(node.targets) == 2 and not isinstance(node.value, (ast.Yield, ast.Await)):
            names = [t for t in node.targets if isinstance(t, ast.Name)]
            slots = [t for t in node.targets if isinstance(t, (ast.Subscript, ast.Attribute))]
            if len(names) == 1 and len(slots) == 1 and not any(isinstance(x, ast.Call) for x in ast.walk(slots[0])):
                load = copy.deepcopy(slots[0])
                for x in ast.walk(load):
                    if hasattr(x, "ctx"):
                        x.ctx = ast.Load()
                first = ast.copy_location(ast.Assign(targets=[slots[0]], value=node.value, lineno=node.lineno), node)
                second = ast.copy_location(ast.Assign(targets=[names[0]], value=load, lineno=node.lineno), node)
                return [first, second]
        # a, b = (x, y) if c else (u, v):  if c: a = x; b = y  else: a = u; b = v
        if len(node.targets) == 1 and isinstance(node.targets[0], ast.Tuple) and isinstance(node.value, ast.IfExp) \
                and isinstance(node.value.body, ast.Tuple) and isinstance(node.value.orelse, ast.Tuple) \
                and len(node.value.body.elts) == len(node.value.orelse.elts) == len(node.targets[0].elts) \
                and not any(isinstance(e, ast.Starred) for e in node.targets[0].elts + node.value.body.elts + node.value.orelse.elts):
            def arm(values):
                inner = ast.copy_location(ast.Assign(targets=[copy.deepcopy(node.targets[0])], value=values, lineno=node.lineno), node)
                out = self.visit_Assign(inner)
                return out if isinstance(out, list) else [out]
            return ast.copy_location(ast.If(test=node.value.test, body=arm(node.value.body), orelse=arm(node.value.orelse)), node)
        # a, b = x, y  with plain names/attributes on the right and no name written that is read later on the right:  a = x; b = y
        if len(node.targets) == 1 and isinstance(node.targets[0], ast.Tuple) and isinstance(node.value, ast.Tuple) \
                and len(node.targets[0].elts) == len(node.value.elts) and not any(isinstance(e, ast.Starred) for e in node.targets[0].elts + node.value.elts) \
                and not any(isinstance(x, (ast.Call, ast.Yield, ast.Await, ast.NamedExpr)) for v in node.value.elts[1:] for x in ast.walk(v)):
            written = [ast.unparse(t) for t in node.targets[0].elts]
            reads = [ast.unparse(x) for v in node.value.elts for x in ast.walk(v) if isinstance(x, (ast.Name, ast.Attribute))]
            if not set(written) & set(reads):
                return [ast.copy_location(ast.Assign(targets=[t], value=v, lineno=node.lineno), node) for t, v in zip(node.targets[0].elts, node.value.elts)]
        return node

    def visit_AugAssign(self, node: ast.AugAssign):
        self.generic_visit(node)
        pre = self._hoist_walrus(node)
        if pre is not None:
            rest = self.visit_AugAssign(node)
            return [pre] + (rest if isinstance(rest, list) else [rest])
        if isinstance(node.op, ast.Add) and isinstance(node.value, ast.List) and len(node.value.elts) == 1 \
                and isinstance(node.target, (ast.Name, ast.Attribute, ast.Subscript)) and not isinstance(node.value.elts[0], ast.Starred):
            tgt = copy.deepcopy(node.target)
            for x in ast.walk(tgt):
                if hasattr(x, "ctx"):
                    x.ctx = ast.Load()
            call = ast.Call(func=ast.Attribute(value=tgt, attr="append", ctx=ast.Load()), args=[node.value.elts[0]], keywords=[])
            return ast.fix_missing_locations(ast.copy_location(ast.Expr(value=ast.copy_location(call, node)), node))
        return node


def _empty_container_call(e: ast.AST) -> bool:
    """dict() / list() / set() / OrderedDict() / defaultdict(list): building it has no effect besides the new object.  Any other call as
    the default of setdefault is evaluated *whether or not the key exists* - that is behaviour (a constructor that registers itself)
    and must stay visible, so such a setdefault is not shown as check-then-create."""
    return isinstance(e, ast.Call) and isinstance(e.func, ast.Name) and e.func.id in ("dict", "list", "set", "tuple", "OrderedDict", "defaultdict", "Counter", "deque") \
        and all(isinstance(a, (ast.Name, ast.Constant)) for a in e.args) and not e.keywords


class _SetDefault(ast.NodeTransformer):
    """``row = T.setdefault(k, D)`` / ``T.setdefault(k, D)[i] = v`` / ``T.setdefault(k, D).append(v)`` are the check-then-create idiom
    ``if k not in T: T[k] = D`` followed by the same statement over ``T[k]`` (key and default are written twice: view only, the key
    must be a plain name/attribute/constant)."""

    def _lift(self, stmt: ast.stmt) -> List[ast.stmt]:
        pre: List[ast.stmt] = []

        def is_sd(e):
            return isinstance(e, ast.Call) and isinstance(e.func, ast.Attribute) and e.func.attr == "setdefault" and len(e.args) == 2 and not e.keywords \
                and _simple(e.args[0]) and (isinstance(e.args[1], (ast.Dict, ast.List, ast.Constant, ast.Name, ast.Attribute)) or _empty_container_call(e.args[1]))

        class R(ast.NodeTransformer):
            def visit_Lambda(self, node):
                return node
            visit_FunctionDef = visit_Lambda
            visit_ListComp = visit_Lambda
            visit_DictComp = visit_Lambda
            visit_SetComp = visit_Lambda
            visit_GeneratorExp = visit_Lambda
            visit_IfExp = visit_Lambda
            visit_BoolOp = visit_Lambda

            def visit_Call(self, node):
                self.generic_visit(node)
                if is_sd(node):
                    table, key, default = node.func.value, node.args[0], node.args[1]
                    tgt = ast.Subscript(value=copy.deepcopy(table), slice=copy.deepcopy(key), ctx=ast.Store())
                    test = ast.Compare(left=copy.deepcopy(key), ops=[ast.NotIn()], comparators=[copy.deepcopy(table)])
                    pre.append(ast.copy_location(ast.If(test=test, body=[ast.Assign(targets=[tgt], value=default, lineno=node.lineno)], orelse=[]), node))
                    return ast.copy_location(ast.Subscript(value=table, slice=key, ctx=ast.Load()), node)
                return node
        if isinstance(stmt, (ast.Assign, ast.AugAssign, ast.Expr, ast.Return, ast.AnnAssign)):
            new = R().visit(stmt)
            if pre:
                if isinstance(new, ast.Expr) and isinstance(new.value, ast.Subscript):
                    return pre           # a bare `T.setdefault(k, D)` statement
                return pre + [new]
        return [stmt]

    def _block(self, stmts):
        out = []
        for st in stmts:
            self.generic_visit(st) if not isinstance(st, (ast.FunctionDef, ast.ClassDef)) else self.visit(st)
            out += self._lift(st)
        return out

    def generic_visit(self, node):
        for fld in ("body", "orelse", "finalbody"):
            v = getattr(node, fld, None)
            if isinstance(v, list) and v and isinstance(v[0], ast.stmt):
                setattr(node, fld, self._block(v))
        for h in getattr(node, "handlers", []) or []:
            h.body = self._block(h.body)
        return node

    def visit(self, node):
        return self.generic_visit(node)


def _compiled_regex_calls(tree: ast.AST) -> int:
    """``re.compile(P).sub(R, S)`` (a pattern compiled once at module level, shown at its use by constant propagation) is
    ``re.sub(P, R, S)``; likewise search / match / fullmatch / findall / finditer / split / subn."""
    done = 0

    class R(ast.NodeTransformer):
        def visit_Call(self, node):
            nonlocal done
            self.generic_visit(node)
            f = node.func
            if isinstance(f, ast.Attribute) and f.attr in ("sub", "subn", "search", "match", "fullmatch", "findall", "finditer", "split") \
                    and isinstance(f.value, ast.Call) and isinstance(f.value.func, ast.Attribute) and f.value.func.attr == "compile" \
                    and isinstance(f.value.func.value, ast.Name) and f.value.func.value.id == "re" and len(f.value.args) == 1 and not f.value.keywords:
                done += 1
                return ast.copy_location(ast.Call(func=ast.Attribute(value=ast.Name("re", ast.Load()), attr=f.attr, ctx=ast.Load()),
                                                  args=[f.value.args[0]] + list(node.args), keywords=node.keywords), node)
            return node
    R().visit(tree)
    if done:
        ast.fix_missing_locations(tree)
    return done


def canonicalise(tree: ast.AST, eq_none: bool = True) -> None:
    """*eq_none* = False where ``==`` may be overloaded to build an object (the SD DSL): there ``x == None`` is not ``x is None``."""
    _Canon(eq_none).visit(tree)
    _closure_factories(tree)
    _dispatch_tables(tree)
    _strategy_tables(tree)
    _merge_copies(tree)
    _drop_identity_assignments(tree)
    _SetDefault().visit(tree)
    propagate_constants(tree)
    _compiled_regex_calls(tree)
    _Unroll().visit(tree)
    if _closure_factories(tree) or True:
        _dicts_built_by_update(tree)
    for fn in [n for n in ast.walk(tree) if isinstance(n, (ast.FunctionDef, ast.AsyncFunctionDef))]:
        propagate_attribute_aliases(fn)
    ast.fix_missing_locations(tree)


def _dispatch_tables(tree: ast.AST) -> int:
    """``h = TABLE.get(k)`` / ``if h is not None: ... h(args) ...`` with TABLE a module-level dict literal of functions that is never
    written to: the chain of comparisons the table stands for (``if k == "a": ... fa(args) ... elif k == "b": ...``)."""
    if not isinstance(tree, ast.Module):
        return 0
    tables: Dict[str, ast.Dict] = {}
    count: Dict[str, int] = {}
    for st in tree.body:
        if isinstance(st, ast.Assign) and len(st.targets) == 1 and isinstance(st.targets[0], ast.Name):
            count[st.targets[0].id] = count.get(st.targets[0].id, 0) + 1
            v = st.value
            if isinstance(v, ast.Dict) and v.keys and all(isinstance(k, ast.Constant) for k in v.keys) and all(isinstance(x, (ast.Name, ast.Attribute)) for x in v.values):
                tables[st.targets[0].id] = v
    tables = {k: v for k, v in tables.items() if count[k] == 1}
    if tables:
        for n in ast.walk(tree):
            if isinstance(n, ast.Subscript) and isinstance(n.ctx, (ast.Store, ast.Del)) and isinstance(n.value, ast.Name):
                tables.pop(n.value.id, None)
            if isinstance(n, ast.Attribute) and isinstance(n.value, ast.Name) and n.attr in ("update", "pop", "setdefault", "clear", "popitem"):
                tables.pop(n.value.id, None)
    if not tables:
        return 0
    done = 0

    def lookup(e: ast.AST):
        """(table, key expression) of TABLE.get(k[, None]) / TABLE[k]"""
        if isinstance(e, ast.Call) and isinstance(e.func, ast.Attribute) and e.func.attr == "get" and isinstance(e.func.value, ast.Name) \
                and e.func.value.id in tables and 1 <= len(e.args) <= 2 and (len(e.args) == 1 or (isinstance(e.args[1], ast.Constant) and e.args[1].value is None)):
            return tables[e.func.value.id], e.args[0]
        return None
    for owner in ast.walk(tree):
        for field in ("body", "orelse", "finalbody"):
            blk = getattr(owner, field, None)
            if not (isinstance(blk, list) and blk and isinstance(blk[0], ast.stmt)):
                continue
            i = 0
            while i + 1 < len(blk):
                a, b = blk[i], blk[i + 1]
                lk = lookup(a.value) if isinstance(a, ast.Assign) and len(a.targets) == 1 and isinstance(a.targets[0], ast.Name) else None
                if lk and isinstance(b, ast.If):
                    v = a.targets[0].id
                    t = b.test
                    positive = (isinstance(t, ast.Compare) and len(t.ops) == 1 and isinstance(t.ops[0], ast.IsNot) and isinstance(t.left, ast.Name) and t.left.id == v
                                and isinstance(t.comparators[0], ast.Constant) and t.comparators[0].value is None) or (isinstance(t, ast.Name) and t.id == v)
                    negative = isinstance(t, ast.Compare) and len(t.ops) == 1 and isinstance(t.ops[0], ast.Is) and isinstance(t.left, ast.Name) and t.left.id == v \
                        and isinstance(t.comparators[0], ast.Constant) and t.comparators[0].value is None
                    later = any(isinstance(n, ast.Name) and n.id == v for st in blk[i + 2:] for n in ast.walk(st))
                    if (positive or (negative and False)) and not later:
                        table, key = lk
                        hit_body, miss_body = (b.body, b.orelse)
                        chain: List[ast.stmt] = list(miss_body)
                        for k_, f_ in reversed(list(zip(table.keys, table.values))):
                            body = [_NameToConst(v, f_).visit(copy.deepcopy(st)) for st in hit_body]
                            test = ast.Compare(left=copy.deepcopy(key), ops=[ast.Eq()], comparators=[copy.deepcopy(k_)])
                            chain = [ast.copy_location(ast.If(test=test, body=body, orelse=chain), b)]
                        blk[i:i + 2] = chain
                        for st in chain:
                            ast.fix_missing_locations(st)
                        done += 1
                        continue
                i += 1
    return done


def _strategy_tables(tree: ast.AST) -> int:
    """``TABLE[bool(flag)].m(args)`` with TABLE = {False: A(), True: B()} (one strategy object per value of a flag, never written to):
    ``if flag: B().m(args) else: A().m(args)``."""
    if not isinstance(tree, ast.Module):
        return 0
    tables: Dict[str, ast.Dict] = {}
    count: Dict[str, int] = {}
    for st in tree.body:
        if isinstance(st, ast.Assign) and len(st.targets) == 1 and isinstance(st.targets[0], ast.Name):
            count[st.targets[0].id] = count.get(st.targets[0].id, 0) + 1
            v = st.value
            if isinstance(v, ast.Dict) and len(v.keys) == 2 and all(isinstance(k, ast.Constant) and isinstance(k.value, bool) for k in v.keys) \
                    and {k.value for k in v.keys} == {True, False} and all(isinstance(x, ast.Call) and isinstance(x.func, ast.Name) and not x.args and not x.keywords for x in v.values):
                tables[st.targets[0].id] = v
    tables = {k: v for k, v in tables.items() if count[k] == 1}
    for n in ast.walk(tree):
        if isinstance(n, ast.Subscript) and isinstance(n.ctx, (ast.Store, ast.Del)) and isinstance(n.value, ast.Name):
            tables.pop(n.value.id, None)
    if not tables:
        return 0
    done = 0

    def find(stmt):
        for n in ast.walk(stmt):
            if isinstance(n, ast.Subscript) and isinstance(n.value, ast.Name) and n.value.id in tables and isinstance(n.ctx, ast.Load):
                return n
        return None
    for owner in ast.walk(tree):
        for field in ("body", "orelse", "finalbody"):
            blk = getattr(owner, field, None)
            if not (isinstance(blk, list) and blk and isinstance(blk[0], ast.stmt)):
                continue
            i = 0
            while i < len(blk):
                st = blk[i]
                sub = find(st) if isinstance(st, (ast.Expr, ast.Assign, ast.Return, ast.AugAssign)) else None
                if sub is not None:
                    table = tables[sub.value.id]
                    key = sub.slice
                    if isinstance(key, ast.Call) and isinstance(key.func, ast.Name) and key.func.id == "bool" and len(key.args) == 1:
                        key = key.args[0]
                    by = {k.value: v for k, v in zip(table.keys, table.values)}

                    class R(ast.NodeTransformer):
                        def __init__(self, val):
                            self.val = val

                        def visit_Subscript(self, node):
                            self.generic_visit(node)
                            if isinstance(node.value, ast.Name) and node.value.id == sub.value.id and isinstance(node.ctx, ast.Load):
                                return ast.copy_location(copy.deepcopy(self.val), node)
                            return node
                    yes = R(by[True]).visit(copy.deepcopy(st))
                    no = R(by[False]).visit(copy.deepcopy(st))
                    new = ast.copy_location(ast.If(test=copy.deepcopy(key), body=[yes], orelse=[no]), st)
                    ast.fix_missing_locations(new)
                    blk[i] = new
                    done += 1
                i += 1
    return done


def _dicts_built_by_update(tree: ast.AST) -> int:
    """Module level: ``T = {...}`` followed (before any other use) by ``T.update({...})`` statements with literal dicts: one literal."""
    if not isinstance(tree, ast.Module):
        return 0
    done = 0
    i = 0
    body = tree.body
    while i < len(body):
        st = body[i]
        if isinstance(st, ast.Assign) and len(st.targets) == 1 and isinstance(st.targets[0], ast.Name) and isinstance(st.value, ast.Dict) \
                and all(k is not None for k in st.value.keys):
            name = st.targets[0].id
            j = i + 1
            while j < len(body):
                u = body[j]
                if isinstance(u, ast.Expr) and isinstance(u.value, ast.Call) and isinstance(u.value.func, ast.Attribute) and u.value.func.attr == "update" \
                        and isinstance(u.value.func.value, ast.Name) and u.value.func.value.id == name and len(u.value.args) == 1 and not u.value.keywords \
                        and isinstance(u.value.args[0], ast.Dict) and all(k is not None for k in u.value.args[0].keys):
                    have = {ast.dump(k): n_ for n_, k in enumerate(st.value.keys)}
                    for k_, v_ in zip(u.value.args[0].keys, u.value.args[0].values):
                        if ast.dump(k_) in have:
                            st.value.values[have[ast.dump(k_)]] = v_          # a later update wins
                        else:
                            st.value.keys.append(k_)
                            st.value.values.append(v_)
                    del body[j]
                    done += 1
                    continue
                break
        i += 1
    return done


def _closure_factories(tree: ast.AST) -> int:
    """``emit = make(sym)`` with ``def make(sym): def inner(a, b): return <expr>; return inner`` (a module-level factory of one
    single-expression closure): the call is the lambda it returns, with the factory's parameters bound to the arguments."""
    if not isinstance(tree, ast.Module):
        return 0
    factories: Dict[str, Tuple[ast.FunctionDef, ast.FunctionDef]] = {}
    for f in tree.body:
        if isinstance(f, ast.FunctionDef) and not f.decorator_list and not f.args.vararg and not f.args.kwarg:
            body = _docless(list(f.body))
            if len(body) == 2 and isinstance(body[0], ast.FunctionDef) and isinstance(body[1], ast.Return) and isinstance(body[1].value, ast.Name) \
                    and body[1].value.id == body[0].name and not body[0].decorator_list:
                inner = _docless(list(body[0].body))
                if len(inner) == 1 and isinstance(inner[0], ast.Return) and inner[0].value is not None:
                    factories[f.name] = (f, body[0])
    if not factories:
        return 0
    done = 0

    class T(ast.NodeTransformer):
        def visit_FunctionDef(self, node):
            if node.name in factories:
                return node
            self.generic_visit(node)
            return node

        def visit_Call(self, node):
            nonlocal done
            self.generic_visit(node)
            if isinstance(node.func, ast.Name) and node.func.id in factories and not any(isinstance(a, ast.Starred) for a in node.args) \
                    and not any(k.arg is None for k in node.keywords):
                f, inner = factories[node.func.id]
                params = [a.arg for a in f.args.args]
                defaults = dict(zip(params[len(params) - len(f.args.defaults):], f.args.defaults)) if f.args.defaults else {}
                actual: Dict[str, ast.AST] = dict(zip(params, node.args))
                for k in node.keywords:
                    actual[k.arg] = k.value
                for p_ in params:
                    if p_ not in actual and p_ in defaults:
                        actual[p_] = defaults[p_]
                if set(actual) != set(params) or not all(isinstance(v, ast.Constant) for v in actual.values()):
                    return node
                expr = _Subst(dict(actual), {}).visit(copy.deepcopy(_docless(list(inner.body))[0].value))
                done += 1
                return ast.copy_location(ast.Lambda(args=copy.deepcopy(inner.args), body=expr), node)
            return node
    T().visit(tree)
    if done:
        ast.fix_missing_locations(tree)
    return done


def _merge_copies(tree: ast.AST) -> None:
    """``t__h = e`` ... ``t = t__h`` where the first name is written once and read only by that copy (what looking through a helper
    whose local collides with a local of the caller leaves behind): the value is bound to the second name directly."""
    for fn in [n for n in ast.walk(tree) if isinstance(n, (ast.FunctionDef, ast.AsyncFunctionDef))]:
        stores: Dict[str, int] = {}
        loads: Dict[str, int] = {}
        for n in ast.walk(fn):
            if isinstance(n, ast.Name):
                d = stores if isinstance(n.ctx, ast.Store) else loads
                d[n.id] = d.get(n.id, 0) + 1
        cands = {}
        for n in ast.walk(fn):
            if isinstance(n, ast.Assign) and len(n.targets) == 1 and isinstance(n.targets[0], ast.Name) and isinstance(n.value, ast.Name):
                a, b = n.targets[0].id, n.value.id
                if "__" in b and a != b and stores.get(b) == 1 and loads.get(b) == 1 and stores.get(a) == 1 and b.startswith(a + "__"):
                    cands[b] = (a, n)
        if not cands:
            continue
        for n in ast.walk(fn):
            if isinstance(n, ast.Name) and isinstance(n.ctx, ast.Store) and n.id in cands:
                n.id = cands[n.id][0]
        drop = {id(st) for _a, st in cands.values()}
        for n in ast.walk(fn):
            for field in ("body", "orelse", "finalbody"):
                blk = getattr(n, field, None)
                if isinstance(blk, list) and blk and isinstance(blk[0], ast.stmt) and any(id(st) in drop for st in blk):
                    kept = [st for st in blk if id(st) not in drop]
                    blk[:] = kept or [ast.copy_location(ast.Pass(), blk[0])]


def _drop_identity_assignments(tree: ast.AST) -> None:
    """``x = x`` (what binding a helper's parameter to an equally named local leaves behind) says nothing."""
    for n in ast.walk(tree):
        for field in ("body", "orelse", "finalbody"):
            blk = getattr(n, field, None)
            if isinstance(blk, list) and blk and isinstance(blk[0], ast.stmt):
                kept = [st for st in blk if not (isinstance(st, ast.Assign) and len(st.targets) == 1 and isinstance(st.targets[0], ast.Name)
                                                and isinstance(st.value, ast.Name) and st.value.id == st.targets[0].id)]
                if len(kept) != len(blk):
                    blk[:] = kept or [ast.copy_location(ast.Pass(), blk[0])]


def _attr_chain(e: ast.AST) -> Optional[str]:
    parts = []
    while isinstance(e, ast.Attribute):
        parts.append(e.attr)
        e = e.value
    if isinstance(e, ast.Name) and e.id == "self" and parts:
        return "self." + ".".join(reversed(parts))
    return None


def propagate_attribute_aliases(fn: ast.FunctionDef) -> int:
    """``session = self.session_state`` ... ``session["step"] = x``: a local bound exactly once to an attribute chain of self that
    the function never rebinds is a second name for that attribute; reads of the local are shown as the attribute."""
    stores: Dict[str, int] = {}
    cands: Dict[str, ast.AST] = {}
    rebound_attrs: Set[str] = set()
    nested_names: Set[str] = set()
    stack = list(fn.body)
    while stack:
        n = stack.pop()
        if isinstance(n, (ast.FunctionDef, ast.AsyncFunctionDef, ast.Lambda, ast.ClassDef)):
            for x in ast.walk(n):
                if isinstance(x, ast.Name) and isinstance(x.ctx, ast.Store):
                    nested_names.add(x.id)
                if isinstance(x, (ast.Global, ast.Nonlocal)):
                    nested_names |= set(x.names)
            continue
        if isinstance(n, ast.Name) and isinstance(n.ctx, (ast.Store, ast.Del)):
            stores[n.id] = stores.get(n.id, 0) + 1
        if isinstance(n, ast.Attribute) and isinstance(n.ctx, (ast.Store, ast.Del)):
            c = _attr_chain(n)
            if c:
                rebound_attrs.add(c)
        if isinstance(n, ast.Assign) and len(n.targets) == 1 and isinstance(n.targets[0], ast.Name) and _attr_chain(n.value):
            cands[n.targets[0].id] = n.value
        stack.extend(ast.iter_child_nodes(n))
    params_ = {a.arg for a in fn.args.posonlyargs + fn.args.args + fn.args.kwonlyargs}
    mapping = {}
    for name, v in cands.items():
        chain = _attr_chain(v)
        if stores.get(name) == 1 and name not in params_ and name not in nested_names and \
                not any(chain == r or chain.startswith(r + ".") for r in rebound_attrs):
            mapping[name] = v
    if not mapping:
        return 0
    done = 0

    class A(ast.NodeTransformer):
        def visit_Name(self, node):
            nonlocal done
            if isinstance(node.ctx, ast.Load) and node.id in mapping:
                done += 1
                return ast.copy_location(copy.deepcopy(mapping[node.id]), node)
            return node
    fn.body = [A().visit(st) for st in fn.body]
    return done


class _NameToConst(ast.NodeTransformer):
    def __init__(self, name: str, value: ast.AST):
        self.name, self.value = name, value

    def visit_Name(self, node):
        if node.id == self.name and isinstance(node.ctx, ast.Load):
            return ast.copy_location(copy.deepcopy(self.value), node)
        return node


def _const_seq(e: ast.AST) -> Optional[List[ast.AST]]:
    if isinstance(e, (ast.Tuple, ast.List)) and 0 < len(e.elts) <= 10 and all(isinstance(x, ast.Constant) for x in e.elts):
        return list(e.elts)
    return None


def _captured_by_closure(body: List[ast.AST], names: Set[str]) -> bool:
    """Does a lambda / nested def in *body* read one of *names* as a free variable?  Such a loop must not be written out with the
    values substituted: the closure sees the variable (its last value), not the value of its iteration - substituting would hide that."""
    for st in body:
        for c in ast.walk(st):
            if isinstance(c, (ast.Lambda, ast.FunctionDef, ast.AsyncFunctionDef)):
                a = c.args
                own = {x.arg for x in a.posonlyargs + a.args + a.kwonlyargs} | ({a.vararg.arg} if a.vararg else set()) | ({a.kwarg.arg} if a.kwarg else set())
                inner = [c.body] if isinstance(c, ast.Lambda) else c.body
                for b in inner:
                    for x in ast.walk(b):
                        if isinstance(x, ast.Name) and isinstance(x.ctx, ast.Load) and x.id in names and x.id not in own:
                            return True
    return False


class _Unroll(ast.NodeTransformer):
    """Loops and comprehensions over a literal tuple of constants are written out (for name in ("a", "b"): setattr(o, name, d[name])
    -> o.a = d["a"]; o.b = d["b"]); setattr/getattr with a constant name become attribute accesses."""

    def __init__(self):
        self.local_tables: List[Dict[str, ast.AST]] = []
        self.mod_tables: Dict[str, ast.AST] = {}
        self.mod_dicts: Dict[str, ast.Dict] = {}
        self.cls_tables: List[Dict[str, ast.AST]] = []

    @staticmethod
    def _tables_of(body: List[ast.stmt], whole: ast.AST) -> Dict[str, ast.AST]:
        """names bound exactly once, at this level, to a literal table of rows, and only ever read (iterated) elsewhere"""
        out: Dict[str, ast.AST] = {}
        count: Dict[str, int] = {}
        for st in body:
            if isinstance(st, ast.Assign) and len(st.targets) == 1 and isinstance(st.targets[0], ast.Name):
                count[st.targets[0].id] = count.get(st.targets[0].id, 0) + 1
                if isinstance(st.value, (ast.Tuple, ast.List)) and st.value.elts and all(isinstance(r, (ast.Tuple, ast.List)) for r in st.value.elts):
                    out[st.targets[0].id] = st.value
        out = {k: v for k, v in out.items() if count.get(k) == 1}
        if out:
            for n in ast.walk(whole):
                # any use other than a plain read (subscript store, method call on it) disqualifies the table
                if isinstance(n, ast.Attribute) and isinstance(n.value, (ast.Name, ast.Attribute)):
                    base = n.value
                    nm = base.id if isinstance(base, ast.Name) else base.attr
                    if nm in out and n.attr in ("append", "extend", "insert", "pop", "remove", "clear", "sort", "reverse"):
                        out.pop(nm, None)
                if isinstance(n, ast.Subscript) and isinstance(n.ctx, (ast.Store, ast.Del)):
                    base = n.value
                    nm = base.id if isinstance(base, ast.Name) else (base.attr if isinstance(base, ast.Attribute) else None)
                    out.pop(nm, None)
        return out

    def visit_Module(self, node: ast.Module):
        self.mod_tables = self._tables_of(node.body, node)
        # module-level dict literals of constants, bound once and never written to
        count: Dict[str, int] = {}
        self.mod_dicts = {}
        for st in node.body:
            if isinstance(st, ast.Assign) and len(st.targets) == 1 and isinstance(st.targets[0], ast.Name):
                count[st.targets[0].id] = count.get(st.targets[0].id, 0) + 1
                if isinstance(st.value, ast.Dict) and st.value.keys and all(isinstance(k, ast.Constant) for k in st.value.keys) \
                        and all(isinstance(v, ast.Constant) for v in st.value.values):
                    self.mod_dicts[st.targets[0].id] = st.value
        self.mod_dicts = {k: v for k, v in self.mod_dicts.items() if count[k] == 1}
        if self.mod_dicts:
            for n in ast.walk(node):
                if isinstance(n, ast.Subscript) and isinstance(n.ctx, (ast.Store, ast.Del)) and isinstance(n.value, ast.Name):
                    self.mod_dicts.pop(n.value.id, None)
                if isinstance(n, ast.Attribute) and isinstance(n.value, ast.Name) and n.attr in ("update", "pop", "setdefault", "clear", "popitem"):
                    self.mod_dicts.pop(n.value.id, None)
        self.generic_visit(node)
        return node

    def visit_ClassDef(self, node: ast.ClassDef):
        self.cls_tables.append(self._tables_of(node.body, node))
        self.generic_visit(node)
        self.cls_tables.pop()
        return node

    def visit_FunctionDef(self, node: ast.FunctionDef):
        # locals bound exactly once to a literal table (tuple/list of rows)
        stores: Dict[str, int] = {}
        tables: Dict[str, ast.AST] = {}
        for n in ast.walk(node):
            if isinstance(n, ast.Name) and isinstance(n.ctx, ast.Store):
                stores[n.id] = stores.get(n.id, 0) + 1
        for n in ast.walk(node):
            if isinstance(n, ast.Assign) and len(n.targets) == 1 and isinstance(n.targets[0], ast.Name) and stores.get(n.targets[0].id) == 1 \
                    and isinstance(n.value, (ast.Tuple, ast.List)) and n.value.elts and all(isinstance(r, (ast.Tuple, ast.List)) for r in n.value.elts):
                tables[n.targets[0].id] = n.value
        # ... or to a tuple of constants (units = ("weeks", "days", ...)): iterating the name is iterating the literal
        seqs = {n.targets[0].id: n.value for n in ast.walk(node)
                if isinstance(n, ast.Assign) and len(n.targets) == 1 and isinstance(n.targets[0], ast.Name) and stores.get(n.targets[0].id) == 1
                and isinstance(n.value, ast.Tuple) and _const_seq(n.value) is not None}
        self.local_tables.append(tables)
        self.local_seqs = getattr(self, "local_seqs", [])
        self.local_seqs.append(seqs)
        self.generic_visit(node)
        self.local_tables.pop()
        self.local_seqs.pop()
        return node

    def _seq(self, it: ast.AST) -> Optional[List[ast.AST]]:
        if isinstance(it, ast.Name) and getattr(self, "local_seqs", None) and it.id in self.local_seqs[-1]:
            it = self.local_seqs[-1][it.id]
        return _const_seq(it)

    def _table_rows(self, it: ast.AST, width: int) -> Optional[List[List[ast.AST]]]:
        if isinstance(it, ast.Name) and self.local_tables and it.id in self.local_tables[-1]:
            it = self.local_tables[-1][it.id]
        elif isinstance(it, ast.Name) and it.id in self.mod_tables:
            it = self.mod_tables[it.id]
        elif isinstance(it, ast.Attribute) and isinstance(it.value, ast.Name) and self.cls_tables and it.attr in self.cls_tables[-1] \
                and it.value.id in ("self", "cls"):
            it = self.cls_tables[-1][it.attr]
        if isinstance(it, (ast.Tuple, ast.List)) and 0 < len(it.elts) <= 64 and all(
                isinstance(r, (ast.Tuple, ast.List)) and len(r.elts) == width and all(_simple(c) or _immutable_literal(c) or
                                                                                      (isinstance(c, (ast.Tuple, ast.List)) and all(isinstance(q, ast.Constant) for q in c.elts))
                                                                                      for c in r.elts) for r in it.elts):
            return [list(r.elts) for r in it.elts]
        return None

    def visit_For(self, node: ast.For):
        self.generic_visit(node)
        if isinstance(node.target, ast.Tuple) and all(isinstance(x, ast.Name) for x in node.target.elts) and not node.orelse:
            rows = self._table_rows(node.iter, len(node.target.elts))
            ok = rows is not None and not _captured_by_closure(node.body, {x.id for x in node.target.elts})
            if ok:
                for n in ast.walk(ast.Module(body=list(node.body), type_ignores=[])):
                    if isinstance(n, (ast.Break, ast.Continue)) or (isinstance(n, ast.Name) and isinstance(n.ctx, ast.Store) and n.id in {x.id for x in node.target.elts}):
                        ok = False
            if ok:
                out: List[ast.stmt] = []
                for row in rows:
                    for st in node.body:
                        new = copy.deepcopy(st)
                        for nm, c in zip([x.id for x in node.target.elts], row):
                            new = _NameToConst(nm, c).visit(new)
                        out.append(new)
                return out
        seq_ = self._seq(node.iter)
        if seq_ is None or not isinstance(node.target, ast.Name) or node.orelse or _captured_by_closure(node.body, {node.target.id}):
            return node
        for n in ast.walk(ast.Module(body=list(node.body), type_ignores=[])):
            if isinstance(n, (ast.Break, ast.Continue)):
                return node
            if isinstance(n, ast.Name) and n.id == node.target.id and isinstance(n.ctx, ast.Store):
                return node
        out: List[ast.stmt] = []
        for c in seq_:
            for st in node.body:
                new = _NameToConst(node.target.id, c).visit(copy.deepcopy(st))
                out.append(self.visit(new) if True else new)
        return out

    def visit_DictComp(self, node: ast.DictComp):
        self.generic_visit(node)
        # {k: f(v) for k, v in TABLE.items()} with TABLE a module-level dict literal of constants that is never written to
        if len(node.generators) == 1 and not node.generators[0].ifs and isinstance(node.generators[0].target, ast.Tuple) \
                and len(node.generators[0].target.elts) == 2 and all(isinstance(e, ast.Name) for e in node.generators[0].target.elts):
            it = node.generators[0].iter
            if isinstance(it, ast.Call) and isinstance(it.func, ast.Attribute) and it.func.attr == "items" and not it.args \
                    and isinstance(it.func.value, ast.Name) and it.func.value.id in self.mod_dicts:
                kn, vn = [e.id for e in node.generators[0].target.elts]
                if not _captured_by_closure([node.key, node.value], {kn, vn}):
                    d = self.mod_dicts[it.func.value.id]
                    keys, vals = [], []
                    for k_, v_ in zip(d.keys, d.values):
                        keys.append(_NameToConst(vn, v_).visit(_NameToConst(kn, k_).visit(copy.deepcopy(node.key))))
                        vals.append(self.visit(_NameToConst(vn, v_).visit(_NameToConst(kn, k_).visit(copy.deepcopy(node.value)))))
                    return ast.copy_location(ast.Dict(keys=keys, values=vals), node)
        if len(node.generators) == 1 and not node.generators[0].ifs and isinstance(node.generators[0].target, ast.Name):
            seq_ = self._seq(node.generators[0].iter)
            if seq_ is not None and not _captured_by_closure([node.key, node.value], {node.generators[0].target.id}):
                nm = node.generators[0].target.id
                keys = [_NameToConst(nm, c).visit(copy.deepcopy(node.key)) for c in seq_]
                vals = [self.visit(_NameToConst(nm, c).visit(copy.deepcopy(node.value))) for c in seq_]
                return ast.copy_location(ast.Dict(keys=keys, values=vals), node)
        return node

    def visit_ListComp(self, node: ast.ListComp):
        self.generic_visit(node)
        if len(node.generators) == 1 and not node.generators[0].ifs and isinstance(node.generators[0].target, ast.Name):
            seq_ = self._seq(node.generators[0].iter)
            if seq_ is not None and not _captured_by_closure([node.elt], {node.generators[0].target.id}):
                nm = node.generators[0].target.id
                return ast.copy_location(ast.List(elts=[self.visit(_NameToConst(nm, c).visit(copy.deepcopy(node.elt))) for c in seq_], ctx=ast.Load()), node)
        return node

    def visit_Expr(self, node: ast.Expr):
        self.generic_visit(node)
        c = node.value
        if isinstance(c, ast.Call) and isinstance(c.func, ast.Name) and c.func.id == "setattr" and len(c.args) == 3 and not c.keywords \
                and isinstance(c.args[1], ast.Constant) and isinstance(c.args[1].value, str) and c.args[1].value.isidentifier():
            tgt = ast.Attribute(value=c.args[0], attr=c.args[1].value, ctx=ast.Store())
            return ast.copy_location(ast.Assign(targets=[ast.copy_location(tgt, c)], value=c.args[2], lineno=node.lineno), node)
        # T.extend(E for v in xs if c):  for v in xs: if c: T.append(E)     (T a plain path that the comprehension does not read)
        if isinstance(c, ast.Call) and isinstance(c.func, ast.Attribute) and c.func.attr == "extend" and len(c.args) == 1 and not c.keywords \
                and isinstance(c.args[0], (ast.GeneratorExp, ast.ListComp)) and len(c.args[0].generators) == 1 \
                and not any(isinstance(x, ast.Call) for x in ast.walk(c.func.value)) \
                and ast.unparse(c.func.value) not in ast.unparse(c.args[0]):
            g = c.args[0].generators[0]
            app = ast.Expr(value=ast.Call(func=ast.Attribute(value=c.func.value, attr="append", ctx=ast.Load()), args=[c.args[0].elt], keywords=[]))
            body = [app]
            for cond in reversed(g.ifs):
                body = [ast.If(test=cond, body=body, orelse=[])]
            tgt = copy.deepcopy(g.target)
            for x in ast.walk(tgt):
                if hasattr(x, "ctx"):
                    x.ctx = ast.Store()
            loop = ast.For(target=tgt, iter=g.iter, body=body, orelse=[], lineno=node.lineno)
            ast.copy_location(loop, node)
            for x in ast.walk(loop):
                if not hasattr(x, "lineno") and isinstance(x, (ast.stmt, ast.expr)):
                    ast.copy_location(x, node)
            return ast.fix_missing_locations(loop)
        return node

    def visit_Call(self, node: ast.Call):
        self.generic_visit(node)
        if isinstance(node.func, ast.Name) and node.func.id == "getattr" and len(node.args) == 2 and not node.keywords \
                and isinstance(node.args[1], ast.Constant) and isinstance(node.args[1].value, str) and node.args[1].value.isidentifier():
            return ast.copy_location(ast.Attribute(value=node.args[0], attr=node.args[1].value, ctx=ast.Load()), node)
        return node


_FUNC_NAMES: Set[str] = set()       # module-level function names of the module being canonicalised (immutable objects too)


def _immutable_literal(e: ast.AST) -> bool:
    if isinstance(e, ast.Constant):
        return True
    if isinstance(e, ast.Name) and e.id in _FUNC_NAMES:
        return True
    if isinstance(e, ast.Tuple):
        return all(_immutable_literal(x) for x in e.elts)
    if isinstance(e, ast.UnaryOp) and isinstance(e.op, (ast.USub, ast.UAdd)) and isinstance(e.operand, ast.Constant):
        return True
    if isinstance(e, ast.Call):
        f = e.func
        nm = f.attr if isinstance(f, ast.Attribute) else (f.id if isinstance(f, ast.Name) else "")
        if nm in ("timedelta", "compile", "frozenset", "Decimal", "Fraction") and all(_immutable_literal(a) for a in e.args) \
                and all(_immutable_literal(k.value) for k in e.keywords):
            return True
    return False


def propagate_constants(tree: ast.Module) -> int:
    """Named constants: a module-level or class-level name bound exactly once to an immutable literal (string, number, tuple of
    these, timedelta(...), re.compile(...)) stands for that literal wherever it is read (``NAME``, ``self.NAME``, ``Cls.NAME``).
    Mutable literals (dict, list, set) are *not* propagated - sharing one of those is behaviour."""
    n_done = 0
    _FUNC_NAMES.clear()
    _FUNC_NAMES.update(n.name for n in tree.body if isinstance(n, ast.FunctionDef))
    mod_consts: Dict[str, ast.AST] = {}
    counts: Dict[str, int] = {}
    for st in tree.body:
        for t in (st.targets if isinstance(st, ast.Assign) else ([st.target] if isinstance(st, (ast.AnnAssign, ast.AugAssign)) else [])):
            if isinstance(t, ast.Name):
                counts[t.id] = counts.get(t.id, 0) + 1
    for st in tree.body:
        if isinstance(st, ast.Assign) and len(st.targets) == 1 and isinstance(st.targets[0], ast.Name) and counts.get(st.targets[0].id) == 1 \
                and _immutable_literal(st.value) and not (isinstance(st.value, ast.Constant) and st.value.value is None):
            mod_consts[st.targets[0].id] = st.value
    # names rebound anywhere (global statements, loops at module level) are not constants
    for n in ast.walk(tree):
        if isinstance(n, ast.Global):
            for nm in n.names:
                mod_consts.pop(nm, None)
    cls_consts: Dict[str, Dict[str, ast.AST]] = {}
    for c in tree.body:
        if isinstance(c, ast.ClassDef):
            cc: Dict[str, ast.AST] = {}
            ccount: Dict[str, int] = {}
            for st in c.body:
                if isinstance(st, ast.Assign):
                    for t in st.targets:
                        if isinstance(t, ast.Name):
                            ccount[t.id] = ccount.get(t.id, 0) + 1
            for st in c.body:
                if isinstance(st, ast.Assign) and len(st.targets) == 1 and isinstance(st.targets[0], ast.Name) and ccount[st.targets[0].id] == 1 \
                        and _immutable_literal(st.value) and not (isinstance(st.value, ast.Constant) and st.value.value is None):
                    cc[st.targets[0].id] = st.value
            if cc:
                # an attribute of that name stored anywhere in the module is not a constant
                for n in ast.walk(tree):
                    if isinstance(n, ast.Attribute) and isinstance(n.ctx, (ast.Store, ast.Del)) and n.attr in cc:
                        cc.pop(n.attr)
            cls_consts[c.name] = cc
    # constant tables: a module-level dict literal of constants that is only ever read with a constant key
    tables: Dict[str, Dict[object, ast.AST]] = {}
    for st in tree.body:
        if isinstance(st, ast.Assign) and len(st.targets) == 1 and isinstance(st.targets[0], ast.Name) and counts.get(st.targets[0].id) == 1 \
                and isinstance(st.value, ast.Dict) and st.value.keys and all(isinstance(k, ast.Constant) for k in st.value.keys) \
                and all(_immutable_literal(v) for v in st.value.values):
            tables[st.targets[0].id] = {k.value: v for k, v in zip(st.value.keys, st.value.values)}
    if tables:
        for n in ast.walk(tree):
            for c in ast.iter_child_nodes(n):
                if isinstance(c, ast.Name) and c.id in tables and isinstance(c.ctx, ast.Load):
                    ok_use = isinstance(n, ast.Subscript) and n.value is c and isinstance(n.ctx, ast.Load)
                    if not ok_use:
                        tables.pop(c.id, None)
    if not mod_consts and not any(cls_consts.values()) and not tables:
        return 0

    class P(ast.NodeTransformer):
        def __init__(self):
            self.cls: Optional[str] = None
            self.shadow: List[Set[str]] = []

        def visit_ClassDef(self, node):
            prev, self.cls = self.cls, node.name
            self.generic_visit(node)
            self.cls = prev
            return node

        def visit_FunctionDef(self, node):
            self.shadow.append(_locals_of(node))
            self.generic_visit(node)
            self.shadow.pop()
            return node

        def visit_Name(self, node):
            nonlocal n_done
            if isinstance(node.ctx, ast.Load) and node.id in mod_consts and self.shadow and not any(node.id in sh for sh in self.shadow):
                n_done += 1
                return ast.copy_location(copy.deepcopy(mod_consts[node.id]), node)
            return node

        def visit_Subscript(self, node):
            nonlocal n_done
            if isinstance(node.ctx, ast.Load) and isinstance(node.value, ast.Name) and node.value.id in tables and self.shadow \
                    and not any(node.value.id in sh for sh in self.shadow):
                key = node.slice
                if isinstance(key, ast.Name) and False:
                    pass
                self.generic_visit(node)
                key = node.slice
                if isinstance(key, ast.Constant) and key.value in tables[node.value.id]:
                    n_done += 1
                    return ast.copy_location(copy.deepcopy(tables[node.value.id][key.value]), node)
                return node
            self.generic_visit(node)
            return node

        def visit_Attribute(self, node):
            nonlocal n_done
            self.generic_visit(node)
            if isinstance(node.ctx, ast.Load) and isinstance(node.value, ast.Name):
                owner = node.value.id
                cands = []
                if owner in ("self", "cls") and self.cls:
                    cands.append(self.cls)
                elif owner in cls_consts:
                    cands.append(owner)
                for c in cands:
                    if node.attr in cls_consts.get(c, {}):
                        n_done += 1
                        return ast.copy_location(copy.deepcopy(cls_consts[c][node.attr]), node)
            return node
    P().visit(tree)
    return n_done


def class_constants(tree: ast.Module) -> Dict[str, Dict[str, ast.AST]]:
    """class name -> {NAME: immutable literal bound once in the class body}"""
    out: Dict[str, Dict[str, ast.AST]] = {}
    for c in tree.body:
        if isinstance(c, ast.ClassDef):
            count: Dict[str, int] = {}
            for st in c.body:
                if isinstance(st, ast.Assign):
                    for t in st.targets:
                        if isinstance(t, ast.Name):
                            count[t.id] = count.get(t.id, 0) + 1
            cc = {st.targets[0].id: st.value for st in c.body if isinstance(st, ast.Assign) and len(st.targets) == 1 and isinstance(st.targets[0], ast.Name)
                  and count[st.targets[0].id] == 1 and _immutable_literal(st.value) and not (isinstance(st.value, ast.Constant) and st.value.value is None)}
            if cc:
                out[c.name] = cc
    return out


def propagate_foreign_class_constants(tree: ast.Module, table: Dict[str, Dict[str, ast.AST]]) -> int:
    """``OtherClass.NAME`` with NAME a constant of a class defined in another module of the package (never stored to anywhere)."""
    own = {c.name for c in tree.body if isinstance(c, ast.ClassDef)}
    done = 0

    class P(ast.NodeTransformer):
        def visit_Attribute(self, node):
            nonlocal done
            self.generic_visit(node)
            if isinstance(node.ctx, ast.Load) and isinstance(node.value, ast.Name) and node.value.id in table and node.value.id not in own \
                    and node.attr in table[node.value.id]:
                done += 1
                return ast.copy_location(copy.deepcopy(table[node.value.id][node.attr]), node)
            return node
    P().visit(tree)
    if done:
        _Unroll().visit(tree)
        ast.fix_missing_locations(tree)
    return done


# ---------------------------------------------------------------------------
# helper inlining
# ---------------------------------------------------------------------------

class _Cannot(Exception):
    pass


def _has_yield(fn: ast.AST) -> bool:
    stack = list(ast.iter_child_nodes(fn))
    while stack:
        n = stack.pop()
        if isinstance(n, (ast.Yield, ast.YieldFrom)):
            return True
        if isinstance(n, (ast.FunctionDef, ast.AsyncFunctionDef, ast.Lambda, ast.ClassDef)):
            continue
        stack.extend(ast.iter_child_nodes(n))
    return False


def _contains_return(n: ast.AST) -> bool:
    if isinstance(n, (ast.FunctionDef, ast.AsyncFunctionDef, ast.Lambda, ast.ClassDef)):
        return False          # a nested definition: its returns are its own
    stack = [n]
    first = True
    while stack:
        x = stack.pop()
        if not first and isinstance(x, (ast.FunctionDef, ast.AsyncFunctionDef, ast.Lambda, ast.ClassDef)):
            continue
        first = False
        if isinstance(x, ast.Return):
            return True
        stack.extend(ast.iter_child_nodes(x))
    return False


def _always_returns(stmts: List[ast.stmt]) -> bool:
    if not stmts:
        return False
    s = stmts[-1]
    if isinstance(s, (ast.Return, ast.Raise)):
        return True
    if isinstance(s, ast.If):
        return bool(s.orelse) and _always_returns(s.body) and _always_returns(s.orelse)
    if isinstance(s, ast.Try):
        return _always_returns(s.body) and all(_always_returns(h.body) for h in s.handlers) and not s.finalbody or \
            (bool(s.finalbody) and _always_returns(s.finalbody))
    if isinstance(s, ast.With):
        return _always_returns(s.body)
    return False


def _elim(stmts: List[ast.stmt], k) -> List[ast.stmt]:
    """Structural return elimination: *k* maps a Return node to the statements replacing it."""
    out: List[ast.stmt] = []
    for i, s in enumerate(stmts):
        if isinstance(s, ast.Return):
            out += k(s)
            return out
        if not _contains_return(s):
            out.append(s)
            continue
        rest = stmts[i + 1:]
        if isinstance(s, ast.If):
            b_end, e_end = _always_returns(s.body), _always_returns(s.orelse)
            nb = _elim(list(s.body) + ([] if b_end else copy.deepcopy(rest)), k)
            ne = _elim(list(s.orelse) + ([] if e_end else (copy.deepcopy(rest) if not b_end else rest)), k)
            new = ast.If(test=s.test, body=nb or [ast.copy_location(ast.Pass(), s)], orelse=ne)
            out.append(ast.copy_location(new, s))
            return out
        if isinstance(s, ast.With) and not rest:
            new = ast.With(items=s.items, body=_elim(list(s.body), k) or [ast.copy_location(ast.Pass(), s)])
            out.append(ast.copy_location(new, s))
            return out
        if isinstance(s, ast.Try) and not rest and not _contains_return(ast.Module(body=list(s.finalbody), type_ignores=[])):
            new = ast.Try(body=_elim(list(s.body), k) or [ast.copy_location(ast.Pass(), s)],
                          handlers=[ast.copy_location(ast.ExceptHandler(type=h.type, name=h.name, body=_elim(list(h.body), k) or [ast.copy_location(ast.Pass(), h)]), h)
                                    for h in s.handlers],
                          orelse=_elim(list(s.orelse), k), finalbody=s.finalbody)
            out.append(ast.copy_location(new, s))
            return out
        raise _Cannot("return inside %s" % type(s).__name__)
    return out


class _Subst(ast.NodeTransformer):
    def __init__(self, mapping: Dict[str, ast.AST], rename: Dict[str, str]):
        self.mapping = mapping
        self.rename = rename

    def visit_Name(self, node: ast.Name):
        if node.id in self.mapping and isinstance(node.ctx, ast.Load):
            return ast.copy_location(copy.deepcopy(self.mapping[node.id]), node)
        if node.id in self.rename:
            return ast.copy_location(ast.Name(id=self.rename[node.id], ctx=node.ctx), node)
        return node

    def _nested_scope(self, node):
        """a nested def/lambda sees the enclosing names unless its own parameters shadow them"""
        a = node.args
        own = {x.arg for x in a.posonlyargs + a.args + a.kwonlyargs}
        if a.vararg:
            own.add(a.vararg.arg)
        if a.kwarg:
            own.add(a.kwarg.arg)
        inner = _Subst({k: v for k, v in self.mapping.items() if k not in own}, {k: v for k, v in self.rename.items() if k not in own})
        if isinstance(node, ast.Lambda):
            node.body = inner.visit(node.body)
        else:
            node.body = [inner.visit(st) for st in node.body]
        return node

    def visit_FunctionDef(self, node):
        return self._nested_scope(node)

    def visit_Lambda(self, node):
        return self._nested_scope(node)

    def visit_ClassDef(self, node):
        return node


def _simple(e: ast.AST) -> bool:
    if isinstance(e, (ast.Name, ast.Constant)):
        return True
    if isinstance(e, ast.Attribute):
        return _simple(e.value)
    if isinstance(e, ast.Subscript):
        return _simple(e.value) and _simple(e.slice)
    return False


def _locals_of(fn: ast.AST) -> Set[str]:
    out: Set[str] = set()
    a = fn.args
    out |= {x.arg for x in a.posonlyargs + a.args + a.kwonlyargs}
    stack = list(fn.body)
    while stack:
        n = stack.pop()
        if isinstance(n, (ast.FunctionDef, ast.AsyncFunctionDef, ast.ClassDef)):
            out.add(n.name)
            continue
        if isinstance(n, ast.Lambda):
            continue
        if isinstance(n, ast.Name) and isinstance(n.ctx, ast.Store):
            out.add(n.id)
        if isinstance(n, ast.ExceptHandler) and n.name:
            out.add(n.name)
        stack.extend(ast.iter_child_nodes(n))
    return out


def _docless(body: List[ast.stmt]) -> List[ast.stmt]:
    if body and isinstance(body[0], ast.Expr) and isinstance(body[0].value, ast.Constant) and isinstance(body[0].value.value, str):
        return body[1:]
    return body


class Inliner:
    def __init__(self, module_tree: ast.Module, vocab: Set[str], global_classes: Optional[Dict[str, ast.ClassDef]] = None,
                 global_funcs: Optional[Dict[str, ast.FunctionDef]] = None):
        self.tree = module_tree
        self.vocab = vocab
        self.global_classes = global_classes or {}
        # module-level helpers of other modules of the package (unique names only), reachable here through an import
        self.global_funcs = global_funcs or {}
        self.imported: Set[str] = set()          # names bound by `from <package module> import name`
        self.module_aliases: Set[str] = set()    # names bound by `import pkg.mod as m` / `from pkg import mod`
        for n in ast.walk(module_tree):
            if isinstance(n, ast.ImportFrom) and (n.level or (n.module or "").startswith("BPTK_Py")):
                for al in n.names:
                    self.imported.add(al.asname or al.name)
                    self.module_aliases.add(al.asname or al.name)
            elif isinstance(n, ast.Import):
                for al in n.names:
                    if al.name.startswith("BPTK_Py"):
                        self.module_aliases.add(al.asname or al.name.split(".")[0])
        self._attr_types: Dict[str, Dict[str, str]] = {}
        self._scope_binds: Dict[int, Tuple[int, Dict[str, List[ast.AST]]]] = {}      # per scope, valid while no further rewrite was counted
        from .rename import baseline_class_names
        self.known_classes: Set[str] = baseline_class_names() or set(self.global_classes)
        self.module_funcs: Dict[str, ast.FunctionDef] = {n.name: n for n in module_tree.body if isinstance(n, ast.FunctionDef)}
        self.class_methods: Dict[str, Dict[str, ast.FunctionDef]] = {}
        for c in module_tree.body:
            if isinstance(c, ast.ClassDef):
                ms: Dict[str, ast.FunctionDef] = {}
                for n in c.body:
                    if isinstance(n, ast.FunctionDef) and not any(isinstance(d, ast.Attribute) and d.attr in ("setter", "deleter") for d in n.decorator_list):
                        ms.setdefault(n.name, n)
                self.class_methods[c.name] = ms
        self.count = 0
        self.inlined_into: Dict[int, int] = {}
        self._nested: Dict[int, Dict[str, ast.FunctionDef]] = {}
        self._mro_cache: Dict[str, Dict[str, ast.FunctionDef]] = {}

    # -- eligibility -----------------------------------------------------------------------------------------------
    # a function that performs one of these calls plays a role the rules look for by what it does, whatever it is called (the function
    # that restores an instance on demand = the one that calls load_instance and reconstruct_instance).  Where several call sites share
    # it, it stays a unit and its callers keep the call; extracted for a single caller it is looked through like any helper
    ROLE_CALLS = ({"load_instance", "reconstruct_instance"},)       # every call of one set: the on-demand restorer

    def _eligible(self, h: ast.FunctionDef) -> bool:
        if h.name in self.vocab or _has_yield(h) or h.args.kwarg:
            return False
        called = {c.func.attr for c in ast.walk(h) if isinstance(c, ast.Call) and isinstance(c.func, ast.Attribute)}
        if any(role <= called for role in self.ROLE_CALLS):
            if getattr(self, "_site_counts", None) is None:
                self._site_counts = {}
                for c in ast.walk(self.tree):
                    if isinstance(c, ast.Call):
                        nm = c.func.attr if isinstance(c.func, ast.Attribute) else (c.func.id if isinstance(c.func, ast.Name) else None)
                        if nm:
                            self._site_counts[nm] = self._site_counts.get(nm, 0) + 1
            if self._site_counts.get(h.name, 0) >= 2:
                return False
        for d in h.decorator_list:
            if not (isinstance(d, ast.Name) and d.id in ("staticmethod", "classmethod")):
                return False
        return True

    def _resolve(self, call: ast.Call, cls: Optional[str], scopes: List[ast.FunctionDef]) -> Optional[Tuple[ast.FunctionDef, str]]:
        """(helper, kind) with kind in 'method' (implicit receiver), 'static', 'plain'."""
        f = call.func
        if isinstance(f, ast.Name):
            if f.id in self.vocab:
                return None
            for sc in reversed(scopes):
                nd = self._nested.get(id(sc))
                if nd is None:
                    nd = {}
                    stack = list(sc.body)
                    while stack:
                        n = stack.pop()
                        if isinstance(n, ast.FunctionDef):
                            nd.setdefault(n.name, n)
                            continue
                        if isinstance(n, (ast.AsyncFunctionDef, ast.Lambda, ast.ClassDef)):
                            continue
                        stack.extend(ast.iter_child_nodes(n))
                    self._nested[id(sc)] = nd
                if f.id in nd:
                    return nd[f.id], "plain"
            if f.id in self.module_funcs:
                return self.module_funcs[f.id], "plain"
            if f.id in self.global_funcs and (f.id in self.imported or f.id not in self._bound_names()):
                # imported here, or left behind by a helper of another module that was looked through (its module's own helpers)
                return self.global_funcs[f.id], "plain"
            return None
        if isinstance(f, ast.Attribute) and f.attr not in self.vocab:
            # a helper that lives elsewhere in the package: module.helper(...), Class.helper(...), <collaborator object>.helper(...)
            name = f.attr
            recv = f.value
            if isinstance(recv, ast.Name) and recv.id in self.module_aliases and recv.id not in ("self", "cls") and name in self.global_funcs:
                return self.global_funcs[name], "plain"
            if isinstance(recv, ast.Name) and recv.id != cls and recv.id in self.global_classes and recv.id not in ("self", "cls"):
                ms = self._methods_of(recv.id)
                if name in ms:
                    h = ms[name]
                    if any(isinstance(d, ast.Name) and d.id == "staticmethod" for d in h.decorator_list):
                        return h, "static"
                    if any(isinstance(d, ast.Name) and d.id == "classmethod" for d in h.decorator_list):
                        return h, "method"
                    return h, "plain"
            k = self._receiver_class(recv, cls, scopes)
            if k is not None:
                ms = self._methods_of(k)
                if name in ms:
                    h = ms[name]
                    if any(isinstance(d, ast.Name) and d.id == "staticmethod" for d in h.decorator_list):
                        return h, "static"
                    return h, "method"
        if isinstance(f, ast.Attribute) and isinstance(f.value, ast.Name) and cls:
            name = f.attr
            if name in self.vocab:
                return None
            if cls not in self._mro_cache:
                self._mro_cache[cls] = self._methods_mro(cls)
            ms = self._mro_cache[cls]
            if f.value.id in ("self", "cls", cls) and name in ms:
                h = ms[name]
                static = any(isinstance(d, ast.Name) and d.id == "staticmethod" for d in h.decorator_list)
                if static:
                    return h, "static"
                if f.value.id == cls and not any(isinstance(d, ast.Name) and d.id == "classmethod" for d in h.decorator_list):
                    return h, "plain"       # K.h(self, ...): explicit receiver
                return h, "method"
        return None

    def _bound_names(self) -> Set[str]:
        if not hasattr(self, "_bound"):
            self._bound = {n.id for n in ast.walk(self.tree) if isinstance(n, ast.Name) and isinstance(n.ctx, ast.Store)} | \
                          {a.arg for n in ast.walk(self.tree) if isinstance(n, (ast.FunctionDef, ast.Lambda)) for a in n.args.args + n.args.kwonlyargs} | \
                          {(al.asname or al.name).split(".")[0] for n in ast.walk(self.tree) if isinstance(n, (ast.Import, ast.ImportFrom)) for al in n.names} | \
                          {n.name for n in ast.walk(self.tree) if isinstance(n, (ast.FunctionDef, ast.ClassDef))}
        return self._bound

    def _methods_of(self, cls: str) -> Dict[str, ast.FunctionDef]:
        if cls not in self._mro_cache:
            self._mro_cache[cls] = self._methods_mro(cls)
        return self._mro_cache[cls]

    def _receiver_class(self, recv: ast.AST, cls: Optional[str], scopes: List[ast.FunctionDef]) -> Optional[str]:
        """Class of a collaborator object, where the code says it: K(...) itself, a local bound once to K(...), or self.attr with
        `self.attr = K(...)` somewhere in the class (K a class of the package that is not the caller's own)."""
        def ctor(v: ast.AST) -> Optional[str]:
            if isinstance(v, ast.Call):
                nm = v.func.id if isinstance(v.func, ast.Name) else (v.func.attr if isinstance(v.func, ast.Attribute) else None)
                if nm in self.global_classes and nm != cls:
                    return nm
            return None
        k = ctor(recv)
        if k:
            return k
        if isinstance(recv, ast.Name) and recv.id not in ("self", "cls") and scopes:
            vals = []
            for sc in reversed(scopes):          # the innermost scope that binds the name (a closure reads its enclosing function's local)
                for n in ast.walk(sc):
                    if isinstance(n, ast.Assign) and any(isinstance(t, ast.Name) and t.id == recv.id for t in n.targets):
                        vals.append(n.value)
                if vals:
                    break
            ks = {ctor(v) for v in vals}
            if vals and len(ks) == 1 and None not in ks:
                return ks.pop()          # bound once, or in several branches to the same class
            return None
        if isinstance(recv, ast.Attribute) and isinstance(recv.value, ast.Name) and recv.value.id == "self" and cls:
            if cls not in self._attr_types:
                table: Dict[str, Set[str]] = {}
                seen = set()
                todo = [cls]
                while todo:
                    cn = todo.pop()
                    if cn in seen:
                        continue
                    seen.add(cn)
                    cdef = next((c for c in self.tree.body if isinstance(c, ast.ClassDef) and c.name == cn), None) or self.global_classes.get(cn)
                    if cdef is None:
                        continue
                    for n in ast.walk(cdef):
                        if isinstance(n, ast.Assign):
                            for t in n.targets:
                                if isinstance(t, ast.Attribute) and isinstance(t.value, ast.Name) and t.value.id == "self":
                                    table.setdefault(t.attr, set()).add(ctor(n.value) or "?")
                    for b in cdef.bases:
                        bn = b.id if isinstance(b, ast.Name) else (b.attr if isinstance(b, ast.Attribute) else None)
                        if bn:
                            todo.append(bn)
                self._attr_types[cls] = {a: next(iter(v)) for a, v in table.items() if len(v) == 1 and "?" not in v}
            return self._attr_types[cls].get(recv.attr)
        return None

    def _methods_mro(self, cls: str, seen=None) -> Dict[str, ast.FunctionDef]:
        """Methods visible on *cls*: its own, then those of base classes defined in the same module."""
        seen = seen or set()
        if cls in seen:
            return {}
        seen.add(cls)
        local = next((c for c in self.tree.body if isinstance(c, ast.ClassDef) and c.name == cls), None)
        cdef = local if local is not None else self.global_classes.get(cls)       # a base class defined in another module of the package
        if cdef is None:
            return {}
        if local is not None:
            mine = dict(self.class_methods.get(cls, {}))
        else:
            mine = {}
            for n in cdef.body:
                if isinstance(n, ast.FunctionDef) and not any(isinstance(d, ast.Attribute) and d.attr in ("setter", "deleter") for d in n.decorator_list):
                    mine.setdefault(n.name, n)
        for b in cdef.bases:
            bn = b.id if isinstance(b, ast.Name) else (b.attr if isinstance(b, ast.Attribute) else None)
            if bn:
                for k, v in self._methods_mro(bn, seen).items():
                    mine.setdefault(k, v)
        return mine

    @staticmethod
    def _direct_child_def(scope: ast.FunctionDef, target: ast.FunctionDef) -> bool:
        stack = list(scope.body)
        while stack:
            n = stack.pop()
            if n is target:
                return True
            if isinstance(n, (ast.FunctionDef, ast.AsyncFunctionDef, ast.Lambda, ast.ClassDef)):
                continue
            stack.extend(ast.iter_child_nodes(n))
        return False

    # -- binding ----------------------------------------------------------------------------------------------------
    def _bind(self, h: ast.FunctionDef, call: ast.Call, kind: str, caller_locals: Set[str]):
        a = h.args
        params = [x.arg for x in a.posonlyargs + a.args]
        kwonly = [x.arg for x in a.kwonlyargs]
        actual: Dict[str, ast.AST] = {}
        args = list(call.args)
        if any(isinstance(x, ast.Starred) for x in args) or any(k.arg is None for k in call.keywords):
            raise _Cannot("star args")
        if kind == "method":
            if not params:
                raise _Cannot("no receiver parameter")
            actual[params[0]] = call.func.value
            params = params[1:]
        if len(args) > len(params):
            if not a.vararg:
                raise _Cannot("too many args")
            # f(x, *rest) called with f(a, b, c): rest is the tuple (b, c)
            actual[a.vararg.arg] = ast.copy_location(ast.Tuple(elts=args[len(params):], ctx=ast.Load()), call)
            args = args[:len(params)]
        elif a.vararg:
            actual[a.vararg.arg] = ast.copy_location(ast.Tuple(elts=[], ctx=ast.Load()), call)
        for p, v in zip(params, args):
            actual[p] = v
        for k in call.keywords:
            if k.arg not in params + kwonly or k.arg in actual:
                raise _Cannot("keyword")
            actual[k.arg] = k.value
        defaults = dict(zip([x.arg for x in (a.posonlyargs + a.args)][len(a.posonlyargs + a.args) - len(a.defaults):], a.defaults))
        defaults.update({x.arg: d for x, d in zip(a.kwonlyargs, a.kw_defaults) if d is not None})
        for p in params + kwonly:
            if p not in actual:
                if p in defaults:
                    actual[p] = defaults[p]
                else:
                    raise _Cannot("missing argument %s" % p)
        h_locals = _locals_of(h)
        stored = set()
        for n in ast.walk(ast.Module(body=list(h.body), type_ignores=[])):
            if isinstance(n, ast.Name) and isinstance(n.ctx, ast.Store):
                stored.add(n.id)
        mapping: Dict[str, ast.AST] = {}
        pre: List[ast.stmt] = []
        rename: Dict[str, str] = {}
        for p, v in actual.items():
            if (_simple(v) or (a.vararg and p == a.vararg.arg)) and p not in stored:
                mapping[p] = v
            else:
                nm = p if p not in caller_locals else p + "__" + h.name.strip("_")
                if nm != p:
                    rename[p] = nm
                pre.append(ast.copy_location(ast.Assign(targets=[ast.Name(id=nm, ctx=ast.Store())], value=v, lineno=call.lineno), call))
        for l in h_locals - set(actual):
            if l in caller_locals and l not in self.module_funcs:
                rename[l] = l + "__" + h.name.strip("_")
        return mapping, rename, pre

    def _body(self, h: ast.FunctionDef, call: ast.Call, kind: str, caller_locals: Set[str], k, keep_returns: bool = False) -> List[ast.stmt]:
        mapping, rename, pre = self._bind(h, call, kind, caller_locals)
        body = copy.deepcopy(_docless(list(h.body)))
        sub = _Subst(mapping, rename)
        body = [sub.visit(s) for s in body]
        if keep_returns:
            # `return helper(...)`: the helper's own returns (also those inside its loops) are the caller's returns
            if not _always_returns(body):
                body.append(ast.copy_location(ast.Return(value=ast.Constant(value=None)), call))
        else:
            body = _elim(body, k)
        out = pre + body
        for s in out:
            ast.fix_missing_locations(s)
        return out or [ast.copy_location(ast.Pass(), call)]

    def _single_expr(self, h: ast.FunctionDef) -> Optional[ast.AST]:
        b = _docless(list(h.body))
        if len(b) == 1 and isinstance(b[0], ast.Return) and b[0].value is not None:
            return b[0].value
        return None

    # -- rewriting one function -------------------------------------------------------------------------------------------
    def inline_function(self, fn: ast.FunctionDef, cls: Optional[str], scopes: List[ast.FunctionDef]) -> int:
        n_done = 0
        caller_locals = _locals_of(fn)
        stack_guard = {fn.name}

        def rewrite_block(stmts: List[ast.stmt]) -> List[ast.stmt]:
            nonlocal n_done
            out: List[ast.stmt] = []
            stmts = self._sink_into_branches(list(stmts), cls)
            for s in stmts:
                if isinstance(s, (ast.FunctionDef, ast.AsyncFunctionDef, ast.ClassDef)):
                    out.append(s)
                    continue
                rep = self._try_temporary(s, cls, scopes + [fn], caller_locals, stack_guard)
                if rep is None:
                    rep = self._try_ctor(s, cls, scopes + [fn], caller_locals, stack_guard)
                if rep is None:
                    rep = self._try_stmt(s, cls, scopes + [fn], caller_locals, stack_guard)
                if rep is None and isinstance(s, ast.For):
                    rep = self._try_genloop(s, cls, scopes + [fn], caller_locals, stack_guard)
                if rep is None:
                    rep = self._try_generator_argument(s, cls, scopes + [fn], caller_locals, stack_guard)
                if rep is not None:
                    n_done += 1
                    out += rewrite_block(rep) if n_done < 40 else rep
                    continue
                # expression-level helpers (single-expression functions)
                n_done += self._subst_exprs(s, cls, scopes + [fn], stack_guard)
                for fld in ("body", "orelse", "finalbody"):
                    if hasattr(s, fld) and isinstance(getattr(s, fld), list) and getattr(s, fld) and isinstance(getattr(s, fld)[0], ast.stmt):
                        setattr(s, fld, rewrite_block(getattr(s, fld)))
                if isinstance(s, ast.Try):
                    for h in s.handlers:
                        h.body = rewrite_block(h.body)
                out.append(s)
            return out
        if fn.body and isinstance(fn.body[-1], ast.For) and not _has_yield(fn):
            fn.body[-1]._tail = True          # last statement of a function that returns nothing after it
        n_done += self._subst_properties(fn, cls)
        fn.body = rewrite_block(fn.body)
        return n_done

    def _sink_into_branches(self, stmts: List[ast.stmt], cls: Optional[str]) -> List[ast.stmt]:
        """``if c: x = A() else: x = B()`` followed by ``x.m(args)`` (a strategy object chosen by a flag, A and B private classes the
        pinned tree does not have): the call is made in each branch, on the object of that branch."""
        def ctor_class(st) -> Optional[Tuple[str, str]]:
            if isinstance(st, ast.Assign) and len(st.targets) == 1 and isinstance(st.targets[0], ast.Name) and isinstance(st.value, ast.Call):
                f = st.value.func
                kn = f.id if isinstance(f, ast.Name) else (f.attr if isinstance(f, ast.Attribute) else None)
                if kn and kn not in self.known_classes and kn != cls and (kn in self.global_classes or any(isinstance(c, ast.ClassDef) and c.name == kn for c in self.tree.body)):
                    return st.targets[0].id, kn
            return None
        i = 0
        while i + 1 < len(stmts):
            s, nxt = stmts[i], stmts[i + 1]
            if isinstance(s, ast.If) and s.body and s.orelse and not isinstance(nxt, (ast.FunctionDef, ast.ClassDef)):
                a, b = ctor_class(s.body[-1]), ctor_class(s.orelse[-1])
                if a and b and a[0] == b[0] and a[1] != b[1] and any(isinstance(n, ast.Name) and n.id == a[0] for n in ast.walk(nxt)) \
                        and isinstance(nxt, (ast.Expr, ast.Assign, ast.Return, ast.AugAssign)):
                    s.body.append(copy.deepcopy(nxt))
                    s.orelse.append(copy.deepcopy(nxt))
                    del stmts[i + 1]
                    if not any(isinstance(n, ast.Name) and n.id == a[0] for st in stmts[i + 1:] for n in ast.walk(st)):
                        # nothing reads the object after the branches: each branch has its own
                        for blk, kn in ((s.body, a[1]), (s.orelse, b[1])):
                            new = "%s__%s" % (a[0], kn.strip("_").lower())
                            for st in blk:
                                for n in ast.walk(st):
                                    if isinstance(n, ast.Name) and n.id == a[0]:
                                        n.id = new
                    continue
            i += 1
        return stmts

    def _subst_properties(self, fn: ast.FunctionDef, cls: Optional[str]) -> int:
        """``self.p`` with p a private read-only property of one expression (``return K(self)``): the expression itself."""
        if not cls:
            return 0
        props: Dict[str, ast.AST] = {}
        for c in self.tree.body:
            if isinstance(c, ast.ClassDef) and c.name == cls:
                names = [m.name for m in c.body if isinstance(m, ast.FunctionDef)]
                for m in c.body:
                    if isinstance(m, ast.FunctionDef) and m.name not in self.vocab and names.count(m.name) == 1 and len(m.args.args) == 1 \
                            and len(m.decorator_list) == 1 and isinstance(m.decorator_list[0], ast.Name) and m.decorator_list[0].id == "property":
                        e = self._single_expr(m)
                        if e is not None and m is not fn:
                            props[m.name] = (e, m.args.args[0].arg, m)
        if not props:
            return 0
        done = 0
        inl = self

        class P(ast.NodeTransformer):
            def visit_Attribute(self, node):
                nonlocal done
                self.generic_visit(node)
                if isinstance(node.ctx, ast.Load) and isinstance(node.value, ast.Name) and node.value.id == "self" and node.attr in props:
                    e, selfname, m = props[node.attr]
                    done += 1
                    inl.inlined_into[id(m)] = inl.inlined_into.get(id(m), 0) + 1
                    return ast.copy_location(_Subst({selfname: ast.Name(id="self", ctx=ast.Load())}, {}).visit(copy.deepcopy(e)), node)
                return node
        for i, st in enumerate(fn.body):
            fn.body[i] = P().visit(st)
        if done:
            ast.fix_missing_locations(fn)
        return done

    def _try_stmt(self, s: ast.stmt, cls, scopes, caller_locals, guard) -> Optional[List[ast.stmt]]:
        call = None
        mode = None
        if isinstance(s, ast.Expr) and isinstance(s.value, ast.Call):
            call, mode = s.value, "discard"
        elif isinstance(s, ast.Assign) and isinstance(s.value, ast.Call) and len(s.targets) == 1:
            call, mode = s.value, "assign"
        elif isinstance(s, ast.Return) and isinstance(s.value, ast.Call):
            call, mode = s.value, "return"
        if call is not None:
            r0 = self._resolve(call, cls, scopes)
            if r0 is None or r0[0].name in guard or not self._eligible(r0[0]) or any(r0[0] is sc for sc in scopes) or \
                    (mode != "discard" and self._single_expr(r0[0]) is not None):
                call = None
        if call is None and isinstance(s, (ast.Assign, ast.Return)) and isinstance(s.value, ast.IfExp):
            # X = A if c else B  with a helper call in A or B: as a statement-level conditional
            def has_helper(e):
                for n in ast.walk(e):
                    if isinstance(n, ast.Call):
                        r = self._resolve(n, cls, scopes)
                        if r is not None and r[0].name not in guard and self._eligible(r[0]) and self._single_expr(r[0]) is None:
                            return True
                return False
            if has_helper(s.value.body) or has_helper(s.value.orelse):
                def mk(v):
                    st = copy.copy(s)
                    st.value = v
                    return st
                return [ast.copy_location(ast.If(test=s.value.test, body=[mk(s.value.body)], orelse=[mk(s.value.orelse)]), s)]
        if call is None:
            return self._hoist(s, cls, scopes, caller_locals, guard)
        r = self._resolve(call, cls, scopes)
        if r is None:
            return None
        h, kind = r
        if h.name in guard or not self._eligible(h) or any(h is sc for sc in scopes):
            return None
        if mode != "discard" and self._single_expr(h) is not None:
            return None          # handled at expression level (keeps the statement shape)

        def k(ret: ast.Return) -> List[ast.stmt]:
            if mode == "discard":
                if ret.value is not None and any(isinstance(x, ast.Call) for x in ast.walk(ret.value)):
                    return [ast.copy_location(ast.Expr(value=ret.value), ret)]
                return []
            if mode == "assign":
                v = ret.value if ret.value is not None else ast.Constant(value=None)
                return [ast.copy_location(ast.Assign(targets=copy.deepcopy(s.targets), value=v, lineno=ret.lineno), ret)]
            return [ret]
        try:
            body = self._body(h, call, kind, caller_locals, k, keep_returns=(mode == "return"))
        except _Cannot:
            return None
        self.inlined_into[id(h)] = self.inlined_into.get(id(h), 0) + 1
        if mode == "assign" and not _always_returns(_docless(list(h.body))):
            # falling off the end returns None
            body.append(ast.fix_missing_locations(ast.copy_location(
                ast.If(test=ast.Constant(value=False), body=[ast.Pass()], orelse=[]), s))) if False else None
        return body

    def _try_temporary(self, s: ast.stmt, cls, scopes, caller_locals, guard) -> Optional[List[ast.stmt]]:
        """``x = K(args).m(a)`` with K a private class the pinned tree does not have: the temporary object gets a name
        (``k = K(args); x = k.m(a)``) so that its constructor and method can be looked through like those of a named collaborator."""
        if not isinstance(s, (ast.Assign, ast.AugAssign, ast.AnnAssign, ast.Return, ast.Expr)):
            return None
        stack = [s]
        while stack:
            n = stack.pop()
            if isinstance(n, (ast.Lambda, ast.FunctionDef, ast.ListComp, ast.DictComp, ast.SetComp, ast.GeneratorExp, ast.IfExp, ast.BoolOp)):
                continue
            if isinstance(n, ast.Call) and isinstance(n.func, ast.Attribute) and isinstance(n.func.value, ast.Call):
                k = n.func.value
                kn = k.func.id if isinstance(k.func, ast.Name) else (k.func.attr if isinstance(k.func, ast.Attribute) else None)
                if kn and kn not in self.known_classes and kn != cls and (kn in self.global_classes or any(isinstance(c, ast.ClassDef) and c.name == kn for c in self.tree.body)) \
                        and n.func.attr not in self.vocab:
                    self.count += 1
                    tmp = "%s__obj%d" % (kn.strip("_").lower(), self.count)
                    caller_locals.add(tmp)
                    pre = ast.copy_location(ast.Assign(targets=[ast.Name(id=tmp, ctx=ast.Store())], value=k, lineno=s.lineno), s)
                    n.func.value = ast.copy_location(ast.Name(id=tmp, ctx=ast.Load()), k)
                    ast.fix_missing_locations(pre)
                    return [pre, s]
            stack.extend(ast.iter_child_nodes(n))
        return None

    def _try_ctor(self, s: ast.stmt, cls, scopes, caller_locals, guard) -> Optional[List[ast.stmt]]:
        """``self.x = K(args)`` / ``x = K(args)`` with K a private class the pinned tree does not have (a collaborator object split
        off a class): the statements of K.__init__ follow the assignment, with K's self standing for the new object."""
        if not (isinstance(s, ast.Assign) and len(s.targets) == 1 and isinstance(s.value, ast.Call) and not getattr(s, "_ctor_done", False)):
            return None
        t = s.targets[0]
        if not (isinstance(t, ast.Name) or (isinstance(t, ast.Attribute) and isinstance(t.value, ast.Name) and t.value.id == "self")):
            return None
        f = s.value.func
        kn = f.id if isinstance(f, ast.Name) else (f.attr if isinstance(f, ast.Attribute) else None)
        if kn is None or kn in self.known_classes or kn == cls:
            return None
        if not (kn in self.global_classes or any(isinstance(c, ast.ClassDef) and c.name == kn for c in self.tree.body)):
            return None
        init = self._methods_of(kn).get("__init__")
        s._ctor_done = True
        if init is None or init.args.vararg or init.args.kwarg or "__init__" in guard and kn == cls:
            return None
        recv = copy.deepcopy(t)
        for n in ast.walk(recv):
            if hasattr(n, "ctx"):
                n.ctx = ast.Load()
        fake = ast.copy_location(ast.Call(func=ast.Attribute(value=recv, attr="__init__", ctx=ast.Load()), args=s.value.args, keywords=s.value.keywords), s.value)

        def k(ret: ast.Return) -> List[ast.stmt]:
            return []
        try:
            body = self._body(init, fake, "method", caller_locals, k)
        except _Cannot:
            return None
        self.count += 1
        self.inlined_into[id(init)] = self.inlined_into.get(id(init), 0) + 1
        return [s] + body

    def _try_generator_argument(self, s: ast.stmt, cls, scopes, caller_locals, guard) -> Optional[List[ast.stmt]]:
        """``Response(self._stream(args))`` with a generator helper that is used nowhere else: the helper becomes a nested generator
        function of the caller (the reverse of extracting a closure into a method), its parameters bound to the arguments."""
        if not isinstance(s, (ast.Assign, ast.Expr, ast.Return, ast.AnnAssign)):
            return None
        for call in [c for c in ast.walk(s) if isinstance(c, ast.Call)]:
            r = self._resolve(call, cls, scopes)
            if r is None:
                continue
            h, kind = r
            if h.name in guard or h.name in self.vocab or not _has_yield(h) or h.args.vararg or h.args.kwarg or any(h is sc for sc in scopes):
                continue
            if any(not (isinstance(d, ast.Name) and d.id in ("staticmethod", "classmethod")) for d in h.decorator_list):
                continue
            uses = sum(1 for x in ast.walk(self.tree) if isinstance(x, ast.Call) and (
                (isinstance(x.func, ast.Attribute) and x.func.attr == h.name) or (isinstance(x.func, ast.Name) and x.func.id == h.name)))
            if uses != 1 or getattr(h, "_nested_copy", False):
                continue
            try:
                mapping, rename, pre = self._bind(h, call, kind, caller_locals)
            except _Cannot:
                continue
            body = copy.deepcopy(list(h.body))
            sub = _Subst(mapping, {})
            body = [sub.visit(x) for x in body]
            nested = ast.FunctionDef(name=h.name, args=ast.arguments(posonlyargs=[], args=[], kwonlyargs=[], kw_defaults=[], defaults=[]),
                                     body=pre + body, decorator_list=[], returns=None, type_comment=None)
            try:
                nested.type_params = []
            except Exception:
                pass
            ast.copy_location(nested, h)
            nested._nested_copy = True
            new_call = ast.copy_location(ast.Call(func=ast.Name(id=h.name, ctx=ast.Load()), args=[], keywords=[]), call)

            class R(ast.NodeTransformer):
                def visit_Call(self, node):
                    if node is call:
                        return new_call
                    self.generic_visit(node)
                    return node
            new_stmt = R().visit(s)
            ast.fix_missing_locations(nested)
            ast.fix_missing_locations(new_stmt)
            self.inlined_into[id(h)] = self.inlined_into.get(id(h), 0) + 1
            h._absorbed = True                      # its only call site now runs the nested copy
            self._nested.clear()
            return [nested, new_stmt]
        return None

    def _hoist(self, s: ast.stmt, cls, scopes, caller_locals, guard) -> Optional[List[ast.stmt]]:
        """A multi-statement helper called inside a larger expression of a simple statement: its body is placed before the statement,
        assigning a temporary that replaces the call (view only: evaluation order of the surrounding operands is not preserved)."""
        if not isinstance(s, (ast.Assign, ast.AugAssign, ast.AnnAssign, ast.Return, ast.Expr, ast.If)):
            return None
        found = []
        stack = [s.test if isinstance(s, ast.If) else s]          # the test of an if is evaluated once, before either branch
        while stack:
            n = stack.pop()
            if isinstance(n, (ast.Lambda, ast.FunctionDef, ast.ListComp, ast.DictComp, ast.SetComp, ast.GeneratorExp, ast.IfExp, ast.BoolOp)):
                continue          # conditionally / repeatedly evaluated positions stay calls
            if isinstance(n, ast.Call):
                r = self._resolve(n, cls, scopes)
                if r is not None and r[0].name not in guard and self._eligible(r[0]) and not any(r[0] is sc for sc in scopes) \
                        and self._single_expr(r[0]) is None and _contains_return(ast.Module(body=list(r[0].body), type_ignores=[])):
                    found.append((n, r))
            stack.extend(ast.iter_child_nodes(n))
        if not found:
            return None
        pre: List[ast.stmt] = []
        repl: Dict[int, ast.AST] = {}
        for call, (h, kind) in found[:3]:
            self.count += 1
            tmp = "%s__value%d" % (h.name.strip("_"), self.count)
            caller_locals.add(tmp)

            def k(ret: ast.Return, tmp=tmp) -> List[ast.stmt]:
                v = ret.value if ret.value is not None else ast.Constant(value=None)
                return [ast.copy_location(ast.Assign(targets=[ast.Name(id=tmp, ctx=ast.Store())], value=v, lineno=ret.lineno), ret)]
            try:
                pre += self._body(h, call, kind, caller_locals, k)
            except _Cannot:
                return None
            self.inlined_into[id(h)] = self.inlined_into.get(id(h), 0) + 1
            repl[id(call)] = ast.Name(id=tmp, ctx=ast.Load())
        if not repl:
            return None

        class R(ast.NodeTransformer):
            def visit_Call(self, node):
                if id(node) in repl:
                    return ast.copy_location(repl[id(node)], node)
                self.generic_visit(node)
                return node
        if isinstance(s, ast.If):
            s.test = R().visit(s.test)
            new = s
        else:
            new = R().visit(s)
        ast.fix_missing_locations(new)
        return pre + [new]

    def _try_genloop(self, s: ast.For, cls, scopes, caller_locals, guard) -> Optional[List[ast.stmt]]:
        """``for T in helper(args): BODY`` with a generator helper: the helper's body with every ``yield e`` replaced by
        ``T = e; BODY`` (view only; BODY must not break out of the loop)."""
        if not isinstance(s.iter, ast.Call) or s.orelse:
            return None
        r = self._resolve(s.iter, cls, scopes)
        if r is None:
            return None
        h, kind = r
        if h.name in guard or h.name in self.vocab or not _has_yield(h) or h.args.vararg or h.args.kwarg or any(h is sc for sc in scopes):
            return None
        if any(not (isinstance(d, ast.Name) and d.id in ("staticmethod", "classmethod")) for d in h.decorator_list):
            return None
        if _contains_return(ast.Module(body=list(h.body), type_ignores=[])) and not getattr(s, "_tail", False):
            return None       # `return` in a generator ends the consumer's loop: only the same as `return` when nothing follows the loop
        has_break = any(isinstance(n, ast.Break) for n in ast.walk(ast.Module(body=list(s.body), type_ignores=[])))
        if has_break and not getattr(s, "_tail", False):
            return None
        if has_break:
            # leaving a loop that is the last statement of the function is returning from it
            class B(ast.NodeTransformer):
                def visit_For(self, node):
                    return node          # a break of an inner loop stays

                visit_While = visit_For

                def visit_Break(self, node):
                    return ast.copy_location(ast.Return(value=None), node)
            s.body = [B().visit(st) for st in s.body]
        # yields must be expression statements
        ys = [n for n in ast.walk(ast.Module(body=list(h.body), type_ignores=[])) if isinstance(n, (ast.Yield, ast.YieldFrom))]
        stmts_y = [n for n in ast.walk(ast.Module(body=list(h.body), type_ignores=[])) if isinstance(n, ast.Expr) and isinstance(n.value, ast.Yield)]
        if len(ys) != len(stmts_y) or any(isinstance(y, ast.YieldFrom) for y in ys):
            return None
        try:
            mapping, rename, pre = self._bind(h, s.iter, kind, caller_locals)
        except _Cannot:
            return None
        # yields of plain locals unify with the loop's target names: `yield m, s` with `for manager, scenario in ...`
        unify: Dict[str, str] = {}
        tnames = [t.id for t in (s.target.elts if isinstance(s.target, ast.Tuple) else [s.target]) if isinstance(t, ast.Name)]
        unified = True
        for y in stmts_y:
            v = y.value.value
            vn = [e.id for e in (v.elts if isinstance(v, ast.Tuple) else [v]) if isinstance(e, ast.Name)] if v is not None else []
            n_t = len(s.target.elts) if isinstance(s.target, ast.Tuple) else 1
            n_v = len(v.elts) if isinstance(v, ast.Tuple) else 1
            if len(vn) != n_v or len(tnames) != n_t or n_v != n_t or any(x in mapping for x in vn):
                unified = False
                break
            for a_, b_ in zip(vn, tnames):
                if unify.get(a_, b_) != b_:
                    unified = False
                unify[a_] = b_
        if unified and len(set(unify.values())) == len(unify):
            rename = dict(rename)
            rename.update(unify)
        else:
            unified = False
        body = copy.deepcopy(_docless(list(h.body)))
        sub = _Subst(mapping, rename)
        body = [sub.visit(x) for x in body]
        loop = s

        class Y(ast.NodeTransformer):
            def visit_FunctionDef(self, node):
                return node
            visit_Lambda = visit_FunctionDef

            def visit_Expr(self, node: ast.Expr):
                if isinstance(node.value, ast.Yield):
                    v = node.value.value if node.value.value is not None else ast.Constant(value=None)
                    if unified:
                        return copy.deepcopy(loop.body)
                    asg = ast.copy_location(ast.Assign(targets=[copy.deepcopy(loop.target)], value=v, lineno=node.lineno), node)
                    return [asg] + copy.deepcopy(loop.body)
                return node
        self.inlined_into[id(h)] = self.inlined_into.get(id(h), 0) + 1
        out = pre + [Y().visit(x) for x in body]
        flat: List[ast.stmt] = []
        for x in out:
            flat += x if isinstance(x, list) else [x]
        for x in flat:
            ast.fix_missing_locations(x)
        return flat

    def _subst_exprs(self, s: ast.stmt, cls, scopes, guard) -> int:
        inl = self
        done = 0

        class T(ast.NodeTransformer):
            def visit_FunctionDef(self, node):
                return node
            visit_Lambda = visit_FunctionDef
            visit_ClassDef = visit_FunctionDef

            def visit_Call(self, node: ast.Call):
                nonlocal done
                self.generic_visit(node)
                r = inl._resolve(node, cls, scopes)
                if r is None:
                    return node
                h, kind = r
                if h.name in guard or not inl._eligible(h) or any(h is sc for sc in scopes):
                    return node
                e = inl._single_expr(h)
                if e is None:
                    return node
                try:
                    mapping, rename, pre = inl._bind(h, node, kind, set())
                except _Cannot:
                    return node
                if pre:
                    # non-simple arguments: substitute the expressions themselves (view only)
                    for p in pre:
                        mapping[p.targets[0].id] = p.value
                done += 1
                inl.inlined_into[id(h)] = inl.inlined_into.get(id(h), 0) + 1
                return ast.copy_location(_Subst(mapping, {}).visit(copy.deepcopy(e)), node)
        # only the header expressions of compound statements, the whole of simple ones
        if isinstance(s, (ast.If, ast.While)):
            s.test = T().visit(s.test)
        elif isinstance(s, ast.For):
            s.iter = T().visit(s.iter)
        elif isinstance(s, ast.With):
            for it in s.items:
                it.context_expr = T().visit(it.context_expr)
        elif isinstance(s, ast.Try):
            pass
        else:
            T().visit(s)
        return done


def _propagate_field_copies(fn: ast.AST, prefix: str) -> None:
    """``obj__f = e`` (a field of a looked-through local collaborator, set once from a plain name / attribute of self / constant whose
    parts are not written afterwards): the reads of obj__f are shown as e."""
    order: Dict[int, int] = {}
    k = 0
    stack = [fn]
    seqd = []
    while stack:
        n = stack.pop()
        order[id(n)] = k
        k += 1
        stack.extend(reversed(list(ast.iter_child_nodes(n))))
    stores: Dict[str, List[ast.AST]] = {}
    for n in ast.walk(fn):
        if isinstance(n, ast.Name) and isinstance(n.ctx, ast.Store):
            stores.setdefault(n.id, []).append(n)
    values: Dict[str, Set[str]] = {}
    for n in ast.walk(fn):
        if isinstance(n, ast.Assign) and len(n.targets) == 1 and isinstance(n.targets[0], ast.Name):
            values.setdefault(n.targets[0].id, set()).add(ast.unparse(n.value))
    for n in list(ast.walk(fn)):
        if isinstance(n, ast.Assign) and len(n.targets) == 1 and isinstance(n.targets[0], ast.Name) and n.targets[0].id.startswith(prefix) \
                and len(values.get(n.targets[0].id, ())) == 1 and len(stores.get(n.targets[0].id, [])) == len([1 for a_ in ast.walk(fn) if isinstance(a_, ast.Assign)
                    and len(a_.targets) == 1 and isinstance(a_.targets[0], ast.Name) and a_.targets[0].id == n.targets[0].id]) \
                and _simple(n.value) and not isinstance(n.value, ast.Subscript):
            parts = {x.id for x in ast.walk(n.value) if isinstance(x, ast.Name)}
            if any(order[id(st)] > order[id(n)] for p_ in parts for st in stores.get(p_, [])):
                continue
            # also attributes of self written later in this function
            written_attrs = {ast.unparse(x) for x in ast.walk(fn) if isinstance(x, ast.Attribute) and isinstance(x.ctx, ast.Store) and order[id(x)] > order[id(n)]}
            if any(ast.unparse(x) in written_attrs for x in ast.walk(n.value) if isinstance(x, ast.Attribute)):
                continue
            name = n.targets[0].id
            _NameToConst(name, n.value).visit(fn)


def flatten_collaborators(tree: ast.Module, global_classes: Dict[str, ast.ClassDef], known_classes: Set[str]) -> int:
    """``self.x = K(...)`` with K a private class the pinned tree does not have: the fields of the collaborator are state of the owner
    under another spelling - ``self.x.f`` is shown as the attribute ``self.x__f`` (only fields K stores on itself, not its methods)."""
    done = 0
    # a local collaborator (x = K(...), then only x.f): its fields are locals under another spelling
    for fn in [n for n in ast.walk(tree) if isinstance(n, (ast.FunctionDef, ast.AsyncFunctionDef))]:
        binds: Dict[str, List[ast.Assign]] = {}
        for n in ast.walk(fn):
            if isinstance(n, ast.Assign) and len(n.targets) == 1 and isinstance(n.targets[0], ast.Name):
                binds.setdefault(n.targets[0].id, []).append(n)
        for nm, asg in binds.items():
            if not asg or not all(isinstance(a.value, ast.Call) and getattr(a, "_ctor_done", False) for a in asg):
                continue
            kns = set()
            for a in asg:
                f = a.value.func
                kns.add(f.id if isinstance(f, ast.Name) else (f.attr if isinstance(f, ast.Attribute) else None))
            kn = kns.pop() if len(kns) == 1 else None
            if not kn or kn in known_classes:
                continue
            tg = {id(a.targets[0]) for a in asg}
            uses = [(n, p_) for p_ in ast.walk(fn) for n in ast.iter_child_nodes(p_) if isinstance(n, ast.Name) and n.id == nm and id(n) not in tg]
            if not uses or not all(isinstance(p_, ast.Attribute) and p_.value is n for n, p_ in uses):
                continue                  # the object itself is passed on / returned / called: keep it

            class L(ast.NodeTransformer):
                def visit_Attribute(self, node):
                    self.generic_visit(node)
                    if isinstance(node.value, ast.Name) and node.value.id == nm:
                        return ast.copy_location(ast.Name(id=nm + "__" + node.attr, ctx=node.ctx), node)
                    return node
            L().visit(fn)
            _propagate_field_copies(fn, nm + "__")
            for blk_owner in ast.walk(fn):
                for field in ("body", "orelse", "finalbody"):
                    blk = getattr(blk_owner, field, None)
                    for a in asg:
                        if isinstance(blk, list) and a in blk:
                            blk.remove(a)
                            if not blk:
                                blk.append(ast.copy_location(ast.Pass(), a))
            done += 1
    for c in tree.body:
        if not isinstance(c, ast.ClassDef):
            continue
        collab: Dict[str, Set[str]] = {}
        for n in ast.walk(c):
            if isinstance(n, ast.Assign) and len(n.targets) == 1 and isinstance(n.value, ast.Call):
                t = n.targets[0]
                f = n.value.func
                kn = f.id if isinstance(f, ast.Name) else (f.attr if isinstance(f, ast.Attribute) else None)
                if isinstance(t, ast.Attribute) and isinstance(t.value, ast.Name) and t.value.id == "self" and kn and kn not in known_classes:
                    kdef = global_classes.get(kn) or next((x for x in tree.body if isinstance(x, ast.ClassDef) and x.name == kn), None)
                    if kdef is not None:
                        fields = {x.attr for m in kdef.body if isinstance(m, ast.FunctionDef) for x in ast.walk(m)
                                  if isinstance(x, ast.Attribute) and isinstance(x.ctx, ast.Store) and isinstance(x.value, ast.Name) and x.value.id == "self"}
                        fields |= {tt.id for st in kdef.body if isinstance(st, ast.Assign) for tt in st.targets if isinstance(tt, ast.Name)}
                        collab.setdefault(t.attr, set()).update(fields)
        if not collab:
            continue

        class F(ast.NodeTransformer):
            def visit_Attribute(self, node):
                self.generic_visit(node)
                v = node.value
                if isinstance(v, ast.Attribute) and isinstance(v.value, ast.Name) and v.value.id == "self" and v.attr in collab and node.attr in collab[v.attr]:
                    nonlocal done
                    done += 1
                    return ast.copy_location(ast.Attribute(value=v.value, attr=v.attr + "__" + node.attr, ctx=node.ctx), node)
                return node
        F().visit(c)
        # a field that merely names another attribute of the owner (self.x__f = self.a, both set once): read as that attribute
        stores: Dict[str, List[ast.Assign]] = {}
        for n in ast.walk(c):
            if isinstance(n, ast.Assign):
                for t in n.targets:
                    if isinstance(t, ast.Attribute) and isinstance(t.value, ast.Name) and t.value.id == "self":
                        stores.setdefault(t.attr, []).append(n)
            elif isinstance(n, (ast.AugAssign, ast.AnnAssign)) and isinstance(n.target, ast.Attribute) and isinstance(n.target.value, ast.Name) and n.target.value.id == "self":
                stores.setdefault(n.target.attr, []).append(n)
        alias: Dict[str, str] = {}
        for x in collab:
            for a_, defs in stores.items():
                if a_.startswith(x + "__") and len(defs) == 1 and isinstance(defs[0], ast.Assign) and isinstance(defs[0].value, ast.Attribute) \
                        and isinstance(defs[0].value.value, ast.Name) and defs[0].value.value.id == "self" and len(stores.get(defs[0].value.attr, [])) == 1:
                    alias[a_] = defs[0].value.attr
        # ... or holds the same constructor argument as another attribute of the owner (self.a = arg; self.x__f = arg)
        for x in collab:
            for a_, defs in stores.items():
                if a_.startswith(x + "__") and a_ not in alias and len(defs) == 1 and isinstance(defs[0], ast.Assign) and isinstance(defs[0].value, ast.Name):
                    twins = [b_ for b_, d2 in stores.items() if b_ != a_ and "__" not in b_ and len(d2) == 1 and isinstance(d2[0], ast.Assign)
                             and isinstance(d2[0].value, ast.Name) and d2[0].value.id == defs[0].value.id]
                    init = next((m for m in c.body if isinstance(m, ast.FunctionDef) and m.name == "__init__"), None)
                    if len(twins) == 1 and init is not None and defs[0].value.id in {p_.arg for p_ in init.args.args + init.args.kwonlyargs} \
                            and not any(isinstance(n, ast.Name) and n.id == defs[0].value.id and isinstance(n.ctx, ast.Store) for n in ast.walk(init)):
                        alias[a_] = twins[0]
        if alias:
            class A(ast.NodeTransformer):
                def visit_Attribute(self, node):
                    self.generic_visit(node)
                    if isinstance(node.ctx, ast.Load) and isinstance(node.value, ast.Name) and node.value.id == "self" and node.attr in alias:
                        node.attr = alias[node.attr]
                    return node
            A().visit(c)
    return done


def _record_classes(tree: ast.Module, known_classes: Set[str]) -> Dict[str, List[Tuple[str, Optional[ast.AST]]]]:
    """Private pure-data classes the pinned tree does not have: name -> [(field, default)] in constructor order.  A dataclass, a
    NamedTuple / namedtuple, or a class whose only method is an __init__ made of ``self.f = f`` assignments."""
    out: Dict[str, List[Tuple[str, Optional[ast.AST]]]] = {}
    for c in tree.body:
        if isinstance(c, ast.ClassDef) and c.name not in known_classes:
            decos = [d.func if isinstance(d, ast.Call) else d for d in c.decorator_list]
            is_dc = any((isinstance(d, ast.Name) and d.id == "dataclass") or (isinstance(d, ast.Attribute) and d.attr == "dataclass") for d in decos)
            is_nt = any((isinstance(b, ast.Name) and b.id == "NamedTuple") or (isinstance(b, ast.Attribute) and b.attr == "NamedTuple") for b in c.bases)
            methods = [m for m in c.body if isinstance(m, (ast.FunctionDef, ast.AsyncFunctionDef))]
            if (is_dc or is_nt) and not methods:
                out[c.name] = [(st.target.id, st.value) for st in c.body if isinstance(st, ast.AnnAssign) and isinstance(st.target, ast.Name)]
            elif not c.decorator_list and len(methods) == 1 and methods[0].name == "__init__" and not [b for b in c.bases if not (isinstance(b, ast.Name) and b.id == "object")]:
                init = methods[0]
                a = init.args
                if a.vararg or a.kwarg or a.kwonlyargs:
                    continue
                params = [x.arg for x in a.args][1:]
                defaults = dict(zip(params[len(params) - len(a.defaults):], a.defaults)) if a.defaults else {}
                body = _docless(list(init.body))
                ok = all(isinstance(st, ast.Assign) and len(st.targets) == 1 and isinstance(st.targets[0], ast.Attribute)
                         and isinstance(st.targets[0].value, ast.Name) and st.targets[0].value.id == a.args[0].arg
                         and isinstance(st.value, ast.Name) and st.value.id == st.targets[0].attr and st.value.id in params for st in body)
                if ok and {st.value.id for st in body} == set(params):
                    out[c.name] = [(p_, defaults.get(p_)) for p_ in params]
        elif isinstance(c, ast.Assign) and len(c.targets) == 1 and isinstance(c.targets[0], ast.Name) and isinstance(c.value, ast.Call) \
                and c.targets[0].id not in known_classes:
            f = c.value.func
            nm = f.id if isinstance(f, ast.Name) else (f.attr if isinstance(f, ast.Attribute) else "")
            if nm == "namedtuple" and len(c.value.args) >= 2:
                spec = c.value.args[1]
                fields = None
                if isinstance(spec, ast.Constant) and isinstance(spec.value, str):
                    fields = spec.value.replace(",", " ").split()
                elif isinstance(spec, (ast.List, ast.Tuple)) and all(isinstance(e, ast.Constant) and isinstance(e.value, str) for e in spec.elts):
                    fields = [e.value for e in spec.elts]
                if fields:
                    out[c.targets[0].id] = [(f_, None) for f_ in fields]
    return out


def _propagate_local_records(fn: ast.AST) -> int:
    """``r = {"a": x, "b": y}`` bound once, only ever read as ``r["a"]`` (what a looked-through record class leaves behind): the reads
    are shown as the values (when those are plain names / attributes / constants that are not written afterwards)."""
    order: Dict[int, int] = {}
    k = 0
    stack = [fn]
    while stack:
        n = stack.pop()
        order[id(n)] = k
        k += 1
        stack.extend(reversed(list(ast.iter_child_nodes(n))))
    stores: Dict[str, List[ast.AST]] = {}
    comp_targets = {id(x) for c in ast.walk(fn) if isinstance(c, ast.comprehension) for x in ast.walk(c.target)}      # their own scope
    for n in ast.walk(fn):
        if isinstance(n, ast.Name) and isinstance(n.ctx, ast.Store) and id(n) not in comp_targets:
            stores.setdefault(n.id, []).append(n)
    done = 0
    for a in [n for n in ast.walk(fn) if isinstance(n, ast.Assign)]:
        if not (len(a.targets) == 1 and isinstance(a.targets[0], ast.Name) and isinstance(a.value, ast.Dict) and a.value.keys
                and all(isinstance(k_, ast.Constant) for k_ in a.value.keys) and getattr(a.value, "_from_record", False)):
            continue
        nm = a.targets[0].id
        if len(stores.get(nm, [])) != 1:
            continue
        uses = [(n, p_) for p_ in ast.walk(fn) for n in ast.iter_child_nodes(p_) if isinstance(n, ast.Name) and n.id == nm and isinstance(n.ctx, ast.Load)]
        if not uses or not all(isinstance(p_, ast.Subscript) and p_.value is n and isinstance(p_.slice, ast.Constant) and isinstance(p_.ctx, ast.Load) for n, p_ in uses):
            continue
        table = {k_.value: v for k_, v in zip(a.value.keys, a.value.values)}
        if not all(p_.slice.value in table for _n, p_ in uses):
            continue
        vals = [table[p_.slice.value] for _n, p_ in uses]
        if not all(_simple(v) for v in vals):
            continue
        parts = {x.id for v in vals for x in ast.walk(v) if isinstance(x, ast.Name)}
        if any(order[id(st)] > order[id(a)] for p_ in parts for st in stores.get(p_, [])):
            continue

        class S(ast.NodeTransformer):
            def visit_Subscript(self, node):
                self.generic_visit(node)
                if isinstance(node.value, ast.Name) and node.value.id == nm and isinstance(node.slice, ast.Constant) and isinstance(node.ctx, ast.Load):
                    return ast.copy_location(copy.deepcopy(table[node.slice.value]), node)
                return node
        S().visit(fn)
        for owner in ast.walk(fn):
            for field in ("body", "orelse", "finalbody"):
                blk = getattr(owner, field, None)
                if isinstance(blk, list) and a in blk:
                    blk.remove(a)
                    if not blk:
                        blk.append(ast.copy_location(ast.Pass(), a))
        done += 1
    return done


def records_to_dicts(tree: ast.Module, known_classes: Set[str]) -> int:
    """A private record class that replaced a dict literal (rec = _Rec(a=1, b=2) ... rec.a) is shown as the dict it stands for
    ({"a": 1, "b": 2} ... rec["a"]).  Which expressions hold a record is inferred per class: constructor calls, locals bound to them,
    the tables (self.t[k] = rec) they are stored in, what is read back from those tables."""
    recs = _record_classes(tree, known_classes)
    if not recs:
        return 0
    done = 0
    all_fields = {f for fs in recs.values() for f, _d in fs}

    def ctor_name(e: ast.AST) -> Optional[str]:
        if isinstance(e, ast.Call):
            nm = e.func.id if isinstance(e.func, ast.Name) else (e.func.attr if isinstance(e.func, ast.Attribute) else None)
            return nm if nm in recs else None
        return None
    scopes: List[ast.AST] = [c for c in tree.body if isinstance(c, ast.ClassDef) and c.name not in recs] + \
                            [f for f in tree.body if isinstance(f, (ast.FunctionDef, ast.AsyncFunctionDef))]
    for scope in scopes:
        tables: Set[str] = set()          # self.<t> holding records
        funcs = [n for n in ast.walk(scope) if isinstance(n, (ast.FunctionDef, ast.AsyncFunctionDef))]
        rec_locals: Dict[int, Set[str]] = {id(f): set() for f in funcs}

        def is_table(e: ast.AST) -> bool:
            return isinstance(e, ast.Attribute) and isinstance(e.value, ast.Name) and e.value.id == "self" and e.attr in tables

        def is_rec(e: ast.AST, fn) -> bool:
            if ctor_name(e):
                return True
            if isinstance(e, ast.Name):
                return e.id in rec_locals[id(fn)]
            if isinstance(e, ast.Subscript) and is_table(e.value):
                return True
            if isinstance(e, ast.Call) and isinstance(e.func, ast.Attribute) and e.func.attr in ("get", "pop", "setdefault") and is_table(e.func.value):
                return True
            return False
        for _ in range(4):
            before = (len(tables), sum(len(v) for v in rec_locals.values()))
            for fn in funcs:
                for n in ast.walk(fn):
                    if isinstance(n, ast.Assign) and len(n.targets) == 1:
                        t = n.targets[0]
                        if is_rec(n.value, fn):
                            if isinstance(t, ast.Name):
                                rec_locals[id(fn)].add(t.id)
                            elif isinstance(t, ast.Subscript) and isinstance(t.value, ast.Attribute) and isinstance(t.value.value, ast.Name) and t.value.value.id == "self":
                                tables.add(t.value.attr)
                    elif isinstance(n, (ast.For, ast.comprehension)):
                        it = n.iter
                        if isinstance(it, ast.Call) and isinstance(it.func, ast.Attribute) and is_table(it.func.value):
                            if it.func.attr == "values" and isinstance(n.target, ast.Name):
                                rec_locals[id(fn)].add(n.target.id)
                            elif it.func.attr == "items" and isinstance(n.target, ast.Tuple) and len(n.target.elts) == 2 and isinstance(n.target.elts[1], ast.Name):
                                rec_locals[id(fn)].add(n.target.elts[1].id)
            if before == (len(tables), sum(len(v) for v in rec_locals.values())):
                break
        if not tables and not any(rec_locals.values()) and not any(ctor_name(n) for n in ast.walk(scope)):
            continue

        for fn in funcs:
            class R(ast.NodeTransformer):
                def visit_FunctionDef(self, node):
                    if node is not fn:
                        return node
                    self.generic_visit(node)
                    return node

                def visit_Attribute(self, node):
                    self.generic_visit(node)
                    if node.attr in all_fields and is_rec(node.value, fn):
                        nonlocal done
                        done += 1
                        return ast.copy_location(ast.Subscript(value=node.value, slice=ast.Constant(value=node.attr), ctx=node.ctx), node)
                    return node
            R().visit(fn)
    # constructor calls -> dict literals (anywhere in the module)

    class C(ast.NodeTransformer):
        def visit_Call(self, node):
            self.generic_visit(node)
            nm = ctor_name(node)
            if nm and not any(isinstance(a, ast.Starred) for a in node.args) and not any(k.arg is None for k in node.keywords):
                fields = recs[nm]
                vals: Dict[str, ast.AST] = {}
                for (f_, _d), a in zip(fields, node.args):
                    vals[f_] = a
                for k in node.keywords:
                    vals[k.arg] = k.value
                for f_, d in fields:
                    if f_ not in vals and d is not None:
                        vals[f_] = copy.deepcopy(d)
                if all(f_ in vals for f_, _d in fields):
                    nonlocal done
                    done += 1
                    d_ = ast.Dict(keys=[ast.Constant(value=f_) for f_, _d in fields], values=[vals[f_] for f_, _d in fields])
                    d_._from_record = True
                    return ast.copy_location(d_, node)
            return node
    C().visit(tree)
    if done:
        for fn in [n for n in ast.walk(tree) if isinstance(n, (ast.FunctionDef, ast.AsyncFunctionDef))]:
            _propagate_local_records(fn)
        ast.fix_missing_locations(tree)
    return done


def _dicts_built_by_stores(tree: ast.AST) -> int:
    """``d = dict()`` / ``d = {}`` followed directly by ``d["k"] = v`` statements with constant keys (v not reading d): the literal
    ``d = {"k": v, ...}`` - in any statement list of any function."""
    done = 0
    for holder in ast.walk(tree):
        for fld in ("body", "orelse", "finalbody"):
            body = getattr(holder, fld, None)
            if not (isinstance(body, list) and body and isinstance(body[0], ast.stmt)):
                continue
            # if C: d["k"] = a  else: d["k"] = b   is   d["k"] = a if C else b
            for k_, st_ in enumerate(body):
                if isinstance(st_, ast.If) and len(st_.body) == 1 and len(st_.orelse) == 1 and all(
                        isinstance(x, ast.Assign) and len(x.targets) == 1 and isinstance(x.targets[0], ast.Subscript) and isinstance(x.targets[0].slice, ast.Constant)
                        and isinstance(x.targets[0].value, ast.Name) for x in (st_.body[0], st_.orelse[0])) \
                        and ast.dump(st_.body[0].targets[0]) == ast.dump(st_.orelse[0].targets[0]):
                    body[k_] = ast.copy_location(ast.Assign(targets=[st_.body[0].targets[0]], value=ast.copy_location(
                        ast.IfExp(test=st_.test, body=st_.body[0].value, orelse=st_.orelse[0].value), st_), lineno=st_.lineno), st_)
                    done += 1
            # d = {} ; for v in xs: d[K] = V     is     d = {K: V for v in xs}
            k_ = 0
            while k_ + 1 < len(body):
                a_, l_ = body[k_], body[k_ + 1]
                if isinstance(a_, ast.Assign) and len(a_.targets) == 1 and isinstance(a_.targets[0], ast.Name) and (
                        (isinstance(a_.value, ast.Dict) and not a_.value.keys) or
                        (isinstance(a_.value, ast.Call) and isinstance(a_.value.func, ast.Name) and a_.value.func.id == "dict" and not a_.value.args and not a_.value.keywords)) \
                        and isinstance(l_, ast.For) and not l_.orelse and len(l_.body) == 1 and isinstance(l_.body[0], ast.Assign) and len(l_.body[0].targets) == 1 \
                        and isinstance(l_.body[0].targets[0], ast.Subscript) and isinstance(l_.body[0].targets[0].value, ast.Name) \
                        and l_.body[0].targets[0].value.id == a_.targets[0].id \
                        and not any(isinstance(x, ast.Name) and x.id == a_.targets[0].id for x in ast.walk(l_.body[0].value)) \
                        and not any(isinstance(x, ast.Name) and x.id == a_.targets[0].id for x in ast.walk(l_.iter)):
                    tgt = copy.deepcopy(l_.target)
                    comp = ast.DictComp(key=l_.body[0].targets[0].slice, value=l_.body[0].value,
                                        generators=[ast.comprehension(target=tgt, iter=l_.iter, ifs=[], is_async=0)])
                    a_.value = ast.copy_location(comp, a_.value)
                    del body[k_ + 1]
                    done += 1
                k_ += 1
            # f = <table>.get ... f(k)     is     <table>.get(k)        (a bound look-up kept in a local)
            for k_, st_ in enumerate(list(body)):
                if isinstance(st_, ast.Assign) and len(st_.targets) == 1 and isinstance(st_.targets[0], ast.Name) and isinstance(st_.value, ast.Attribute) \
                        and st_.value.attr == "get" and isinstance(st_.value.value, (ast.Name, ast.DictComp, ast.Dict)):
                    fname = st_.targets[0].id
                    stores = sum(1 for x in ast.walk(holder) if isinstance(x, ast.Name) and x.id == fname and isinstance(x.ctx, ast.Store))
                    if stores != 1:
                        continue
                    if isinstance(st_.value.value, ast.Name):
                        base_name = st_.value.value.id
                        body[k_] = ast.copy_location(ast.Pass(), st_)
                    else:
                        base_name = fname + "__table"
                        body[k_] = ast.copy_location(ast.Assign(targets=[ast.Name(base_name, ast.Store())], value=st_.value.value, lineno=st_.lineno), st_)

                    class B(ast.NodeTransformer):
                        def visit_Call(self, node):
                            self.generic_visit(node)
                            if isinstance(node.func, ast.Name) and node.func.id == fname:
                                node.func = ast.copy_location(ast.Attribute(value=ast.Name(base_name, ast.Load()), attr="get", ctx=ast.Load()), node.func)
                            return node
                    for w_ in body:
                        B().visit(w_)
                    done += 1
            i = 0
            while i < len(body):
                st = body[i]
                empty = isinstance(st, ast.Assign) and len(st.targets) == 1 and isinstance(st.targets[0], ast.Name) and (
                    (isinstance(st.value, ast.Dict) and all(k is not None for k in st.value.keys)) or
                    (isinstance(st.value, ast.Call) and isinstance(st.value.func, ast.Name) and st.value.func.id == "dict" and not st.value.args and not st.value.keywords))
                if empty:
                    name = st.targets[0].id
                    keys = list(st.value.keys) if isinstance(st.value, ast.Dict) else []
                    vals = list(st.value.values) if isinstance(st.value, ast.Dict) else []
                    j = i + 1
                    while j < len(body):
                        u = body[j]
                        if isinstance(u, ast.Assign) and len(u.targets) == 1 and isinstance(u.targets[0], ast.Subscript) and isinstance(u.targets[0].value, ast.Name) \
                                and u.targets[0].value.id == name and isinstance(u.targets[0].slice, ast.Constant) \
                                and not any(isinstance(x, ast.Name) and x.id == name for x in ast.walk(u.value)) \
                                and ast.dump(u.targets[0].slice) not in {ast.dump(k) for k in keys}:
                            keys.append(u.targets[0].slice)
                            vals.append(u.value)
                            j += 1
                            continue
                        break
                    if j > i + 1:
                        st.value = ast.copy_location(ast.Dict(keys=keys, values=vals), st.value)
                        del body[i + 1:j]
                        done += 1
                i += 1
    if done:
        ast.fix_missing_locations(tree)
    return done


def inline_module(tree: ast.Module, vocab: Set[str], global_classes: Optional[Dict[str, ast.ClassDef]] = None, any_helpers: bool = True,
                  global_funcs: Optional[Dict[str, ast.FunctionDef]] = None) -> int:
    """Rewrite every function of the module in place; innermost functions first, two passes."""
    if not any_helpers and all(n.name in vocab for n in ast.walk(tree) if isinstance(n, (ast.FunctionDef, ast.AsyncFunctionDef))):
        _dicts_built_by_stores(tree)
        return 0                    # every function of the package is an anchor the rules know by name: nothing to look through
    inl = Inliner(tree, vocab, global_classes, global_funcs)
    total = 0
    for _pass in range(4):
        done = 0
        inl._nested.clear()

        def visit(fn: ast.FunctionDef, cls: Optional[str], scopes: List[ast.FunctionDef]):
            nonlocal done
            for n in ast.walk(fn):
                if isinstance(n, ast.FunctionDef) and n is not fn and Inliner._direct_child_def(fn, n):
                    visit(n, cls, scopes + [fn])
            done += inl.inline_function(fn, cls, scopes)
        for n in tree.body:
            if isinstance(n, ast.FunctionDef):
                visit(n, None, [])
            elif isinstance(n, ast.ClassDef):
                for m in n.body:
                    if isinstance(m, ast.FunctionDef):
                        visit(m, n.name, [])
        total += done
        if not done:
            break
    _dicts_built_by_stores(tree)
    # helpers of *other* modules that were looked through here: remembered on the definition (Index decides, once every module is
    # done, whether any call to them is left anywhere)
    if inl.inlined_into and (global_funcs or global_classes):
        for f_ in list((global_funcs or {}).values()) + [m_ for c_ in (global_classes or {}).values() for m_ in c_.body if isinstance(m_, ast.FunctionDef)]:
            if id(f_) in inl.inlined_into:
                f_._looked_through = True
    # a helper every remaining reference of which is its own definition has been absorbed by its callers: rules that enumerate
    # functions skip it (its statements are analysed where they run)
    if inl.inlined_into:
        remaining: Dict[str, int] = {}
        for n in ast.walk(tree):
            if isinstance(n, ast.Call):
                f = n.func
                nm = f.attr if isinstance(f, ast.Attribute) else (f.id if isinstance(f, ast.Name) else None)
                if nm:
                    remaining[nm] = remaining.get(nm, 0) + 1
            elif isinstance(n, (ast.Name, ast.Attribute)) and not isinstance(getattr(n, "ctx", None), ast.Store):
                pass
        for n in ast.walk(tree):
            if isinstance(n, ast.FunctionDef) and id(n) in inl.inlined_into and n.name not in vocab:
                # calls to the name that remain anywhere (outside the helper itself) mean some site was not inlined
                own = sum(1 for c in ast.walk(n) if isinstance(c, ast.Call) and (
                    (isinstance(c.func, ast.Attribute) and c.func.attr == n.name) or (isinstance(c.func, ast.Name) and c.func.id == n.name)))
                shadowed = set()
                for lam in ast.walk(tree):
                    if isinstance(lam, ast.Lambda) and any(a.arg == n.name for a in lam.args.args + lam.args.kwonlyargs):
                        shadowed |= {id(x) for x in ast.walk(lam.body)}
                refs = sum(1 for x in ast.walk(tree) if id(x) not in shadowed and ((isinstance(x, ast.Name) and x.id == n.name and isinstance(x.ctx, ast.Load)) or
                           (isinstance(x, ast.Attribute) and x.attr == n.name and isinstance(x.ctx, ast.Load))))
                own_refs = sum(1 for x in ast.walk(n) if (isinstance(x, ast.Name) and x.id == n.name and isinstance(x.ctx, ast.Load)) or
                               (isinstance(x, ast.Attribute) and x.attr == n.name and isinstance(x.ctx, ast.Load)))
                if refs - own_refs == 0:
                    n._absorbed = True
    return total
