"""Claim texts for MANIFEST.json (tools/gen_manifest.py writes the file)."""

REPO_FIX_COMMITS = ["d6b93bf (C15)", "bf9879b (C18)", "00db926 (C17)"]

_PENDING = "checker for this property is not built yet in this round (see DESIGN.md section 3 for the planned rule)"

CLAIMS = {
    "C15": dict(
        technique="route-table x decorator who-must-be-gated rule + CFG dominance dataflow on the token gate",
        design_ref="DESIGN.md 3/C15",
        text="Decides, for every URL rule registered anywhere in the package (21 today, and any added later by the "
             "recognised idioms; an unrecognised registration mechanism fails closed), that a non-public path is bound to a "
             "method wrapped by the token gate; and on the CFG of the gate that, with a token configured, the handler is "
             "reachable only through the equality branch of the comparison with the configured token, that nothing before "
             "the decision has an effect (call allow-list, stores to locals only), that every refusal returns a constant "
             "status >= 400 and that the compared value covers the Bearer scheme and the whole credential. This is a "
             "universal statement over the route table, which the suite (that never sends a wrong token) cannot make; it "
             "is a structural decision, not an execution of requests.",
        note="Trusted: Flask dispatches only to the registered view function; functools.wraps; CPython ast. Not decided: "
             "Flask's automatic OPTIONS/HEAD answers, timing side channels, what a user-supplied bptk factory does."),
    "C17": dict(
        technique="normal-form match of the expiry comparison + must-pass-through dataflow (touch/sweep/restore) on handler CFGs",
        design_ref="DESIGN.md 3/C17",
        text="Decides the timeout mechanism, not durations: the expiry test is now >= last + timedelta(**own timeout) "
             "(linear normal form, so re-arrangements are accepted and '>' or '-' are named deviations), the expiry branch "
             "destroys before it removes, every instance-scoped handler touches the timestamp, triggers the sweep and "
             "restores lazily on every serving path (path-sensitive in the response status), metrics and creation sweep, "
             "the seven timedelta units are each wired to their own input key, restored fields are not cross-wired.",
        note="Trusted: datetime arithmetic. Not decided: real-time behaviour, clock resolution, what bptk.destroy() releases."),
    "C18": dict(
        technique="typestate (lock held / not held) may-analysis on a CFG with exceptional, finally and generator-close edges",
        design_ref="DESIGN.md 3/C18",
        text="Decides four structural clauses: every lock() is followed by unlock() on every exit kind of the function "
             "(return, uncaught exception, generator closed at any yield), every run_step call in a server function is made "
             "with the lock held, acquisition is not an is_locked()...lock() check-then-act pair, and a persisted session "
             "state is a deep copy whose lock flag was cleared on every path to the InstanceState constructor. Three of "
             "these fail on the current tree by design of the server (run-step takes no lock; both multi-step handlers "
             "acquire non-atomically); they are listed as known findings with their reproducing schedules.",
        note="Trusted: bptk.lock/unlock/is_locked cannot raise (checked structurally each run); werkzeug closes an abandoned "
             "response generator. Not decided: exhaustive schedules (that is model checking), clock-vs-steps accounting."),
}

NOT_APPLICABLE = {p: _PENDING for p in
                  ["C01", "C02", "C03", "C04", "C05", "C06", "C07", "C08", "C09", "C10", "C11", "C12", "C13", "C14",
                   "C16", "C19", "C20"]}
