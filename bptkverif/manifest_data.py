"""Claim texts for MANIFEST.json (tools/gen_manifest.py writes the file)."""

REPO_FIX_COMMITS = ["d6b93bf (C15)", "bf9879b (C18)", "00db926 (C17)", "69cf7c1 (C14)", "6437988 (C11)", "98f4235 (C11)", "997be27 (C12)", "fbe6454 (C02)", "17a33b1 (C01)", "bcface1 (C01)", "7c09e08 (C08)", "d75f5c1 (C05)", "66c726b (C05,C09)", "cd30f54 (C06)", "a1bd023 (C06)", "41fa818 (C07)", "9927cea (C07)", "4b8e704 (C07)", "3f4bb24 (C19)", "303540a (C20)", "57b784c (C09)", "4002539 (C03)", "4635a16 (C04,C05)", "95a90b5 (C04)", "e6a6563 (C20)"]

_PENDING = "checker for this property is not built yet in this round (see DESIGN.md section 3 for the planned rule)"

CLAIMS = {
    "C15": dict(
        technique="route-table x decorator who-must-be-gated rule + CFG dominance dataflow on the token gate",
        design_ref="DESIGN.md 3/C15",
        text="Decides, for every URL rule registered anywhere in the package (21 today, and any added later by the "
             "recognised idioms; an unrecognised registration mechanism fails closed), that a non-public path is bound to a "
             "method wrapped by the token gate; and on the CFG of the gate that, with a token configured, the handler is "
             "reachable only through the equality branch of the comparison with the configured token, that nothing before "
             "the decision has an effect (call allow-list, stores to locals only), that every refusal returns a constant "
             "status >= 400 and that the compared value covers the Bearer scheme and the whole credential. This is a "
             "universal statement over the route table, which the suite (that never sends a wrong token) cannot make; it "
             "is a structural decision, not an execution of requests.",
        note="Trusted: Flask dispatches only to the registered view function; functools.wraps; CPython ast. Not decided: "
             "Flask's automatic OPTIONS/HEAD answers, timing side channels, what a user-supplied bptk factory does."),
    "C17": dict(
        technique="normal-form match of the expiry comparison + must-pass-through dataflow (touch/sweep/restore) on handler CFGs",
        design_ref="DESIGN.md 3/C17",
        text="Decides the timeout mechanism, not durations: the expiry test is now >= last + timedelta(**own timeout) "
             "(linear normal form, so re-arrangements are accepted and '>' or '-' are named deviations), the expiry branch "
             "destroys before it removes, every instance-scoped handler touches the timestamp, triggers the sweep and "
             "restores lazily on every serving path (path-sensitive in the response status), metrics and creation sweep, "
             "the seven timedelta units are each wired to their own input key, restored fields are not cross-wired.",
        note="Trusted: datetime arithmetic. Not decided: real-time behaviour, clock resolution, what bptk.destroy() releases."),
    "C18": dict(
        technique="typestate (lock held / not held) may-analysis on a CFG with exceptional, finally and generator-close edges",
        design_ref="DESIGN.md 3/C18",
        text="Decides four structural clauses: every lock() is followed by unlock() on every exit kind of the function "
             "(return, uncaught exception, generator closed at any yield), every run_step call in a server function is made "
             "with the lock held, acquisition is not an is_locked()...lock() check-then-act pair, and a persisted session "
             "state is a deep copy whose lock flag was cleared on every path to the InstanceState constructor. Three of "
             "these fail on the current tree by design of the server (run-step takes no lock; both multi-step handlers "
             "acquire non-atomically); they are listed as known findings with their reproducing schedules.",
        note="Trusted: bptk.lock/unlock/is_locked cannot raise (checked structurally each run); werkzeug closes an abandoned "
             "response generator. Not decided: exhaustive schedules (that is model checking), clock-vs-steps accounting."),
}

CLAIMS.update({
    "C11": dict(
        technique="kind dataflow (agent id vs list position) + LIFO/FIFO stage parity + delivered-xor-parked CFG rule",
        design_ref="DESIGN.md 3/C11",
        text="Decides the structure of the event pipeline for every history at once: the delivery site addresses the receiver "
             "through an id-keyed lookup whose miss (dead id) is filtered, never through a position in the agent list; the "
             "number of order-reversing stages between enqueue_event and the handler is even on the direct path and on the "
             "delayed-event cycle; handle_delayed_event parks xor returns on every path and the distribution loop delivers "
             "only what it returned; parked events are re-enqueued after the agent loop and the park list is reset; the inbox "
             "is emptied on every normal exit of handle_events (fails today: known finding).",
        note="Not decided: ceil(delay/dt) under the float countdown of DelayedEvent.delay; what user handlers do. Trusted: "
             "list.append/pop semantics."),
    "C12": dict(
        technique="normal-form match of loop bounds + phase-order dataflow on the CFG of run_step + int-kind rule at range()",
        design_ref="DESIGN.md 3/C12",
        text="Decides that run() is range(start, stop+1) x range(round(1/dt)) with exactly one run_step per iteration wired to "
             "the two loop variables and integer-kinded range arguments, that on every path of run_step the phases come in the "
             "order distribute < begin_round < (handle_events < act, once each, agents in list order) < end_round < collect, "
             "that every callback receives time = round + step*dt, that the no-collection predicate equals the last values "
             "of the two loops (symbolic comparison of bounds), and that Model.run/run_step delegate unchanged.",
        note="Not decided: user callbacks, HybridRunner thread scheduling, round(1/dt) for non-reciprocal dt."),
    "C13": dict(
        technique="access-path normal form of every store into the statistics table (fold-shape matching)",
        design_ref="DESIGN.md 3/C13",
        text="Decides the fold structure of collect_agent_statistics: one count increment per agent outside the property loop, "
             "total += value from 0, min/max folded with the like-named builtin (or the equivalent comparison form) from their "
             "own previous cell with the first value taken from the data, mean = total/count of the same cell after both were "
             "updated, per-time reset; HybridRunner reads exactly the written keys, each aggregate branch stores under its own "
             "key, empty states are zero-filled. A restructuring the matcher does not recognise is an ANALYSIS-ERROR, not a verdict. ZERO: no truth test of a numeric property value in the property loop (0 is a value).",
        note="Not decided: numeric equality on populations (float summation), pandas."),
    "C14": dict(
        technique="kind dataflow (agent id vs list position) + who-may-write rules on next_agent_id / agents / agent_type_map",
        design_ref="DESIGN.md 3/C14",
        text="Decides for every history: no subscript of the agent list in Model is indexed by an agent id (with a positive "
             "fixture, since the count is zero after the repair); next_agent_id is initialised once and otherwise only '+= 1', "
             "exactly once between the factory call (which receives it) and the append; every writer of the agent list also "
             "writes the per-type id map; delete_agents filters by id and rebuilds the id lists from the survivors; agent() "
             "compares ids and answers None; agent_count is the length of the id list.",
        note="Not decided: user agents overriding agent_type after creation; random_agents."),
})

CLAIMS.update({
    "C01": dict(
        technique="template extraction by abstract string evaluation of the DSL code generator + normal-form shape matching (R3) + time pass-through (R2) + hole-safety (R1)",
        design_ref="DESIGN.md 2.4, 3/C01",
        text="Every DSL model is an instantiation of a finite set of text templates (73 term() methods, 115 return paths, the "
             "stock/flow/converter/constant function strings). The check extracts all of them from the current source and decides, "
             "for all models at once, that the generated difference equations are explicit Euler: the stock template is "
             "'init if t <= starttime else previous(t-dt) + dt*(netflow rendered at the same t-dt)', a flow is max(0, equation at t), "
             "biflow/converter/constant shapes, every operand hole of every term() is rendered at the requested time (no str()/"
             "__str__ path, no literal t), the sweep evaluates and stores under one key, memoize evaluates/stores under the "
             "normalised key, lookup/step/delay/pulse/smooth/trend match their reference shapes, built-in templates keep compound "
             "arguments as units. It decides the shape of what is evaluated, not numeric outcomes.",
        note="Trusted: CPython's parser/eval, real arithmetic for + - * /. Not decided: numeric agreement with a reference "
             "interpreter, conditioning, interp1d, strictness of step's comparison. Known findings: Smooth/Trend adjust through a "
             "clamped flow."),
    "C02": dict(
        technique="finite hole-safety table (outer template x hole x inner rendering) decided with CPython's parser under a real-arithmetic normal form, lifted to all depths by induction",
        design_ref="DESIGN.md 2.4 R1, 3/C02",
        text="For the property's whole vocabulary (+ - * / ** % unary minus, comparisons, If/And/Or/Not, min/max/abs/sqrt/exp/"
             "round, array aggregates, dot) every (template, operand hole, inner rendering) triple is enumerated - the table is "
             "finite - and decided: the spliced text must parse to the tree obtained by grafting the inner tree at the hole "
             "(equality under a normal form that accepts re-association of sums/products and nothing else). All triples safe "
             "implies, by induction over depth in an operator-precedence grammar, that every expression tree of every depth "
             "renders to text with the tree's value; plus operand order and operator class of every arithmetic/comparison "
             "dunder on Element and Operator. Closest to a proof of the grouping clause; level 'other' because the induction "
             "step is an argument in DESIGN.md, not a machine-checked one.",
        note="Trusted: CPython's parser; locality of precedence (induction step); real-number semantics. Not decided: that eval "
             "computes ordinary arithmetic; values near discontinuities; float re-association error."),
})

CLAIMS.update({
    "C10": dict(
        technique="template extraction + hole-safety/time/operator-identity rules on arrayed paths; sibling comparison of the dot operator's two case tables; index-pattern matching of the summation loops",
        design_ref="DESIGN.md 3/C10",
        text="Decides for all shapes at once (the generator has one template per case, not per shape): every arrayed return path "
             "of + - * /, scalar multiply, dot and the aggregates is hole-safe, passes the time through and computes its class's "
             "reference expression; both operands of an element-wise operator walk the operator's own index; "
             "DotOperator.resolve_dimensions - the acceptance gate - raises on each of the four shape mismatches and on value.value "
             "and answers numpy's result shape per case, and term()'s guards agree with it; the five summation loops have the index "
             "patterns A[k]B[k], A[k]B[k][j], A[i][k]B[k], A[i][k]B[k][j] over the shared dimension under their own case tests; "
             "aggregate classes map to np.mean/np.median/np.std, '+'/'*' joins, descending rank, vector_size; Element.arr_* build "
             "the like-named operator.",
        note="Not decided: element values against numpy (numeric), numpy itself, named-index cloning (Element._handle_arrayed's "
             "dispatch is read only through the operators it calls)."),
})

CLAIMS.update({
    "C05": dict(
        technique="kind dataflow (raw vs normalised time) from every time-advance expression to its sink + sibling agreement of the two normalisation sites",
        design_ref="DESIGN.md 2.5, 3/C05",
        text="Discovers every time-advance expression (time +/- dt) in the SD engine and follows it to its consumer: it must pass "
             "through normalize() before it becomes a range bound, a dictionary key, the stored session clock or a comparison "
             "operand; every range over the grid is inclusive up to a plain stop time; timerange and Model.memoize normalise with "
             "the same (base=dt, offset=start, precision=max(scale(start), scale(dt))); the memo is probed, evaluated and filled "
             "under the normalised key; result rows and session logs are keyed by the range variable / the step being run; a "
             "session step simulates exactly [step, step]; time comparisons inside generated text must not use raw differences "
             "(fails for Delay: known finding).",
        note="Not decided: that normalize()/precision_and_scale round correctly for every (start, dt, i) - float arithmetic on "
             "runtime values; labels of agent-based runs."),
    "C06": dict(
        technique="field-sensitive alias/ownership analysis of scenario construction x in-place mutators among the scenario operations",
        design_ref="DESIGN.md 2.6, 3/C06",
        text="Decides for every operation history: no table of a scenario model's result-relevant state (equations, memo, points, "
             "constants, stocks, flows, biflows, converters, functions, fn) is shared by reference with the source model and written "
             "in place by a scenario operation (16 operations from registration to REST settings); settings are merged into model "
             "tables, never substituted; every registered scenario gets its own clone made inside the loop; hybrid managers deep-copy "
             "or construct per scenario; mutable default arguments that are stored and written in place are passed explicitly at every "
             "in-package construction.",
        note="Not decided: equality with a freshly built model (numeric); aliasing introduced by callers; the shared _elements tables "
             "(written only by the modelling API, a note)."),
    "C07": dict(
        technique="key-table and attribute def-use agreement per (setting kind x delivery channel); sibling comparison of runners and of base-value merging; binding-time rule on templates",
        design_ref="DESIGN.md 2.7, 3/C07",
        text="Decides the product space kind x channel structurally: each of registration, session settings, REST settings and per-step "
             "settings reads each setting key and stores it into the same-named field (no cross-wiring, no missing kind); both runners "
             "apply constants, points and run specs, wired name to name, before start(); change_runspecs writes exactly starttime/"
             "stoptime/dt and every written attribute has a reader; add_scenarios and load_scenarios merge base values with overrides "
             "winning; run specs from a scenario file are not overwritten unconditionally at instantiation; no run-spec number is "
             "spliced into equation text at build time. OLDSPEC: no condition of a settings channel reads a run spec the same call is about to replace.",
        note="Not decided: numeric equality with a directly built model; XMILE models' own run-spec handling."),
    "C08": dict(
        technique="must-call dataflow on the CFG of every definition-changing member + shape of the cache resets + lockset rule for worker threads",
        design_ref="DESIGN.md 3/C08",
        text="Decides: every SD-DSL member that recompiles an element's function calls model.reset_cache() on every path; both cache "
             "resets empty every memo entry and the scenario reset drops the live simulation; REST settings and begin_session reset a "
             "scenario's cache before/after re-parameterising it; a table probed and later filled by code reachable from a Thread "
             "target started in a loop over one shared object is accessed under a lock (fails for Model.memoize: known finding, with the "
             "reproducing stochastic model). DROP: a definition setter leaves early only when the new definition provably is the old one (no overloaded == on a stored element).",
        note="Not decided: actual interleavings (model checking), numeric equality with a fresh model, direct edits of model.equations."),
})

CLAIMS.update({
    "C09": dict(
        technique="def-use dependence of the session run specs on scenario attributes + ordering rules on the step path + single-series-expression rule + handler pass-through rule + session key agreement",
        design_ref="DESIGN.md 3/C09",
        text="Decides the structural conditions under which the channels can agree: the session's start/stop/dt are data-dependent on "
             "the selected scenarios' own attributes and the clock starts at the session start; run_step simulates, logs under the "
             "pre-advance step, then advances (normalised, shared with C05) and serves the stop time inclusive; the runner applies step "
             "settings before start(), keeps the live simulation, simulates exactly [step, step]; session_results re-indexes exactly what "
             "was logged; the dataframe, dict and JSON values are all df[equation] of the scenario's result frame; the five stepping/"
             "result handlers pass what run_scenarios/run_step/session_results return through a serialiser untouched; every "
             "session_state key read in bptk.py or the server is written by begin_session. SKIPKEY: a step setting is skipped on a record that outlives the call only if the record is keyed by manager and scenario.",
        note="Not decided: value equality across channels; json/jsonpickle float fidelity."),
    "C16": dict(
        technique="ownership analysis: provenance of instance records, own-id argument rule, who-may-touch rule for the shared bptk, statics rule",
        design_ref="DESIGN.md 3/C16",
        text="Decides that every instance record holds a bptk object made by a fresh factory call for that record and stored under its "
             "own id; all 12 instance-manager/adapter calls in the nine instance-scoped handlers (and their nested generator) are made with "
             "the handler's own instance_uuid, none touches the server's shared bptk or the instance table directly; stop removes only the "
             "addressed id; no class-level mutable exists on the session path, module-level objects are written only at construction "
             "(frozen allow-list with reasons), mutable default arguments of the session API are not written into.",
        note="Not decided: what a user's factory shares between its products; interleavings inside one request."),
    "C19": dict(
        technique="def-use of the step key through (de)compression + nullability of logged values + record key/path agreement + wiring of (de)compressors and InstanceState fields",
        design_ref="DESIGN.md 3/C19",
        text="Decides: the step key flows into what compress_* emits and is taken from the input by decompress_* (fails by design of the "
             "format: four known findings); every value run_step can log as settings is accepted by compress_settings; FileAdapter reads "
             "only keys it writes, fills each from the like-named field, builds one path expression for save/load/delete; each adapter "
             "entry point applies the matching (de)compressor to the matching log under the compress flag; InstanceState is built in its "
             "declared field order at both sites; the whole session state is deep-copied out and installed back unfiltered; stepping "
             "handlers save after stepping.",
        note="Not decided: jsonpickle fidelity; equality of served results before/after."),
    "C20": dict(
        technique="write-then-rename shape rule + None-producer vs dereferencing-consumer contradiction rule + call-graph reachability of a settings replay + handler coverage in thread targets",
        design_ref="DESIGN.md 3/C20",
        text="Decides four necessary conditions of crash tolerance: atomic replacement of the state file, filtering of unreadable files "
             "before every consumer of load_state() (repaired), a path from the restore entry to a replay of settings/settings_log, and "
             "that a failing equation in a worker thread is reported or detected. Three of them fail on the current tree and are known "
             "findings with reproducing histories; the check still reports any *other* consumer, writer or handler that breaks them.",
        note="Not decided: equality of continued values; crash timing, OS buffering."),
})

CLAIMS.update({
    "C03": dict(
        technique="template extraction from the XMILE->Python generator + token-order flattening argument + pairwise precedence comparison decided by CPython's parser + hole-safety of built-in templates and plugin-built IR literals",
        design_ref="DESIGN.md 2.4, 3/C03, Appendix A.1",
        text="Decides for every program of the supported grammar: every operator spelling the PEG grammar can emit has a py.operators "
             "entry that maps to the reference Python token as exactly 'L <op> R' (operands in source order, no parentheses), so the "
             "emitted text is the source token sequence with operators renamed whatever the right-nested IR looks like; for all 148 "
             "ordered operator pairs Python's grouping of the renamed tokens is compared with XMILE's precedence/associativity table "
             "(one class of mismatch, chained comparisons, is a known finding); every IR operator literal built by the stock/"
             "non-negative plugins keeps its grouping when flattened; every argument hole of every extractable built-in (77) is "
             "safe against a flat infix argument of each operator class and every built-in rendering is self-delimiting as an operand; "
             "the 17 deterministic numeric built-ins match reference shapes; unknown operators raise (unknown functions do not: known "
             "finding); every identifier/label/function/entity/flow/connect name stored into the IR goes through sanitizeName.",
        note="Trusted: CPython's parser; the XMILE 1.0 operator table encoded in the checker. Not decided: sanitizeName as a function "
             "over strings; stochastic distributions; array built-ins and array expansion; the handful of built-ins the extractor "
             "cannot evaluate (listed per run in the evidence)."),
    "C04": dict(
        technique="normal-form match of the stock IR literal and of the rendered stock text + stdlib re.sub applied to extracted regex constants and templates + sibling comparison with the DSL integrator and lookup + time-kind rule on the generated class",
        design_ref="DESIGN.md 3/C04",
        text="Decides: the stock IR literal is IF(TIME<=STARTTIME, init, PREVIOUS(self)+DT*PREVIOUS(net)) with the four net-flow forms; "
             "previous() - two regex rewrites whose constants are read from the source - moves every memo lookup of the extracted "
             "identifier template to t-self.dt; the rendered stock equals the DSL stock's normal form; non-negative flows are wrapped in "
             "max(0, .); LERP and Model._lookup have the same clamps and linear interpolation; the generated class takes dt/start/stop "
             "from their own spec fields and keys its memo on a rounded time (the 'any dt' clause, repaired). DTEXACT: the dt of the run specs is the <dt> tag's number or its exact reciprocal (backward slice of parse_xmile).",
        note="Not decided: trajectories; Stella compatibility of built-ins; arrayed stocks. The Jinja template is parsed method by "
             "method after tag stripping; __init__ is read as text for the three run-spec lines."),
})

NOT_APPLICABLE = {}
