"""Shared helpers for the path rules."""
from __future__ import annotations

import ast
from typing import Dict, Iterable, List, Optional, Set, Tuple

from .core import (AnalysisError, FuncInfo, Index, call_name, call_recv, const_str, dotted,
                   iter_calls, src, walk_no_nested)


def implied(test: ast.AST, outcome: bool) -> List[Tuple[ast.AST, bool]]:
    """Atoms whose truth value is implied when *test* evaluates to *outcome*.
    ``not`` flips, ``and``-true and ``or``-false distribute; nothing is implied
    by ``and``-false / ``or``-true."""
    if isinstance(test, ast.UnaryOp) and isinstance(test.op, ast.Not):
        return implied(test.operand, not outcome)
    if isinstance(test, ast.BoolOp):
        if isinstance(test.op, ast.And) and outcome:
            out = []
            for v in test.values:
                out += implied(v, True)
            return out
        if isinstance(test.op, ast.Or) and not outcome:
            out = []
            for v in test.values:
                out += implied(v, False)
            return out
        return []
    if isinstance(test, ast.Compare) and len(test.ops) == 1:
        op = test.ops[0]
        flip = {ast.NotEq: ast.Eq, ast.IsNot: ast.Is, ast.NotIn: ast.In}
        for neg, pos in flip.items():
            if isinstance(op, neg):
                pos_cmp = ast.Compare(left=test.left, ops=[pos()], comparators=test.comparators)
                ast.copy_location(pos_cmp, test)
                return [(pos_cmp, not outcome)]
    return [(test, outcome)]


def const_int(node: ast.AST) -> Optional[int]:
    if isinstance(node, ast.Constant) and isinstance(node.value, int) and not isinstance(node.value, bool):
        return node.value
    return None


def make_response_status(call: ast.AST) -> Optional[int]:
    """Status of make_response(body, status) / Response(body, status=..) when constant."""
    if not isinstance(call, ast.Call):
        return None
    n = call_name(call)
    if n == "make_response":
        if len(call.args) >= 2:
            return const_int(call.args[1])
        if len(call.args) == 1:
            return 200
    if n in ("Response",):
        for k in call.keywords:
            if k.arg == "status":
                return const_int(k.value)
        if len(call.args) >= 2:
            return const_int(call.args[1])
        return 200
    if n == "abort" and call.args:
        return const_int(call.args[0])
    return None


def is_none_or_false(node: Optional[ast.AST]) -> bool:
    return node is None or (isinstance(node, ast.Constant) and (node.value is None or node.value is False))


def stores_in(node: ast.AST) -> List[ast.AST]:
    """All store targets (Name/Attribute/Subscript) in simple/aug assignments below node."""
    out = []
    for n in walk_no_nested(node):
        if isinstance(n, ast.Assign):
            for t in n.targets:
                out += _flatten_target(t)
        elif isinstance(n, (ast.AugAssign, ast.AnnAssign)):
            out += _flatten_target(n.target)
        elif isinstance(n, ast.Delete):
            for t in n.targets:
                out += _flatten_target(t)
        elif isinstance(n, (ast.For,)):
            out += _flatten_target(n.target)
    return out


def _flatten_target(t: ast.AST) -> List[ast.AST]:
    if isinstance(t, (ast.Tuple, ast.List)):
        out = []
        for e in t.elts:
            out += _flatten_target(e)
        return out
    if isinstance(t, ast.Starred):
        return _flatten_target(t.value)
    return [t]


def single_assignments(fn: ast.AST) -> Dict[str, List[ast.AST]]:
    """local name -> list of assigned value expressions (simple Assign only)."""
    out: Dict[str, List[ast.AST]] = {}
    for n in walk_no_nested(fn):
        if isinstance(n, ast.Assign):
            for t in n.targets:
                if isinstance(t, ast.Name):
                    out.setdefault(t.id, []).append(n.value)
        elif isinstance(n, ast.AnnAssign) and isinstance(n.target, ast.Name) and n.value is not None:
            out.setdefault(n.target.id, []).append(n.value)
    return out


def names_in(node: ast.AST) -> Set[str]:
    return {n.id for n in ast.walk(node) if isinstance(n, ast.Name)}


def str_consts_in(node: ast.AST) -> List[str]:
    return [n.value for n in ast.walk(node) if isinstance(n, ast.Constant) and isinstance(n.value, str)]


def method_calls(fn: ast.AST, name: str) -> List[ast.Call]:
    return [c for c in iter_calls(fn) if call_name(c) == name]


def params(fn: ast.FunctionDef) -> List[str]:
    a = fn.args
    return [x.arg for x in a.posonlyargs + a.args + a.kwonlyargs]


IMMEDIATE_CONSUMERS = {"sorted", "sort", "map", "filter", "max", "min", "any", "all", "sum", "reduce", "apply", "applymap", "next"}


def late_bound_closures(fn: ast.AST) -> List[tuple]:
    """Closures (lambda / nested def) created inside a loop that read a variable the loop rebinds, and that escape the iteration
    (passed on or stored, not consumed on the spot).  Python closures capture variables, not values: after the loop every such closure
    sees the value of the *last* iteration.  Returns (closure node, loop node, sorted captured names)."""
    out = []
    for lp in ast.walk(fn):
        if not isinstance(lp, (ast.For, ast.While)):
            continue
        rebound: Set[str] = set()
        if isinstance(lp, ast.For):
            rebound |= {x.id for x in ast.walk(lp.target) if isinstance(x, ast.Name)}
        for st in lp.body:
            for x in ast.walk(st):
                if isinstance(x, ast.Name) and isinstance(x.ctx, ast.Store):
                    rebound.add(x.id)
        parents = {}
        for st in lp.body:
            for p in ast.walk(st):
                for c in ast.iter_child_nodes(p):
                    parents[id(c)] = p
        for st in lp.body:
            for c in ast.walk(st):
                if not isinstance(c, (ast.Lambda, ast.FunctionDef)):
                    continue
                a = c.args
                own = {x.arg for x in a.posonlyargs + a.args + a.kwonlyargs}
                if a.vararg:
                    own.add(a.vararg.arg)
                if a.kwarg:
                    own.add(a.kwarg.arg)
                body = [c.body] if isinstance(c, ast.Lambda) else c.body
                own |= {x.id for b in body for x in ast.walk(b) if isinstance(x, ast.Name) and isinstance(x.ctx, ast.Store)}
                free = {x.id for b in body for x in ast.walk(b) if isinstance(x, ast.Name) and isinstance(x.ctx, ast.Load)} - own
                cap = sorted(free & rebound)
                if not cap:
                    continue
                if isinstance(c, ast.Lambda):
                    par = parents.get(id(c))
                    if isinstance(par, ast.keyword):
                        par = parents.get(id(par))
                    if isinstance(par, ast.Call):
                        nm = par.func.attr if isinstance(par.func, ast.Attribute) else (par.func.id if isinstance(par.func, ast.Name) else "")
                        if par.func is c or nm in IMMEDIATE_CONSUMERS:
                            continue
                out.append((c, lp, cap))
    return out


def closure_rule(idx, res, rule: str, targets) -> int:
    """Shared by C07 and C09: a setting applied through a closure created in the loop over the settings must bind the *value*."""
    n = 0
    for rel, qual in targets:
        fi = idx.func(rel, qual)
        n += 1
        found = late_bound_closures(fi.node)
        c, lp, cap = found[0] if found else (None, None, [])
        res.check(rule, "%s: no closure over a loop variable escapes the iteration" % qual, not found, fi.loc(c) if c is not None else fi.loc(), fi.qual,
                  ast.unparse(c)[:80] if c is not None else "",
                  "%s creates `%s` inside a loop and hands it on; the closure captures the variable %s, not its value, so once the loop has "
                  "finished every such closure yields the value of the last iteration - with two or more settings all of them take the last value"
                  % (qual, ast.unparse(c)[:60] if c is not None else "", "/".join(cap)), key="%s/%s/late-bound-%s" % (rule, qual, "+".join(cap)))
    return n


def stale_loop_reads(fn: ast.AST, qual: str, loop: ast.For) -> List[tuple]:
    """Reads, inside one iteration of *loop*, of a local that the loop body assigns but that has not been assigned yet in *this*
    iteration on some path: the value read is the one a previous iteration (another scenario) left behind.  Accumulators (locals
    whose in-loop assignments read themselves, augmented assignments) are exempt.  Returns (variable, reading node, witness)."""
    from .cfg import Flow, build_cfg
    cfg = build_cfg(fn, qual)
    loopnode = next((n for n in cfg.nodes if n.kind == "iter" and n.ast is loop), None)
    if loopnode is None:
        return []
    comp_bound: Set[int] = set()
    for b in loop.body:
        for c in ast.walk(b):
            if isinstance(c, (ast.ListComp, ast.SetComp, ast.DictComp, ast.GeneratorExp, ast.Lambda, ast.FunctionDef)):
                for x in ast.walk(c):
                    comp_bound.add(id(x))
    assigned: Set[str] = set()
    accum: Set[str] = set()
    for b in loop.body:
        for st in ast.walk(b):
            if id(st) in comp_bound:
                continue
            if isinstance(st, ast.AugAssign) and isinstance(st.target, ast.Name):
                accum.add(st.target.id)
            if isinstance(st, ast.Assign):
                tn = {x.id for t in st.targets for x in ast.walk(t) if isinstance(x, ast.Name) and isinstance(x.ctx, ast.Store)}
                rn = {x.id for x in ast.walk(st.value) if isinstance(x, ast.Name)}
                accum |= tn & rn
            if isinstance(st, ast.Name) and isinstance(st.ctx, ast.Store):
                assigned.add(st.id)
            if isinstance(st, ast.ExceptHandler) and st.name:
                accum.add(st.name)          # bound on entry to the handler, on every path into it
    own_targets = {x.id for x in ast.walk(loop.target) if isinstance(x, ast.Name)}
    out = []
    for var in sorted(assigned - accum - own_targets):
        hits = []

        def rw(node, label):
            a = node.ast
            if a is None or node.kind == "def":
                return False, False
            if node.kind == "iter":
                reads = any(isinstance(x, ast.Name) and x.id == var for x in ast.walk(a.iter))
                stores = label == "loop" and any(isinstance(x, ast.Name) and x.id == var for x in ast.walk(a.target))
                return reads, stores
            if node.kind == "with":
                reads = any(isinstance(x, ast.Name) and x.id == var and isinstance(x.ctx, ast.Load) for i in a.items for x in ast.walk(i.context_expr))
                stores = any(isinstance(x, ast.Name) and x.id == var for i in a.items if i.optional_vars is not None for x in ast.walk(i.optional_vars))
                return reads, stores
            if node.kind == "handler":
                return False, getattr(a, "name", None) == var
            if node.kind in ("stmt", "test"):
                reads = any(isinstance(x, ast.Name) and x.id == var and isinstance(x.ctx, ast.Load) and id(x) not in comp_bound for x in ast.walk(a))
                stores = any(isinstance(x, ast.Name) and x.id == var and isinstance(x.ctx, ast.Store) and id(x) not in comp_bound for x in ast.walk(a))
                return reads, stores
            return False, False

        def tr(node, fact, label):
            if node is loopnode:
                return ["stale"] if label == "loop" else ["out"]
            reads, stores = rw(node, label)
            if fact == "stale" and reads:
                hits.append(node)
            if stores and label != "exc":
                return ["fresh"]
            return [fact]
        flow = Flow(cfg, ["out"], tr)
        seen = set()
        for nd in hits:
            if nd.id not in seen:
                seen.add(nd.id)
                out.append((var, nd, flow.witness(nd.id, "stale")))
    return out
