"""Shared helpers for the path rules."""
from __future__ import annotations

import ast
from typing import Dict, Iterable, List, Optional, Set, Tuple

from .core import (AnalysisError, FuncInfo, Index, call_name, call_recv, const_str, dotted,
                   iter_calls, src, walk_no_nested)


def implied(test: ast.AST, outcome: bool) -> List[Tuple[ast.AST, bool]]:
    """Atoms whose truth value is implied when *test* evaluates to *outcome*.
    ``not`` flips, ``and``-true and ``or``-false distribute; nothing is implied
    by ``and``-false / ``or``-true."""
    if isinstance(test, ast.UnaryOp) and isinstance(test.op, ast.Not):
        return implied(test.operand, not outcome)
    if isinstance(test, ast.BoolOp):
        if isinstance(test.op, ast.And) and outcome:
            out = []
            for v in test.values:
                out += implied(v, True)
            return out
        if isinstance(test.op, ast.Or) and not outcome:
            out = []
            for v in test.values:
                out += implied(v, False)
            return out
        return []
    if isinstance(test, ast.Compare) and len(test.ops) == 1:
        op = test.ops[0]
        flip = {ast.NotEq: ast.Eq, ast.IsNot: ast.Is, ast.NotIn: ast.In}
        for neg, pos in flip.items():
            if isinstance(op, neg):
                pos_cmp = ast.Compare(left=test.left, ops=[pos()], comparators=test.comparators)
                ast.copy_location(pos_cmp, test)
                return [(pos_cmp, not outcome)]
    return [(test, outcome)]


def const_int(node: ast.AST) -> Optional[int]:
    if isinstance(node, ast.Constant) and isinstance(node.value, int) and not isinstance(node.value, bool):
        return node.value
    return None


def make_response_status(call: ast.AST) -> Optional[int]:
    """Status of make_response(body, status) / Response(body, status=..) when constant."""
    if not isinstance(call, ast.Call):
        return None
    n = call_name(call)
    if n == "make_response":
        if len(call.args) >= 2:
            return const_int(call.args[1])
        if len(call.args) == 1:
            return 200
    if n in ("Response",):
        for k in call.keywords:
            if k.arg == "status":
                return const_int(k.value)
        if len(call.args) >= 2:
            return const_int(call.args[1])
        return 200
    if n == "abort" and call.args:
        return const_int(call.args[0])
    return None


def is_none_or_false(node: Optional[ast.AST]) -> bool:
    return node is None or (isinstance(node, ast.Constant) and (node.value is None or node.value is False))


def stores_in(node: ast.AST) -> List[ast.AST]:
    """All store targets (Name/Attribute/Subscript) in simple/aug assignments below node."""
    out = []
    for n in walk_no_nested(node):
        if isinstance(n, ast.Assign):
            for t in n.targets:
                out += _flatten_target(t)
        elif isinstance(n, (ast.AugAssign, ast.AnnAssign)):
            out += _flatten_target(n.target)
        elif isinstance(n, ast.Delete):
            for t in n.targets:
                out += _flatten_target(t)
        elif isinstance(n, (ast.For,)):
            out += _flatten_target(n.target)
    return out


def _flatten_target(t: ast.AST) -> List[ast.AST]:
    if isinstance(t, (ast.Tuple, ast.List)):
        out = []
        for e in t.elts:
            out += _flatten_target(e)
        return out
    if isinstance(t, ast.Starred):
        return _flatten_target(t.value)
    return [t]


def single_assignments(fn: ast.AST) -> Dict[str, List[ast.AST]]:
    """local name -> list of assigned value expressions (simple Assign only)."""
    out: Dict[str, List[ast.AST]] = {}
    for n in walk_no_nested(fn):
        if isinstance(n, ast.Assign):
            for t in n.targets:
                if isinstance(t, ast.Name):
                    out.setdefault(t.id, []).append(n.value)
                elif isinstance(t, (ast.Tuple, ast.List)) and all(isinstance(x, ast.Name) for x in t.elts):
                    # a, b, c = X   ->   a = X[0], b = X[1], c = X[2]
                    for i, x in enumerate(t.elts):
                        if isinstance(n.value, (ast.Tuple, ast.List)) and len(n.value.elts) == len(t.elts):
                            out.setdefault(x.id, []).append(n.value.elts[i])
                        else:
                            sub = ast.Subscript(value=n.value, slice=ast.Constant(value=i), ctx=ast.Load())
                            out.setdefault(x.id, []).append(ast.copy_location(sub, n.value))
        elif isinstance(n, ast.AnnAssign) and isinstance(n.target, ast.Name) and n.value is not None:
            out.setdefault(n.target.id, []).append(n.value)
        elif isinstance(n, ast.NamedExpr) and isinstance(n.target, ast.Name):
            out.setdefault(n.target.id, []).append(n.value)
    return out


def names_in(node: ast.AST) -> Set[str]:
    return {n.id for n in ast.walk(node) if isinstance(n, ast.Name)}


def str_consts_in(node: ast.AST) -> List[str]:
    return [n.value for n in ast.walk(node) if isinstance(n, ast.Constant) and isinstance(n.value, str)]


def method_calls(fn: ast.AST, name: str) -> List[ast.Call]:
    return [c for c in iter_calls(fn) if call_name(c) == name]


def params(fn: ast.FunctionDef) -> List[str]:
    a = fn.args
    return [x.arg for x in a.posonlyargs + a.args + a.kwonlyargs]


IMMEDIATE_CONSUMERS = {"sorted", "sort", "map", "filter", "max", "min", "any", "all", "sum", "reduce", "apply", "applymap", "next"}


def late_bound_closures(fn: ast.AST) -> List[tuple]:
    """Closures (lambda / nested def) created inside a loop that read a variable the loop rebinds, and that escape the iteration
    (passed on or stored, not consumed on the spot).  Python closures capture variables, not values: after the loop every such closure
    sees the value of the *last* iteration.  Returns (closure node, loop node, sorted captured names)."""
    out = []
    for lp in ast.walk(fn):
        if not isinstance(lp, (ast.For, ast.While)):
            continue
        rebound: Set[str] = set()
        if isinstance(lp, ast.For):
            rebound |= {x.id for x in ast.walk(lp.target) if isinstance(x, ast.Name)}
        for st in lp.body:
            for x in ast.walk(st):
                if isinstance(x, ast.Name) and isinstance(x.ctx, ast.Store):
                    rebound.add(x.id)
        parents = {}
        for st in lp.body:
            for p in ast.walk(st):
                for c in ast.iter_child_nodes(p):
                    parents[id(c)] = p
        for st in lp.body:
            for c in ast.walk(st):
                if not isinstance(c, (ast.Lambda, ast.FunctionDef)):
                    continue
                a = c.args
                own = {x.arg for x in a.posonlyargs + a.args + a.kwonlyargs}
                if a.vararg:
                    own.add(a.vararg.arg)
                if a.kwarg:
                    own.add(a.kwarg.arg)
                body = [c.body] if isinstance(c, ast.Lambda) else c.body
                own |= {x.id for b in body for x in ast.walk(b) if isinstance(x, ast.Name) and isinstance(x.ctx, ast.Store)}
                free = {x.id for b in body for x in ast.walk(b) if isinstance(x, ast.Name) and isinstance(x.ctx, ast.Load)} - own
                cap = sorted(free & rebound)
                if not cap:
                    continue
                if isinstance(c, ast.Lambda):
                    par = parents.get(id(c))
                    if isinstance(par, ast.keyword):
                        par = parents.get(id(par))
                    if isinstance(par, ast.Call):
                        nm = par.func.attr if isinstance(par.func, ast.Attribute) else (par.func.id if isinstance(par.func, ast.Name) else "")
                        if par.func is c or nm in IMMEDIATE_CONSUMERS:
                            continue
                else:
                    # a nested def that is only ever called on the spot (never stored, passed on or returned) is consumed in its iteration
                    shadowed = set()
                    for st2 in lp.body:
                        for sc in ast.walk(st2):
                            if isinstance(sc, (ast.Lambda, ast.FunctionDef)) and sc is not c and any(a_.arg == c.name for a_ in sc.args.args + sc.args.kwonlyargs):
                                shadowed |= {id(x) for x in ast.walk(sc)}
                    uses = [x for st2 in lp.body for x in ast.walk(st2) if isinstance(x, ast.Name) and x.id == c.name and isinstance(x.ctx, ast.Load)
                            and id(x) not in shadowed]
                    called = [x for st2 in lp.body for x in ast.walk(st2) if isinstance(x, ast.Call) and isinstance(x.func, ast.Name) and x.func.id == c.name]
                    if len(uses) == len(called):
                        continue            # never referenced, or only ever called in place
                out.append((c, lp, cap))
    return out


def closure_sweep(idx, res, rule: str, prefixes) -> int:
    """Every function (and the module-level code) of the given files: no closure over a variable a loop rebinds escapes its iteration.
    Findings only; returns the number of code units looked at."""
    n = 0
    for rel in sorted(idx.modules):
        if not any(rel.startswith(p_) for p_ in prefixes):
            continue
        m = idx.modules[rel]
        units = [(fi.qual, fi.node, fi) for fi in m.functions.values() if "." not in fi.qual or fi.qual.count(".") == 1]
        units.append(("<module>", ast.Module(body=[st for st in m.tree.body if not isinstance(st, (ast.FunctionDef, ast.AsyncFunctionDef, ast.ClassDef))], type_ignores=[]), None))
        for qual, node, fi in units:
            n += 1
            for c, lp, cap in late_bound_closures(node):
                where = "%s:%d" % (rel, getattr(c, "lineno", 0))
                res.find(rule, "%s/%s/late-bound-%s" % (rule, qual if fi is None else fi.qual, "+".join(cap)), where, qual, ast.unparse(c)[:80],
                         "%s creates `%s` inside a loop and keeps it; the closure captures the variable %s, not its value: once the loop has finished "
                         "every such closure sees the value of the last iteration" % (qual, ast.unparse(c)[:60], "/".join(cap)))
    return n


def closure_rule(idx, res, rule: str, targets) -> int:
    """Shared by C07 and C09: a setting applied through a closure created in the loop over the settings must bind the *value*."""
    n = 0
    for rel, qual in targets:
        fi = idx.func(rel, qual)
        n += 1
        found = late_bound_closures(fi.node)
        c, lp, cap = found[0] if found else (None, None, [])
        res.check(rule, "%s: no closure over a loop variable escapes the iteration" % qual, not found, fi.loc(c) if c is not None else fi.loc(), fi.qual,
                  ast.unparse(c)[:80] if c is not None else "",
                  "%s creates `%s` inside a loop and hands it on; the closure captures the variable %s, not its value, so once the loop has "
                  "finished every such closure yields the value of the last iteration - with two or more settings all of them take the last value"
                  % (qual, ast.unparse(c)[:60] if c is not None else "", "/".join(cap)), key="%s/%s/late-bound-%s" % (rule, qual, "+".join(cap)))
    return n


def stale_loop_reads(fn: ast.AST, qual: str, loop: ast.For) -> List[tuple]:
    """Reads, inside one iteration of *loop*, of a local that the loop body assigns but that has not been assigned yet in *this*
    iteration on some path: the value read is the one a previous iteration (another scenario) left behind.  Accumulators (locals
    whose in-loop assignments read themselves, augmented assignments) are exempt.  Returns (variable, reading node, witness)."""
    from .cfg import Flow, build_cfg
    cfg = build_cfg(fn, qual)
    loopnode = next((n for n in cfg.nodes if n.kind == "iter" and n.ast is loop), None)
    if loopnode is None:
        return []
    comp_bound: Set[int] = set()
    for b in loop.body:
        for c in ast.walk(b):
            if isinstance(c, (ast.ListComp, ast.SetComp, ast.DictComp, ast.GeneratorExp, ast.Lambda, ast.FunctionDef)):
                for x in ast.walk(c):
                    comp_bound.add(id(x))
    assigned: Set[str] = set()
    accum: Set[str] = set()
    for b in loop.body:
        for st in ast.walk(b):
            if id(st) in comp_bound:
                continue
            if isinstance(st, ast.AugAssign) and isinstance(st.target, ast.Name):
                accum.add(st.target.id)
            if isinstance(st, ast.Assign):
                tn = {x.id for t in st.targets for x in ast.walk(t) if isinstance(x, ast.Name) and isinstance(x.ctx, ast.Store)}
                rn = {x.id for x in ast.walk(st.value) if isinstance(x, ast.Name)}
                accum |= tn & rn
            if isinstance(st, ast.Name) and isinstance(st.ctx, ast.Store):
                assigned.add(st.id)
            if isinstance(st, ast.ExceptHandler) and st.name:
                accum.add(st.name)          # bound on entry to the handler, on every path into it
    own_targets = {x.id for x in ast.walk(loop.target) if isinstance(x, ast.Name)}
    out = []

    def lazily_invariant(var: str) -> bool:
        """`v = <sentinel>` before the loop, `if v is <sentinel>: v = E` inside it, E reading nothing the loop binds: the value is
        computed by the first iteration that needs it and is the same for every iteration - not one scenario's value read by another."""
        sites = []
        for b in loop.body:
            for g in ast.walk(b):
                if id(g) in comp_bound:
                    continue
                if isinstance(g, ast.Name) and g.id == var and isinstance(g.ctx, ast.Store):
                    sites.append(g)
        guarded = []
        for b in loop.body:
            for g in ast.walk(b):
                if isinstance(g, ast.If) and isinstance(g.test, ast.Compare) and len(g.test.ops) == 1 and isinstance(g.test.ops[0], (ast.Is, ast.Eq)) \
                        and isinstance(g.test.left, ast.Name) and g.test.left.id == var and not g.orelse:
                    for st in g.body:
                        if isinstance(st, ast.Assign) and len(st.targets) == 1 and isinstance(st.targets[0], ast.Name) and st.targets[0].id == var:
                            rn = {x.id for x in ast.walk(st.value) if isinstance(x, ast.Name)}
                            if not rn & (assigned | own_targets):
                                guarded.append(st.targets[0])
        return bool(sites) and all(any(s_ is g_ for g_ in guarded) for s_ in sites)

    for var in sorted(assigned - accum - own_targets):
        hits = []
        if lazily_invariant(var):
            continue

        def rw(node, label):
            a = node.ast
            if a is None or node.kind == "def":
                return False, False
            if node.kind == "iter":
                reads = any(isinstance(x, ast.Name) and x.id == var for x in ast.walk(a.iter))
                stores = label == "loop" and any(isinstance(x, ast.Name) and x.id == var for x in ast.walk(a.target))
                return reads, stores
            if node.kind == "with":
                reads = any(isinstance(x, ast.Name) and x.id == var and isinstance(x.ctx, ast.Load) for i in a.items for x in ast.walk(i.context_expr))
                stores = any(isinstance(x, ast.Name) and x.id == var for i in a.items if i.optional_vars is not None for x in ast.walk(i.optional_vars))
                return reads, stores
            if node.kind == "handler":
                return False, getattr(a, "name", None) == var
            if node.kind in ("stmt", "test"):
                reads = any(isinstance(x, ast.Name) and x.id == var and isinstance(x.ctx, ast.Load) and id(x) not in comp_bound for x in ast.walk(a))
                stores = any(isinstance(x, ast.Name) and x.id == var and isinstance(x.ctx, ast.Store) and id(x) not in comp_bound for x in ast.walk(a))
                return reads, stores
            return False, False

        def tr(node, fact, label):
            if node is loopnode:
                return ["stale"] if label == "loop" else ["out"]
            reads, stores = rw(node, label)
            if fact == "stale" and reads:
                hits.append(node)
            if stores and label != "exc":
                return ["fresh"]
            return [fact]
        flow = Flow(cfg, ["out"], tr)
        seen = set()
        # correlated branches: `if C: v = ...` ... `if C: use(v)` - the read is reached only when the same condition bound v earlier in
        # this iteration (the condition's own variables are not rebound in the loop body)
        binders = []
        for b in loop.body:
            for g in ast.walk(b):
                if isinstance(g, ast.If) and any(isinstance(x, ast.Name) and x.id == var and isinstance(x.ctx, ast.Store) for st_ in g.body for x in ast.walk(st_)
                                                 if not isinstance(st_, (ast.If, ast.For, ast.While, ast.Try))):
                    tv = {x.id for x in ast.walk(g.test) if isinstance(x, ast.Name)}
                    if not tv & (assigned - own_targets):
                        binders.append(g)
        for nd in hits:
            if nd.id in seen:
                continue
            seen.add(nd.id)
            correlated = False
            for g in binders:
                for b in loop.body:
                    for h in ast.walk(b):
                        if isinstance(h, ast.If) and h is not g and ast.dump(h.test) == ast.dump(g.test) and h.lineno > g.lineno and \
                                nd.ast is not None and any(x is nd.ast for st_ in h.body for x in ast.walk(st_)):
                            correlated = True
            if not correlated:
                out.append((var, nd, flow.witness(nd.id, "stale")))
    return out


def deref(fn: ast.AST, e: ast.AST, depth: int = 3) -> ast.AST:
    """Look through a named intermediate: a local Name that *fn* assigns exactly once (plain assignment) stands for its value."""
    while depth > 0 and isinstance(e, ast.Name):
        vals = []
        other = 0
        for n in ast.walk(fn):
            if isinstance(n, ast.Assign) and len(n.targets) == 1 and isinstance(n.targets[0], ast.Name) and n.targets[0].id == e.id:
                if not (isinstance(n.value, ast.Constant) and n.value.value is None):      # `x = None` sentinel initialisation
                    vals.append(n.value)
            elif isinstance(n, ast.NamedExpr) and isinstance(n.target, ast.Name) and n.target.id == e.id:
                vals.append(n.value)                                                         # (x := E) binds like x = E
            elif isinstance(n, ast.Name) and n.id == e.id and isinstance(n.ctx, ast.Store):
                other += 1
        nstores = len([n for n in ast.walk(fn) if isinstance(n, ast.Name) and n.id == e.id and isinstance(n.ctx, ast.Store)])
        n_none = len([n for n in ast.walk(fn) if isinstance(n, ast.Assign) and len(n.targets) == 1 and isinstance(n.targets[0], ast.Name)
                      and n.targets[0].id == e.id and isinstance(n.value, ast.Constant) and n.value.value is None])
        if len(vals) != 1 or nstores != 1 + n_none:
            break
        if any(isinstance(x, ast.Name) and x.id == e.id for x in ast.walk(vals[0])):
            break                       # x = x * 1.0: a coercion of the same variable, not a named intermediate
        if isinstance(fn, (ast.FunctionDef, ast.AsyncFunctionDef)) and e.id in {a.arg for a in fn.args.posonlyargs + fn.args.args + fn.args.kwonlyargs}:
            break
        e = vals[0]
        depth -= 1
    return e


def table_row_of(fn: ast.AST, e: ast.AST) -> Optional[tuple]:
    """(table, key) when *e* denotes one row of a dict-of-dicts attribute table: ``T[k]``, ``T.setdefault(k, {})``, or a local
    alias of one of these.  T is returned as dotted text ('self.results'), k as an AST."""
    e = deref(fn, e)
    if isinstance(e, ast.Subscript):
        t = e.value
        d = _dotted(t)
        if d:
            return d, e.slice
    if isinstance(e, ast.Call) and isinstance(e.func, ast.Attribute) and e.func.attr == "setdefault" and len(e.args) == 2 \
            and isinstance(e.args[1], ast.Dict) and not e.args[1].keys:
        d = _dotted(e.func.value)
        if d:
            return d, e.args[0]
    return None


def _dotted(node: ast.AST) -> Optional[str]:
    parts = []
    while isinstance(node, ast.Attribute):
        parts.append(node.attr)
        node = node.value
    if isinstance(node, ast.Name):
        parts.append(node.id)
        return ".".join(reversed(parts))
    return None


def row_aliases(fn: ast.AST, table: str) -> Set[str]:
    """Local names every assignment of which binds one row of the attribute table *table* (``T[k]`` / ``T.setdefault(k, {})``)."""
    cands: Dict[str, List[ast.AST]] = {}
    for n in ast.walk(fn):
        if isinstance(n, ast.Assign) and len(n.targets) == 1 and isinstance(n.targets[0], ast.Name):
            cands.setdefault(n.targets[0].id, []).append(n.value)
    out = set()
    for name, vals in cands.items():
        vals = [v for v in vals if not (isinstance(v, ast.Constant) and v.value is None)]
        if vals and all(_row(v, table) for v in vals):
            out.add(name)
    return out


def _row(e: ast.AST, table: str) -> bool:
    if isinstance(e, ast.Subscript) and _dotted(e.value) == table:
        return True
    return isinstance(e, ast.Call) and isinstance(e.func, ast.Attribute) and e.func.attr in ("setdefault", "get") and _dotted(e.func.value) == table


def is_row(fn_aliases: Set[str], e: ast.AST, table: str) -> bool:
    return (isinstance(e, ast.Name) and e.id in fn_aliases) or _row(e, table)


def _is_path(e: ast.AST) -> bool:
    """Name / attribute / subscript chain with simple keys: evaluating it twice yields the same object (no calls)."""
    if isinstance(e, ast.Name):
        return True
    if isinstance(e, ast.Attribute):
        return _is_path(e.value)
    if isinstance(e, ast.Subscript):
        return _is_path(e.value) and (isinstance(e.slice, ast.Constant) or _is_path(e.slice))
    return False


def expand_aliases(fn: ast.FunctionDef) -> ast.FunctionDef:
    """A copy of *fn* in which locals that merely name a path are written out: ``row = table[k]`` ... ``row[c] += 1`` becomes
    ``table[k][c] += 1``; ``fresh = {}; table[k] = fresh`` becomes ``table[k] = {}`` with ``fresh`` read as ``table[k]``.
    Only locals stored exactly once are expanded.  For rules phrased over access paths (C13)."""
    import copy as _copy
    fn = _copy.deepcopy(fn)
    params_ = {a.arg for a in fn.args.posonlyargs + fn.args.args + fn.args.kwonlyargs}
    for _round in range(8):
        stores: Dict[str, int] = {}
        for n in ast.walk(fn):
            if isinstance(n, ast.Name) and isinstance(n.ctx, (ast.Store, ast.Del)):
                stores[n.id] = stores.get(n.id, 0) + 1
            if isinstance(n, ast.arg):
                stores[n.arg] = stores.get(n.arg, 0) + 1
        mapping: Dict[str, ast.AST] = {}
        drop: List[ast.AST] = []
        assigns = [n for n in ast.walk(fn) if isinstance(n, ast.Assign) and len(n.targets) == 1]
        for a in assigns:
            t, v = a.targets[0], a.value
            if isinstance(t, ast.Name) and stores.get(t.id) == 1 and t.id not in params_ and _is_path(v) and not isinstance(v, ast.Name):
                if not any(isinstance(x, ast.Name) and x.id == t.id for x in ast.walk(v)):
                    mapping[t.id] = v
                    drop.append(a)
                    break
            # reverse alias: L = <new object> ; ... ; T = L   (T an attribute/subscript path stored nowhere else): L is T from the start
            if isinstance(v, ast.Name) and stores.get(v.id) == 1 and v.id not in params_ and isinstance(t, (ast.Subscript, ast.Attribute)) and _is_path(t):
                defs = [d for d in assigns if isinstance(d.targets[0], ast.Name) and d.targets[0].id == v.id]
                t_text = ast.unparse(t)
                other_stores = [x for x in ast.walk(fn) if isinstance(x, (ast.Attribute, ast.Subscript)) and isinstance(x.ctx, ast.Store) and ast.unparse(x) == t_text and x is not t]
                def _root(e):
                    while isinstance(e, (ast.Attribute, ast.Subscript)):
                        e = e.value
                    return e.id if isinstance(e, ast.Name) else None
                installs = [d for d in assigns if isinstance(d.value, ast.Name) and d.value.id == v.id and not isinstance(d.targets[0], ast.Name)
                            and (_root(d.targets[0]) == "self" or _root(d.targets[0]) in params_)]
                fresh_obj = len(defs) == 1 and (isinstance(defs[0].value, ast.Call) or (isinstance(defs[0].value, (ast.Dict, ast.List)) and not (
                    defs[0].value.keys if isinstance(defs[0].value, ast.Dict) else defs[0].value.elts)))
                root = t
                while isinstance(root, (ast.Attribute, ast.Subscript)):
                    root = root.value
                rooted_at_self = isinstance(root, ast.Name) and (root.id == "self" or root.id in params_)
                direct = [d for d in installs if isinstance(d.targets[0], ast.Attribute) and isinstance(d.targets[0].value, ast.Name)]
                is_direct = isinstance(t, ast.Attribute) and isinstance(t.value, ast.Name)
                if fresh_obj and not other_stores and rooted_at_self and ((len(installs) == 1) or (is_direct and len(direct) == 1)):
                    a.value = defs[0].value
                    path = _copy.deepcopy(t)
                    for x in ast.walk(path):
                        if hasattr(x, "ctx"):
                            x.ctx = ast.Load()
                    mapping[v.id] = path
                    drop.append(defs[0])
                    break
        if not mapping:
            break

        class A(ast.NodeTransformer):
            def visit_Name(self, node):
                if node.id in mapping and isinstance(node.ctx, ast.Load):
                    new = _copy.deepcopy(mapping[node.id])
                    for x in ast.walk(new):
                        if getattr(node, "_seq", None) is not None:
                            x._seq = node._seq
                    return ast.copy_location(new, node)
                return node

            def visit_Assign(self, node):
                if any(node is d for d in drop):
                    p = ast.copy_location(ast.Pass(), node)
                    if getattr(node, "_seq", None) is not None:
                        p._seq = node._seq
                    return p
                self.generic_visit(node)
                return node
        fn = A().visit(fn)
    ast.fix_missing_locations(fn)
    return fn


def per_iteration_objects(fn: ast.AST) -> List[tuple]:
    """Collected-per-iteration rule: inside a loop an object that is *added to a collection* (``coll.append(x)``, ``coll += [x]``,
    ``coll[k] = x``) and *filled in the same loop* (``x[...] = v``, ``x.attr(...)`` mutators) must have been created in that loop
    iteration.  If the one object was created before the loop, every iteration fills the same object.  Returns
    (loop, name, creation node, add node)."""
    out = []
    creators = ("DataFrame", "dict", "list", "set", "defaultdict", "OrderedDict", "Series")
    for lp in ast.walk(fn):
        if not isinstance(lp, (ast.For, ast.While)):
            continue
        added = {}
        for n in ast.walk(lp):
            if isinstance(n, ast.Call) and isinstance(n.func, ast.Attribute) and n.func.attr in ("append", "add") and n.args and isinstance(n.args[0], ast.Name):
                added.setdefault(n.args[0].id, n)
            if isinstance(n, ast.AugAssign) and isinstance(n.op, ast.Add) and isinstance(n.value, ast.List):
                for e in n.value.elts:
                    if isinstance(e, ast.Name):
                        added.setdefault(e.id, n)
        for name, addn in added.items():
            filled = [n for n in ast.walk(lp) if isinstance(n, ast.Assign) and isinstance(n.targets[0], ast.Subscript) and isinstance(n.targets[0].value, ast.Name)
                      and n.targets[0].value.id == name]
            if not filled:
                continue
            defs = [n for n in ast.walk(fn) if isinstance(n, ast.Assign) and len(n.targets) == 1 and isinstance(n.targets[0], ast.Name) and n.targets[0].id == name]
            fresh = [d for d in defs if isinstance(d.value, (ast.Dict, ast.List, ast.Set)) or (isinstance(d.value, ast.Call) and (
                (isinstance(d.value.func, ast.Attribute) and d.value.func.attr in creators) or (isinstance(d.value.func, ast.Name) and d.value.func.id in creators)))]
            if not fresh or len(fresh) != len(defs):
                continue
            inside = [d for d in fresh if any(x is d for x in ast.walk(lp))]
            if not inside:
                # the add itself must be inside this loop but the creation outside: and the loop must be the innermost loop around the fills
                if all(any(x is f for x in ast.walk(lp)) for f in filled):
                    out.append((lp, name, fresh[0], addn))
    return out


def shared_templates(idx, rels) -> List[tuple]:
    """Module-level and class-level container literals whose values include mutable objects and that some function reads without a
    deep copy: a shallow copy (``dict(T)``, ``T.copy()``, ``{**T}``) still shares the nested objects between all users.
    Returns (FuncInfo, template name, use node, literal source, nested source)."""
    out = []
    for rel in rels:
        m = idx.modules.get(rel)
        if m is None:
            continue
        temps = []       # (owner class or None, name, literal)
        for st in m.tree.body:
            if isinstance(st, ast.Assign) and isinstance(st.targets[0], ast.Name) and isinstance(st.value, (ast.Dict, ast.List, ast.Set)):
                temps.append((None, st.targets[0].id, st.value))
            if isinstance(st, ast.ClassDef):
                for cs in st.body:
                    if isinstance(cs, ast.Assign) and isinstance(cs.targets[0], ast.Name) and isinstance(cs.value, (ast.Dict, ast.List, ast.Set)):
                        temps.append((st.name, cs.targets[0].id, cs.value))
        for owner, name, lit in temps:
            vals = lit.values if isinstance(lit, ast.Dict) else lit.elts
            nested = [v for v in vals if isinstance(v, (ast.Dict, ast.List, ast.Set))]
            if not nested:
                continue
            for fi in m.functions.values():
                for n in ast.walk(fi.node):
                    hit = False
                    if owner is None and isinstance(n, ast.Name) and n.id == name and isinstance(n.ctx, ast.Load):
                        hit = True
                    if owner is not None and isinstance(n, ast.Attribute) and n.attr == name and isinstance(n.ctx, ast.Load) and isinstance(n.value, ast.Name) \
                            and n.value.id in ("self", "cls", owner):
                        hit = True
                    if not hit:
                        continue
                    deep = any(isinstance(c, ast.Call) and call_name(c) == "deepcopy" and any(x is n for x in ast.walk(c)) for c in ast.walk(fi.node))
                    if not deep:
                        out.append((fi, (owner + "." if owner else "") + name, n, ast.unparse(lit)[:60], ", ".join(ast.unparse(v) for v in nested)[:60]))
    return out


def probe_create_mismatches(fn: ast.AST) -> List[tuple]:
    """``if k not in A: B[k] = <new container>`` with A and B different tables: the entry is (re)created whenever k is missing from the
    *other* table - either on every pass (data lost) or never.  Returns (if node, probed, created)."""
    out = []
    for n in ast.walk(fn):
        if not isinstance(n, ast.If):
            continue
        t = n.test
        if isinstance(t, ast.UnaryOp) and isinstance(t.op, ast.Not) and isinstance(t.operand, ast.Compare) and isinstance(t.operand.ops[0], ast.In):
            key, probed = t.operand.left, t.operand.comparators[0]
        elif isinstance(t, ast.Compare) and len(t.ops) == 1 and isinstance(t.ops[0], ast.NotIn):
            key, probed = t.left, t.comparators[0]
        else:
            continue
        if isinstance(probed, ast.Call) and isinstance(probed.func, ast.Attribute) and probed.func.attr == "keys":
            probed = probed.func.value
        for st in n.body:
            if isinstance(st, ast.Assign) and isinstance(st.targets[0], ast.Subscript) and ast.unparse(st.targets[0].slice) == ast.unparse(key):
                fresh = isinstance(st.value, (ast.Dict, ast.List, ast.Set)) or (isinstance(st.value, ast.Call) and isinstance(st.value.func, ast.Name)
                                                                                 and st.value.func.id in ("dict", "list", "set", "defaultdict"))
                created = st.targets[0].value
                if fresh and ast.unparse(created) != ast.unparse(probed):
                    out.append((n, ast.unparse(probed), ast.unparse(created)))
    return out


def truthy_at(fn: ast.AST, qual: str, site: ast.AST, name: str) -> bool:
    """On every path to the statement containing *site*, is the local *name* known to be truthy / not None - whether the code says
    ``if x: use(x)`` or ``if not x: continue ... use(x)`` or ``if x is None: return`` (decided on the flow graph)."""
    from .cfg import Flow, build_cfg
    cfg = build_cfg(fn, qual)
    target = None
    for n in cfg.stmt_nodes():
        if n.ast is not None and any(x is site for x in ast.walk(n.ast)):
            if target is None or len(list(ast.walk(n.ast))) < len(list(ast.walk(target.ast))):
                target = n           # the innermost statement / test that holds the site
    if target is None:
        return False

    def transfer(node, fact, label):
        known = fact
        if node.kind == "stmt" and label != "exc":
            a = node.ast
            tg = []
            if isinstance(a, ast.Assign):
                tg = a.targets
            elif isinstance(a, (ast.AugAssign, ast.AnnAssign)):
                tg = [a.target]
            for t in tg:
                for x in ast.walk(t):
                    if isinstance(x, ast.Name) and x.id == name:
                        known = False
        if node.kind == "iter" and label == "loop" and any(isinstance(x, ast.Name) and x.id == name for x in ast.walk(getattr(node.ast, "target", node.ast))):
            known = False
        if node.kind == "test" and label in ("true", "false"):
            for atom, truth in implied(node.ast, label == "true"):
                if isinstance(atom, ast.Name) and atom.id == name and truth:
                    known = True
                if isinstance(atom, ast.Compare) and len(atom.ops) == 1 and isinstance(atom.ops[0], ast.Is) and isinstance(atom.left, ast.Name) \
                        and atom.left.id == name and isinstance(atom.comparators[0], ast.Constant) and atom.comparators[0].value is None and not truth:
                    known = True
        return [known]
    flow = Flow(cfg, [False], transfer)
    facts = flow.at[target.id]
    return bool(facts) and all(facts)


def nesting_atoms(fn: ast.AST, target: ast.AST) -> List[Tuple[ast.AST, bool]]:
    """The atoms implied by the ifs that enclose *target* in *fn* (body -> test true, orelse -> test false; see implied())."""
    out: List[Tuple[ast.AST, bool]] = []

    def rec(stmts) -> bool:
        for st in stmts:
            if st is target or any(x is target for x in ast.walk(st)):
                if isinstance(st, ast.If) and not any(x is target for x in ast.walk(st.test)):
                    inb = any(x is target for b in st.body for x in ast.walk(b))
                    out.extend(implied(st.test, inb))
                    return rec(st.body if inb else st.orelse)
                for fld in ("body", "orelse", "finalbody"):
                    blk = getattr(st, fld, None)
                    if isinstance(blk, list) and blk and isinstance(blk[0], ast.stmt) and any(x is target for b in blk for x in ast.walk(b)):
                        return rec(blk)
                for h in getattr(st, "handlers", []):
                    if any(x is target for b in h.body for x in ast.walk(b)):
                        return rec(h.body)
                return True
        return False
    rec(list(getattr(fn, "body", [])))
    return out


def path_atoms(fn: ast.AST, target: ast.AST) -> List[Tuple[ast.AST, bool]]:
    """nesting_atoms plus what *guard clauses* imply: an earlier `if T: return/raise/continue/break` in an enclosing block means T is
    false where *target* stands (and the mirror image for an else that leaves); plus, inside `except KeyError:` of a try whose body
    subscripts D[k], the atom `k in D` is false.  (Names of a test are assumed not to be rebound between the guard and the target.)"""
    out = list(nesting_atoms(fn, target))

    def leaves(blk) -> bool:
        return bool(blk) and isinstance(blk[-1], (ast.Return, ast.Raise, ast.Continue, ast.Break))

    def rec(stmts) -> bool:
        for i, st in enumerate(stmts):
            if st is target or any(x is target for x in ast.walk(st)):
                for prev in stmts[:i]:
                    if isinstance(prev, ast.If):
                        if leaves(prev.body) and not leaves(prev.orelse):
                            out.extend(implied(prev.test, False))
                        elif leaves(prev.orelse) and not leaves(prev.body):
                            out.extend(implied(prev.test, True))
                if isinstance(st, ast.Try):
                    for h in st.handlers:
                        if any(x is target for b in h.body for x in ast.walk(b)) and h.type is not None and "KeyError" in ast.unparse(h.type):
                            for sub in [x for b in st.body for x in ast.walk(b) if isinstance(x, ast.Subscript) and isinstance(x.ctx, ast.Load)]:
                                out.append((ast.Compare(left=sub.slice, ops=[ast.In()], comparators=[sub.value]), False))
                for fld in ("body", "orelse", "finalbody"):
                    blk = getattr(st, fld, None)
                    if isinstance(blk, list) and blk and isinstance(blk[0], ast.stmt) and any(x is target for b in blk for x in ast.walk(b)):
                        return rec(blk)
                for h in getattr(st, "handlers", []):
                    if any(x is target for b in h.body for x in ast.walk(b)):
                        return rec(h.body)
                return True
        return False
    rec(list(getattr(fn, "body", [])))
    return out


def under_condition(fn: ast.AST, target: ast.AST, pred) -> bool:
    """Is *target* nested under ifs that imply an atom (atom, truth) accepted by *pred*?"""
    return any(pred(a, t) for a, t in nesting_atoms(fn, target))


def fromkeys_sweep(idx, res, rule: str, prefixes) -> int:
    """``dict.fromkeys(keys, {})`` / ``fromkeys(keys, [])``: one and the same object is stored under every key - filling the entry of
    one key fills them all.  Findings only; returns the number of fromkeys calls seen."""
    n = 0
    for rel in sorted(idx.modules):
        if not any(rel.startswith(p_) for p_ in prefixes):
            continue
        for fi in idx.modules[rel].functions.values():
            if "." in fi.qual and fi.qual.count(".") > 1:
                continue
            for c in ast.walk(fi.node):
                if isinstance(c, ast.Call) and isinstance(c.func, ast.Attribute) and c.func.attr == "fromkeys" and len(c.args) == 2:
                    n += 1
                    v = c.args[1]
                    shared = isinstance(v, (ast.Dict, ast.List, ast.Set)) or (isinstance(v, ast.Call) and isinstance(v.func, ast.Name) and v.func.id in ("dict", "list", "set", "defaultdict"))
                    if shared:
                        res.find(rule, "%s/%s/fromkeys-shared-value" % (rule, fi.qual), fi.loc(c), fi.qual, ast.unparse(c)[:90],
                                 "%s builds a table with %s: fromkeys stores the *same* object under every key, so what is written for one key "
                                 "(one scenario, one agent type) shows up under all of them" % (fi.qual, ast.unparse(c)[:70]))
    return n


def _memo_attr_of(e: ast.AST) -> Optional[str]:
    """self.C / self.__dict__.get('C'[, None]) / self.__dict__['C'] / getattr(self, 'C', None) -> 'C'"""
    if isinstance(e, ast.Attribute) and isinstance(e.value, ast.Name) and e.value.id == "self":
        return e.attr
    if isinstance(e, ast.Call) and isinstance(e.func, ast.Attribute) and e.func.attr == "get" and dotted(e.func.value) == "self.__dict__" and e.args \
            and isinstance(e.args[0], ast.Constant) and isinstance(e.args[0].value, str):
        return e.args[0].value
    if isinstance(e, ast.Subscript) and dotted(e.value) == "self.__dict__" and isinstance(e.slice, ast.Constant) and isinstance(e.slice.value, str):
        return e.slice.value
    if isinstance(e, ast.Call) and isinstance(e.func, ast.Name) and e.func.id == "getattr" and len(e.args) >= 2 and isinstance(e.args[0], ast.Name) \
            and e.args[0].id == "self" and isinstance(e.args[1], ast.Constant):
        return e.args[1].value
    return None


def value_alternatives(cls_node: Optional[ast.ClassDef], fn: ast.AST, e: ast.AST, depth: int = 0, sites: tuple = ()) -> List[ast.AST]:
    """What a local may hold where it is used, one expression per way it is bound - looking through a *validated memo*: a read
    ``memo[i]`` of a tuple kept in an attribute of self counts as the expression that was stored at position i, provided (a) the read
    is nested under tests that compare every earlier position of the tuple with an expression (the current keys) and (b) every store
    of that attribute in the class is a tuple whose earlier positions are exactly those expressions.  Then the remembered value is the
    value the stored expression has now."""
    if depth > 6:
        return [e]
    # a read of the memo itself (return cached[1])
    if isinstance(e, ast.Subscript) and isinstance(e.value, ast.Name) and isinstance(e.slice, ast.Constant) and isinstance(e.slice.value, int) and sites:
        alt = _memo_read(cls_node, fn, sites, e)
        if alt is not None:
            return value_alternatives(cls_node, alt[0], alt[1], depth + 1)
        return [e]
    # a call of a helper method of the class: whatever it may return, with its parameters read as the arguments
    if isinstance(e, ast.Call) and isinstance(e.func, ast.Attribute) and isinstance(e.func.value, ast.Name) and e.func.value.id == "self" and cls_node is not None \
            and not any(isinstance(a, ast.Starred) for a in e.args):
        helper = next((m for m in cls_node.body if isinstance(m, ast.FunctionDef) and m.name == e.func.attr), None)
        if helper is not None and not helper.args.vararg and not helper.args.kwarg:
            ps = [a.arg for a in helper.args.args][1:]
            actual = dict(zip(ps, e.args))
            actual.update({k.arg: k.value for k in e.keywords if k.arg})
            rets = [r for r in ast.walk(helper) if isinstance(r, ast.Return) and r.value is not None]
            if rets and set(actual) == set(ps):
                import copy as _copy
                out = []
                for r in rets:
                    for alt in value_alternatives(cls_node, helper, r.value, depth + 1, (r,)):
                        alt = _copy.deepcopy(alt)

                        class S(ast.NodeTransformer):
                            def visit_Name(self, node):
                                if node.id in actual and isinstance(node.ctx, ast.Load):
                                    return _copy.deepcopy(actual[node.id])
                                return node
                        # locals of the helper that are plain copies of attributes (dt = self.mod.dt) are written out first
                        for _ in range(3):
                            for nm in {x.id for x in ast.walk(alt) if isinstance(x, ast.Name)} - set(actual):
                                d = deref(helper, ast.Name(id=nm, ctx=ast.Load()))
                                if not isinstance(d, ast.Name):
                                    class D(ast.NodeTransformer):
                                        def visit_Name(self, node, nm=nm, d=d):
                                            return _copy.deepcopy(d) if node.id == nm and isinstance(node.ctx, ast.Load) else node
                                    alt = D().visit(alt)
                        out.append(S().visit(alt))
                return out
    if isinstance(e, ast.Name):
        binds = []
        for n in ast.walk(fn):
            if isinstance(n, ast.Assign) and len(n.targets) == 1:
                t = n.targets[0]
                if isinstance(t, ast.Name) and t.id == e.id:
                    binds.append((n, n.value))
                elif isinstance(t, (ast.Tuple, ast.List)) and any(isinstance(x, ast.Name) and x.id == e.id for x in t.elts):
                    # a, b = memo  /  a, b = self._cache: b is position 1 of whatever that is (a memo read when it can be validated)
                    i = next(k for k, x in enumerate(t.elts) if isinstance(x, ast.Name) and x.id == e.id)
                    if isinstance(n.value, (ast.Tuple, ast.List)) and len(n.value.elts) == len(t.elts):
                        binds.append((n, n.value.elts[i]))
                    else:
                        binds.append((n, ast.copy_location(ast.Subscript(value=n.value, slice=ast.Constant(value=i), ctx=ast.Load()), n)))
        if not binds:
            return [e]
        out: List[ast.AST] = []
        # `v = None` ... `if v is None: v = E` at the top of the function: past that statement v is never None
        refilled = any(isinstance(g, ast.If) and isinstance(g.test, ast.Compare) and len(g.test.ops) == 1 and isinstance(g.test.ops[0], ast.Is)
                       and isinstance(g.test.left, ast.Name) and g.test.left.id == e.id and isinstance(g.test.comparators[0], ast.Constant)
                       and g.test.comparators[0].value is None
                       and any(isinstance(st_, ast.Assign) and len(st_.targets) == 1 and isinstance(st_.targets[0], ast.Name) and st_.targets[0].id == e.id
                               for st_ in g.body) for g in getattr(fn, "body", []))
        for site, v in binds:
            if refilled and isinstance(v, ast.Constant) and v.value is None:
                continue
            km = _keyed_memo_read(cls_node, fn, v)
            if km is not None:
                out += value_alternatives(cls_node, fn, km, depth + 1, sites + (site,)) if not isinstance(km, ast.Name) else [km]
                continue
            if isinstance(v, ast.Subscript) and isinstance(v.value, ast.Name) and isinstance(v.slice, ast.Constant) and isinstance(v.slice.value, int):
                alt = _memo_read(cls_node, fn, sites + (site,), v)
                if alt is not None:
                    out += value_alternatives(cls_node, alt[0], alt[1], depth + 1)
                    continue
            if isinstance(v, ast.Name) and v.id == e.id:
                continue
            out += value_alternatives(cls_node, fn, v, depth + 1, sites + (site,))
        return out
    return [e]


_PURE_CALLEES = {"round", "int", "float", "abs", "len", "min", "max", "tuple", "list", "type", "str", "bool"}
_PURE_REPO_FUNCTIONS = {"timerange", "normalize", "scale", "digits_of"}          # BPTK_Py/util/floating_point.py: functions of their arguments
KEYED_MEMO_DIAGNOSES: List[tuple] = []        # (function, read, why the key does not determine the remembered value); cleared by the caller


def _table_attr(fn: ast.AST, e: ast.AST) -> Optional[str]:
    """attribute name when *e* is a table kept on the object or its class: self.T / cls.T / type(self).T / ClassName.T, or a local naming one"""
    e = deref(fn, e)
    if isinstance(e, ast.Attribute) and (isinstance(e.value, ast.Name) or (isinstance(e.value, ast.Call) and call_name(e.value) == "type")
                                         or dotted(e.value) == "self.__class__"):
        return e.attr
    return None


def _written_out(fn: ast.AST, e: ast.AST, depth: int = 4) -> ast.AST:
    """*e* with single-assignment locals of *fn* replaced by their values"""
    import copy as _copy
    e = _copy.deepcopy(e)
    for _ in range(depth):
        changed = False

        class W(ast.NodeTransformer):
            def visit_Name(self, node):
                nonlocal changed
                if isinstance(node.ctx, ast.Load):
                    d = deref(fn, node, 1)
                    if d is not node:
                        changed = True
                        return _copy.deepcopy(d)
                return node
        e = W().visit(e)
        if not changed:
            break
    return e


def _block_binding(fn: ast.AST, stmt: ast.stmt, name: str) -> Optional[ast.AST]:
    """the value of the nearest plain assignment `name = V` that precedes *stmt* in its own block or an enclosing one"""
    def search(body) -> Optional[list]:
        for i, st in enumerate(body):
            if st is stmt:
                return [(body, i)]
            for fld in ("body", "orelse", "finalbody"):
                sub = getattr(st, fld, None)
                if isinstance(sub, list) and sub and isinstance(sub[0], ast.stmt):
                    r = search(sub)
                    if r is not None:
                        return r + [(body, i)]
            for h in getattr(st, "handlers", []):
                r = search(h.body)
                if r is not None:
                    return r + [(body, i)]
        return None
    chain = search(getattr(fn, "body", []))
    for body, i in chain or []:
        for st in reversed(body[:i]):
            if isinstance(st, ast.Assign) and len(st.targets) == 1 and isinstance(st.targets[0], ast.Name) and st.targets[0].id == name:
                return st.value
            if any(isinstance(x, ast.Name) and x.id == name and isinstance(x.ctx, ast.Store) for x in ast.walk(st)):
                return None               # bound somewhere inside a compound statement: not decided here
    return None


def _keyed_memo_read(cls_node, fn, v: ast.AST) -> Optional[ast.AST]:
    """For ``T.get(K)`` / ``T[K]`` on a table T kept on the object or its class: the expression every store ``T[K'] = V`` of the class
    puts there, provided K' is the same key expression and V is a function of the key alone (its free names all occur in the key;
    only pure built-ins are called) - then what is remembered under the key is the value V has now.  None otherwise."""
    if cls_node is None:
        return None
    if isinstance(v, ast.Call) and isinstance(v.func, ast.Attribute) and v.func.attr == "get" and len(v.args) == 1 and not v.keywords:
        table, key = v.func.value, v.args[0]
    elif isinstance(v, ast.Subscript) and not isinstance(v.slice, (ast.Constant, ast.Slice)):
        table, key = v.value, v.slice
    else:
        return None
    attr = _table_attr(fn, table)
    if attr is None:
        return None
    key_text = ast.unparse(_written_out(fn, key))
    stored = []
    for f2 in [x for x in ast.walk(cls_node) if isinstance(x, (ast.FunctionDef, ast.AsyncFunctionDef)) and not getattr(x, "_absorbed", False)]:
        for n in ast.walk(f2):
            if isinstance(n, ast.Assign):
                for t in n.targets:
                    if isinstance(t, ast.Subscript) and _table_attr(f2, t.value) == attr:
                        stored.append((f2, n, t.slice, n.value))
            if isinstance(n, ast.Call) and isinstance(n.func, ast.Attribute) and n.func.attr in ("update", "setdefault", "__setitem__") \
                    and _table_attr(f2, n.func.value) == attr:
                return None
    if not stored:
        return None
    result = None
    for f2, st, k2, val in stored:
        if f2 is not fn or ast.unparse(_written_out(f2, k2)) != key_text:
            return None
        if isinstance(val, ast.Name):
            b = _block_binding(f2, st, val.id)
            if b is None:
                return None
            val = b
        val = _written_out(f2, val)
        # the key determines an expression only when the expression itself is (a component of) the key, possibly coerced:
        # (type(dt), dt) determines dt, (type(dt),) does not; (float(start), float(self.dt)) determines start and self.dt, not self.mod.dt
        kx = _written_out(f2, k2)
        comps = set()
        for x in (kx.elts if isinstance(kx, ast.Tuple) else [kx]):
            while isinstance(x, ast.Call) and isinstance(x.func, ast.Name) and x.func.id in ("float", "int", "str", "repr") and len(x.args) == 1:
                x = x.args[0]
            if isinstance(x, (ast.Name, ast.Attribute)):
                comps.add(ast.unparse(x))
        undetermined = []

        def scan(x):
            if isinstance(x, ast.Call):
                if not (isinstance(x.func, ast.Name) and x.func.id in _PURE_CALLEES | _PURE_REPO_FUNCTIONS):
                    undetermined.append(ast.unparse(x.func) + "()")
                for a in list(x.args) + [k.value for k in x.keywords]:
                    scan(a)
                return
            if isinstance(x, (ast.Name, ast.Attribute)):
                if ast.unparse(x) not in comps:
                    undetermined.append(ast.unparse(x))
                return
            for c in ast.iter_child_nodes(x):
                if isinstance(c, ast.expr):
                    scan(c)
        scan(val)
        if undetermined:
            KEYED_MEMO_DIAGNOSES.append((fn, v, "what is remembered in %s under the key %s is %s, which also depends on %s - not part of the key: "
                                         "a later call with the same key and a different %s is served the value computed for the earlier one"
                                         % (attr, ast.unparse(kx)[:70], ast.unparse(val)[:70], ", ".join(sorted(set(undetermined))), sorted(set(undetermined))[0])))
            return None
        if result is not None and ast.unparse(result) != ast.unparse(val):
            return None
        result = val
    return result


def _memo_read(cls_node, fn, sites, read: ast.Subscript):
    """(function holding the store, stored expression) for a validated read memo[i]; None if the memo discipline cannot be shown."""
    m = read.value.id
    i = read.slice.value
    srcs = [n.value for n in ast.walk(fn) if isinstance(n, ast.Assign) and len(n.targets) == 1 and isinstance(n.targets[0], ast.Name) and n.targets[0].id == m]
    attrs = {_memo_attr_of(v) for v in srcs}
    if len(attrs) != 1 or None in attrs or cls_node is None:
        return None
    attr = attrs.pop()
    # names unpacked from the memo: position -> name
    unpacked = {}
    for n in ast.walk(fn):
        if isinstance(n, ast.Assign) and isinstance(n.targets[0], (ast.Tuple, ast.List)) and isinstance(n.value, ast.Name) and n.value.id == m:
            for k, x in enumerate(n.targets[0].elts):
                if isinstance(x, ast.Name):
                    unpacked[x.id] = k
    # the keys the read is validated against
    keys = {}
    for atom, truth in [x for st_ in sites for x in nesting_atoms(fn, st_)]:
        if not truth or not (isinstance(atom, ast.Compare) and len(atom.ops) == 1 and isinstance(atom.ops[0], (ast.Eq, ast.Is))):
            continue
        for a, b in ((atom.left, atom.comparators[0]), (atom.comparators[0], atom.left)):
            pos = None
            if isinstance(a, ast.Subscript) and isinstance(a.value, ast.Name) and a.value.id == m and isinstance(a.slice, ast.Constant):
                pos = a.slice.value
            elif isinstance(a, ast.Name) and a.id in unpacked:
                pos = unpacked[a.id]
            if pos is not None:
                keys[pos] = ast.unparse(b)
    if set(keys) != set(range(i)) or i == 0:
        return None
    stores = []
    for f2 in [x for x in ast.walk(cls_node) if isinstance(x, (ast.FunctionDef, ast.AsyncFunctionDef)) and not getattr(x, "_absorbed", False)]:
        for n in ast.walk(f2):
            if isinstance(n, ast.Assign):
                for t in n.targets:
                    if _memo_attr_of(t) == attr or (isinstance(t, ast.Attribute) and isinstance(t.value, ast.Name) and t.value.id == "self" and t.attr == attr):
                        stores.append((f2, n.value))
    tuples = [(f2, v) for f2, v in stores if not (isinstance(v, ast.Constant) and v.value is None)]
    def same(f2, stored: ast.AST, key_text: str) -> bool:
        if ast.unparse(stored) == key_text:
            return True
        # both sides name a local: the same thing if the two locals are built from the same expression
        try:
            a_ = deref(f2, stored)
            b_ = deref(fn, ast.parse(key_text, mode="eval").body)
            return ast.unparse(a_) == ast.unparse(b_)
        except SyntaxError:
            return False
    if not tuples or not all(isinstance(v, ast.Tuple) and len(v.elts) > i and all(same(f2, v.elts[j], keys[j]) for j in range(i)) for f2, v in tuples):
        return None
    # all stores must put the same thing at position i (after looking through their locals)
    f2, v = tuples[0]
    return f2, v.elts[i]


def write_out_param_reads(fn: ast.FunctionDef) -> ast.FunctionDef:
    """A copy of *fn* in which a local bound exactly once, at the top level of the body, to a plain read of a parameter
    (``kind = type(p)``, ``node_type = p["type"]``) is written out at its uses.  The parameter must not be rebound and the
    read key must not be stored to anywhere in the function (so the read has one value for the whole call)."""
    import copy as _copy
    fn = _copy.deepcopy(fn)
    ps = {a.arg for a in fn.args.posonlyargs + fn.args.args + fn.args.kwonlyargs}
    stores: Dict[str, int] = {}
    for n in ast.walk(fn):
        if isinstance(n, ast.Name) and isinstance(n.ctx, (ast.Store, ast.Del)):
            stores[n.id] = stores.get(n.id, 0) + 1
    written_keys = set()
    for n in ast.walk(fn):
        if isinstance(n, ast.Subscript) and isinstance(n.ctx, (ast.Store, ast.Del)) and isinstance(n.value, ast.Name):
            written_keys.add((n.value.id, ast.dump(n.slice)))
        if isinstance(n, ast.Call) and isinstance(n.func, ast.Attribute) and isinstance(n.func.value, ast.Name) \
                and n.func.attr in ("pop", "update", "clear", "setdefault", "popitem", "__setitem__", "__delitem__"):
            written_keys.add((n.func.value.id, "*"))
    mapping: Dict[str, ast.AST] = {}
    for st in fn.body:
        if isinstance(st, ast.Assign) and len(st.targets) == 1 and isinstance(st.targets[0], ast.Name):
            t, v = st.targets[0].id, st.value
            if stores.get(t) != 1 or t in ps:
                continue
            if isinstance(v, ast.Call) and isinstance(v.func, ast.Name) and v.func.id == "type" and len(v.args) == 1 and not v.keywords \
                    and isinstance(v.args[0], ast.Name) and v.args[0].id in ps and stores.get(v.args[0].id, 0) == 0:
                mapping[t] = v
            elif isinstance(v, ast.Subscript) and isinstance(v.value, ast.Name) and v.value.id in ps and stores.get(v.value.id, 0) == 0 \
                    and isinstance(v.slice, ast.Constant) and (v.value.id, ast.dump(v.slice)) not in written_keys and (v.value.id, "*") not in written_keys:
                mapping[t] = v
    if not mapping:
        return fn

    class W(ast.NodeTransformer):
        def visit_Name(self, node):
            if isinstance(node.ctx, ast.Load) and node.id in mapping:
                return ast.copy_location(_copy.deepcopy(mapping[node.id]), node)
            return node
    fn.body = [W().visit(st) for st in fn.body if not (isinstance(st, ast.Assign) and len(st.targets) == 1
                                                       and isinstance(st.targets[0], ast.Name) and st.targets[0].id in mapping)]
    return fn


def truncated_step_counts(idx, res, rule: str, prefixes) -> int:
    """TRUNC: a number of steps is never the *truncated* float quotient of a time span and dt.  0.7 / 0.1 is 6.999999999999999 and
    0.3 / 0.1 is 2.9999999999999996: int(), // and floor() lose the last step exactly when the span is a whole number of steps (the
    pinned code counts with round(), or walks the grid and compares normalised times).  Returns the number of quotients by a dt seen."""
    n = 0

    def mentions_dt(e) -> bool:
        for x in ast.walk(e):
            if isinstance(x, ast.Name) and x.id in ("dt", "DT"):
                return True
            if isinstance(x, ast.Attribute) and x.attr == "dt":
                return True
            if isinstance(x, ast.Subscript) and isinstance(x.slice, ast.Constant) and x.slice.value == "dt":
                return True
        return False
    for rel in sorted(idx.modules):
        if not any(rel.startswith(p_) for p_ in prefixes):
            continue
        for fi in idx.modules[rel].functions.values():
            for x in ast.walk(fi.node):
                quot = None
                if isinstance(x, ast.Call) and isinstance(x.func, (ast.Name, ast.Attribute)) and call_name(x) in ("int", "floor", "trunc") and len(x.args) == 1:
                    for b in ast.walk(x.args[0]):
                        if isinstance(b, ast.BinOp) and isinstance(b.op, ast.Div) and mentions_dt(b.right):
                            quot = b
                    if quot is not None and any(isinstance(c, ast.Call) and call_name(c) == "round" for c in ast.walk(x.args[0])):
                        quot = None
                elif isinstance(x, ast.BinOp) and isinstance(x.op, ast.FloorDiv) and mentions_dt(x.right):
                    quot = x
                if quot is None:
                    continue
                n += 1
                res.find(rule, "%s/%s/truncated-quotient" % (rule, fi.qual), fi.loc(x), fi.qual, ast.unparse(x)[:80],
                         "%s counts steps as %s: the float quotient of a span and dt lies just below the whole number for many decimal dt "
                         "(0.7 / 0.1 = 6.999999999999999), so truncating it drops the last step" % (fi.qual, ast.unparse(x)[:60]))
    return n
