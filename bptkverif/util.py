"""Shared helpers for the path rules."""
from __future__ import annotations

import ast
from typing import Dict, Iterable, List, Optional, Set, Tuple

from .core import (AnalysisError, FuncInfo, Index, call_name, call_recv, const_str, dotted,
                   iter_calls, src, walk_no_nested)


def implied(test: ast.AST, outcome: bool) -> List[Tuple[ast.AST, bool]]:
    """Atoms whose truth value is implied when *test* evaluates to *outcome*.
    ``not`` flips, ``and``-true and ``or``-false distribute; nothing is implied
    by ``and``-false / ``or``-true."""
    if isinstance(test, ast.UnaryOp) and isinstance(test.op, ast.Not):
        return implied(test.operand, not outcome)
    if isinstance(test, ast.BoolOp):
        if isinstance(test.op, ast.And) and outcome:
            out = []
            for v in test.values:
                out += implied(v, True)
            return out
        if isinstance(test.op, ast.Or) and not outcome:
            out = []
            for v in test.values:
                out += implied(v, False)
            return out
        return []
    if isinstance(test, ast.Compare) and len(test.ops) == 1:
        op = test.ops[0]
        flip = {ast.NotEq: ast.Eq, ast.IsNot: ast.Is, ast.NotIn: ast.In}
        for neg, pos in flip.items():
            if isinstance(op, neg):
                pos_cmp = ast.Compare(left=test.left, ops=[pos()], comparators=test.comparators)
                ast.copy_location(pos_cmp, test)
                return [(pos_cmp, not outcome)]
    return [(test, outcome)]


def const_int(node: ast.AST) -> Optional[int]:
    if isinstance(node, ast.Constant) and isinstance(node.value, int) and not isinstance(node.value, bool):
        return node.value
    return None


def make_response_status(call: ast.AST) -> Optional[int]:
    """Status of make_response(body, status) / Response(body, status=..) when constant."""
    if not isinstance(call, ast.Call):
        return None
    n = call_name(call)
    if n == "make_response":
        if len(call.args) >= 2:
            return const_int(call.args[1])
        if len(call.args) == 1:
            return 200
    if n in ("Response",):
        for k in call.keywords:
            if k.arg == "status":
                return const_int(k.value)
        if len(call.args) >= 2:
            return const_int(call.args[1])
        return 200
    if n == "abort" and call.args:
        return const_int(call.args[0])
    return None


def is_none_or_false(node: Optional[ast.AST]) -> bool:
    return node is None or (isinstance(node, ast.Constant) and (node.value is None or node.value is False))


def stores_in(node: ast.AST) -> List[ast.AST]:
    """All store targets (Name/Attribute/Subscript) in simple/aug assignments below node."""
    out = []
    for n in walk_no_nested(node):
        if isinstance(n, ast.Assign):
            for t in n.targets:
                out += _flatten_target(t)
        elif isinstance(n, (ast.AugAssign, ast.AnnAssign)):
            out += _flatten_target(n.target)
        elif isinstance(n, ast.Delete):
            for t in n.targets:
                out += _flatten_target(t)
        elif isinstance(n, (ast.For,)):
            out += _flatten_target(n.target)
    return out


def _flatten_target(t: ast.AST) -> List[ast.AST]:
    if isinstance(t, (ast.Tuple, ast.List)):
        out = []
        for e in t.elts:
            out += _flatten_target(e)
        return out
    if isinstance(t, ast.Starred):
        return _flatten_target(t.value)
    return [t]


def single_assignments(fn: ast.AST) -> Dict[str, List[ast.AST]]:
    """local name -> list of assigned value expressions (simple Assign only)."""
    out: Dict[str, List[ast.AST]] = {}
    for n in walk_no_nested(fn):
        if isinstance(n, ast.Assign):
            for t in n.targets:
                if isinstance(t, ast.Name):
                    out.setdefault(t.id, []).append(n.value)
        elif isinstance(n, ast.AnnAssign) and isinstance(n.target, ast.Name) and n.value is not None:
            out.setdefault(n.target.id, []).append(n.value)
    return out


def names_in(node: ast.AST) -> Set[str]:
    return {n.id for n in ast.walk(node) if isinstance(n, ast.Name)}


def str_consts_in(node: ast.AST) -> List[str]:
    return [n.value for n in ast.walk(node) if isinstance(n, ast.Constant) and isinstance(n.value, str)]


def method_calls(fn: ast.AST, name: str) -> List[ast.Call]:
    return [c for c in iter_calls(fn) if call_name(c) == name]


def params(fn: ast.FunctionDef) -> List[str]:
    a = fn.args
    return [x.arg for x in a.posonlyargs + a.args + a.kwonlyargs]
