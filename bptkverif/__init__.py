"""bptkverif - repository-specific static analysis of transentis/bptk_py.

Nothing in this package imports or executes code from the repository under
analysis: every decision is taken on syntax trees (``ast``) of the files in
``<repo>/BPTK_Py`` as they are on disk at the moment of the run.
"""
