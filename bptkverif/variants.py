"""Self-validation variants (see selftest.py).  kind 'F' = must fire, 'S' = must
stay silent.  'expect' is a substring of the key of the finding that has to be
reported.  Anchors are exact source fragments of the tree recorded in
variants_digest.txt."""

SRV = "BPTK_Py/server/bptkServer.py"
BPTK = "BPTK_Py/bptk.py"
OPS = "BPTK_Py/sddsl/operators.py"
ELEM = "BPTK_Py/sddsl/element.py"
STOCK = "BPTK_Py/sddsl/stock.py"
FLOW = "BPTK_Py/sddsl/flow.py"
MODEL = "BPTK_Py/modeling/model.py"
SIM = "BPTK_Py/modeling/simultaneousScheduler.py"
SCHED = "BPTK_Py/modeling/scheduler.py"
AGENT = "BPTK_Py/modeling/agent.py"
DC = "BPTK_Py/modeling/dataCollector.py"
HR = "BPTK_Py/scenariorunners/hybrid_runner.py"
SDSIM = "BPTK_Py/sdsimulation/sd_simulation.py"


def F(prop, name, file, old, new, expect=None, count=1, **kw):
    return dict(prop=prop, kind="F", name=name, edits=[(file, old, new)], expect=expect, count=count, **kw)


def S(prop, name, file, old, new, count=1, **kw):
    return dict(prop=prop, kind="S", name=name, edits=[(file, old, new)], count=count, **kw)


VARIANTS = []

# ---------------------------------------------------------------------------- C15
VARIANTS += [
    F("C15", "undecorated-run-step", SRV, "    @token_required\n    def _run_step_resource(", "    def _run_step_resource(", "ROUTE//<instance_uuid>/run-step"),
    F("C15", "undecorated-stop-instance", SRV, "    @token_required\n    def _stop_instance_resource(", "    def _stop_instance_resource(", "ROUTE//<instance_uuid>/stop-instance"),
    F("C15", "undecorated-load-state", SRV, "    @token_required\n    def _load_state_resource(", "    def _load_state_resource(", "ROUTE//load-state"),
    F("C15", "new-undecorated-route", SRV,
      '        self.route("/metrics", methods=[\'GET\'], strict_slashes=False)(self._metrics_resource)',
      '        self.route("/metrics", methods=[\'GET\'], strict_slashes=False)(self._metrics_resource)\n'
      '        self.route("/debug-metrics", methods=[\'GET\'], strict_slashes=False)(self._full_metrics_resource)',
      "ROUTE//debug-metrics"),
    F("C15", "gate-eq-for-neq", SRV, "                if token != self._bearer_token:", "                if token == self._bearer_token:", "GATE/decorated"),
    F("C15", "handler-before-check", SRV,
      "            if self._bearer_token is not None:\n                token = None",
      "            result = f(self, *args, **kwargs)\n            if self._bearer_token is not None:\n                token = None",
      "GATE/decorated/handler-reachable-unchecked"),
    F("C15", "gate-touches-instances", SRV,
      "            if self._bearer_token is not None:\n                token = None",
      "            if self._bearer_token is not None:\n                self._instance_manager._timeout_instances()\n                token = None",
      "EFFECT/decorated/call"),
    F("C15", "refusal-200", SRV, """make_response('{"Unauthorized": "Authentication Token is wrong!"}', 401)""",
      """make_response('{"Unauthorized": "Authentication Token is wrong!"}', 200)""", "GATE/decorated/refusal-status"),
    F("C15", "second-word-only", SRV, "                    if len(parts) == 2 and parts[0] == \"Bearer\":", "                    if len(parts) >= 2:", "CRED/decorated"),
    F("C15", "scheme-ignored", SRV, "                    if len(parts) == 2 and parts[0] == \"Bearer\":", "                    if len(parts) == 2:", "CRED/decorated"),
    F("C15", "add-url-rule-undecorated", SRV,
      '        self.route("/metrics", methods=[\'GET\'], strict_slashes=False)(self._metrics_resource)',
      '        self.route("/metrics", methods=[\'GET\'], strict_slashes=False)(self._metrics_resource)\n'
      '        self.add_url_rule("/peek", view_func=self._home_resource)',
      "ROUTE//peek"),
    S("C15", "decorator-alias", SRV, "    @token_required\n    def _run_resource(", "    protected = token_required\n\n    @protected\n    def _run_resource("),
    S("C15", "compare-digest", SRV, "                if token != self._bearer_token:", "                if not hmac.compare_digest(token, self._bearer_token):"),
    S("C15", "routes-in-a-loop", SRV,
      '        self.route("/metrics", methods=[\'GET\'], strict_slashes=False)(self._metrics_resource)\n'
      '        self.route("/full-metrics", methods=[\'GET\'], strict_slashes=False)(self._full_metrics_resource)',
      '        for path, methods, handler in [("/metrics", [\'GET\'], self._metrics_resource), ("/full-metrics", [\'GET\'], self._full_metrics_resource)]:\n'
      '            self.route(path, methods=methods, strict_slashes=False)(handler)'),
    S("C15", "combined-refusal", SRV,
      "                if token is None:\n                    resp = make_response('{\"Unauthorized\": \"Authentication Token is missing!\"}', 401)\n                    return resp\n                \n                if token != self._bearer_token:",
      "                if token is None or token != self._bearer_token:"),
]

# ---------------------------------------------------------------------------- C17
VARIANTS += [
    F("C17", "gt-for-gte", SRV, "if current_time >= last_call_time + timeout:", "if current_time > last_call_time + timeout:", "EXPIRY/_timeout_instances/comparator"),
    F("C17", "minus-for-plus", SRV, "if current_time >= last_call_time + timeout:", "if current_time >= last_call_time - timeout:", "EXPIRY/_timeout_instances/sign"),
    F("C17", "no-sweep-on-create", SRV, '        self._timeout_instances()\n\n        timeout = {', '        timeout = {', "SWEEP/"),
    F("C17", "no-destroy", SRV, "                            self._instances[key]['instance'].destroy() #ensure that bptk releases all resources\n", "", "EXPIRY/_timeout_instances/no-destroy"),
    F("C17", "destroy-after-delete", SRV,
      "                            self._instances[key]['instance'].destroy() #ensure that bptk releases all resources\n                            del self._instances[key]",
      "                            inst = self._instances[key]['instance']\n                            del self._instances[key]\n                            inst.destroy()",
      "EXPIRY/_timeout_instances/order"),
    F("C17", "unit-crosswired", SRV, '"minutes":  0 if "minutes" not in timeout else timeout["minutes"],', '"minutes":  0 if "minutes" not in timeout else timeout["seconds"],', "UNITS/create_instance/minutes"),
    F("C17", "handler-reads-table-directly", SRV,
      "        instance = self._instance_manager.get_instance(instance_uuid)\n        result = instance.session_results(index_by_time=False, flat=flat)",
      "        instance = self._instance_manager._instances[instance_uuid][\"instance\"]\n        result = instance.session_results(index_by_time=False, flat=flat)",
      "_session_results_resource"),
    F("C17", "keep-alive-no-touch", SRV, "    def keep_instance_alive(self,instance_uuid):\n        self._update_instance_timestamp(instance_uuid)\n", "    def keep_instance_alive(self,instance_uuid):\n", "TOUCH/"),
    F("C17", "get-instance-no-sweep", SRV, "        self._update_instance_timestamp(instance_uuid)\n        self._timeout_instances()\n        try:", "        self._update_instance_timestamp(instance_uuid)\n        try:", "SWEEP/"),
    F("C17", "keep-alive-no-restore", SRV, "        if not self._ensure_instance_exists(instance_uuid):\n            resp = make_response('{\"error\": \"expecting a valid instance id to be given\"}', 500)\n        else:",
      "        if not self._instance_manager.is_valid_instance(instance_uuid):\n            resp = make_response('{\"error\": \"expecting a valid instance id to be given\"}', 500)\n        else:", "RESTORE/_keep_alive_resource"),
    F("C17", "restore-crosswired", SRV, "self._instance_manager.reconstruct_instance(instance.instance_id, instance.timeout, instance.time, instance.state)\n        return True",
      "self._instance_manager.reconstruct_instance(instance.instance_id, instance.time, instance.timeout, instance.state)\n        return True", "WIRING/"),
    S("C17", "sweep-first-in-get-instance", SRV, "        self._update_instance_timestamp(instance_uuid)\n        self._timeout_instances()\n        try:", "        self._timeout_instances()\n        self._update_instance_timestamp(instance_uuid)\n        try:"),
    S("C17", "comparison-rearranged", SRV, "if current_time >= last_call_time + timeout:", "if last_call_time + timeout <= current_time:"),
    S("C17", "difference-form", SRV, "if current_time >= last_call_time + timeout:", "if current_time - last_call_time >= timeout:"),
]

# ---------------------------------------------------------------------------- C18
VARIANTS += [
    F("C18", "no-unlock-after-loop", SRV, "                        result.append(instance.run_step(settings=content[\"settings\"], flat=\"flatResults\" in content and content[\"flatResults\"] == True))\n                    instance.unlock()",
      "                        result.append(instance.run_step(settings=content[\"settings\"], flat=\"flatResults\" in content and content[\"flatResults\"] == True))", "TYPESTATE/BptkServer._run_steps_resource"),
    F("C18", "no-unlock-in-except", SRV, "        except:\n            instance.unlock()\n        if result is not None:", "        except:\n            pass\n        if result is not None:", "TYPESTATE/BptkServer._run_steps_resource/exit"),
    F("C18", "streamer-no-unlock-at-end", SRV, "                yield \"]\"\n                instance.unlock()", "                yield \"]\"", "TYPESTATE/BptkServer._stream_steps_resource.streamer/exit=normal"),
    F("C18", "streamer-except-typed", SRV, "                instance.unlock()\n            except:\n                instance.unlock()\n            if self._external_state_adapter != None:\n                self._external_state_adapter.save_instance(self._instance_manager._get_instance_state(instance_uuid))\n\n        resp = Response(streamer())",
      "                instance.unlock()\n            except Exception:\n                instance.unlock()\n            if self._external_state_adapter != None:\n                self._external_state_adapter.save_instance(self._instance_manager._get_instance_state(instance_uuid))\n\n        resp = Response(streamer())",
      "exit=generator-close"),
    F("C18", "step-before-lock", SRV, "                    instance.lock()\n                    for i in range(0,content[\"numberSteps\"]):",
      "                    result.append(instance.run_step(settings=content[\"settings\"]))\n                    instance.lock()\n                    for i in range(0,content[\"numberSteps\"]):", "HELD/BptkServer._run_steps_resource"),
    F("C18", "persisted-state-keeps-lock", SRV, "        session_state[\"lock\"] = False\n        return InstanceState(", "        return InstanceState(", "PERSIST/_get_instance_state/lock-flag"),
    F("C18", "persisted-state-not-a-copy", SRV, "session_state = copy.deepcopy(instance['instance'].session_state)", "session_state = instance['instance'].session_state", "PERSIST/_get_instance_state/not-a-copy"),
    F("C18", "unlock-sets-true", BPTK, "    def unlock(self):\n        if self.session_state is not None:\n            self.session_state[\"lock\"] = False", "    def unlock(self):\n        if self.session_state is not None:\n            self.session_state[\"lock\"] = True", "API/bptk.unlock"),
    S("C18", "try-finally", SRV, "                    instance.lock()\n                    for i in range(0,content[\"numberSteps\"]):\n                        result.append(instance.run_step(settings=content[\"settings\"], flat=\"flatResults\" in content and content[\"flatResults\"] == True))\n                    instance.unlock()",
      "                    instance.lock()\n                    try:\n                        for i in range(0,content[\"numberSteps\"]):\n                            result.append(instance.run_step(settings=content[\"settings\"], flat=\"flatResults\" in content and content[\"flatResults\"] == True))\n                    finally:\n                        instance.unlock()"),
    S("C18", "streamer-finally", SRV, "                yield \"]\"\n                instance.unlock()\n            except:\n                instance.unlock()", "                yield \"]\"\n            except:\n                pass\n            finally:\n                instance.unlock()"),
]

# ---------------------------------------------------------------------------- C11
VARIANTS += [
    F("C11", "deliver-by-position", SIM, "                receiver = agents_by_id.get(event.receiver_id)", "                receiver = model.agents[event.receiver_id]", "KIND/SimultaneousScheduler.run_step"),
    F("C11", "dead-receiver-unfiltered", SIM, "                if receiver is not None:\n                    receiver.receive_event(event)", "                if True:\n                    receiver.receive_event(event)", "none-receiver"),
    F("C11", "fifo-on-one-queue-only", SIM, "event = self.handle_delayed_event(model.events.pop(), dt=model.dt)", "event = self.handle_delayed_event(model.events.pop(0), dt=model.dt)", "PARITY/"),
    F("C11", "parked-order-reversed", SIM, "        model.events += self.delayed_events[::-1]", "        model.events += self.delayed_events", "PARITY/delayed-loop"),
    F("C11", "deliver-and-park", SCHED, "                self.delayed_events += [event]\n                return None", "                self.delayed_events += [event]\n                return event", "ONCE/Scheduler.handle_delayed_event"),
    F("C11", "park-list-not-reset", SIM, "\n        self.delayed_events = []\n", "\n", "ONCE/run_step/park-reset"),
    F("C11", "re-enqueue-before-agents", SIM, "        model.begin_round(time, sim_round, step)\n", "        model.events += self.delayed_events[::-1]\n        model.begin_round(time, sim_round, step)\n", None, error_ok=True),
    F("C11", "distribute-after-agents", SIM, "        model.end_round(time, sim_round, step)\n", "        model.end_round(time, sim_round, step)\n        while len(model.events) > 0:\n            self.handle_delayed_event(model.events.pop(), dt=model.dt)\n", None, error_ok=True),
    S("C11", "fifo-on-both-queues", SIM, "event = self.handle_delayed_event(model.events.pop(), dt=model.dt)", "event = self.handle_delayed_event(model.events.pop(0), dt=model.dt)",
      ) ,
]
VARIANTS[-1]["edits"] += [(AGENT, "                event = self.events.pop()\n", "                event = self.events.pop(0)\n"),
                          (SIM, "        model.events += self.delayed_events[::-1]", "        model.events += self.delayed_events")]

# ---------------------------------------------------------------------------- C12
VARIANTS += [
    F("C12", "stop-excluded", SIM, "range(int(model.starttime), int(model.stoptime) + 1)", "range(int(model.starttime), int(model.stoptime))", "LOOPS/run/outer-upper"),
    F("C12", "one-step-too-many", SIM, "for step in range(round(1 / model.dt)):", "for step in range(round(1 / model.dt) + 1):", "LOOPS/run/inner"),
    F("C12", "act-before-handle", SIM, "            agent.handle_events(time, sim_round, step)\n            agent.act(time, sim_round, step)", "            agent.act(time, sim_round, step)\n            agent.handle_events(time, sim_round, step)", "ORDER/run_step"),
    F("C12", "end-round-before-agents", SIM, "        model.begin_round(time, sim_round, step)\n", "        model.begin_round(time, sim_round, step)\n        model.end_round(time, sim_round, step)\n", "ORDER/run_step"),
    F("C12", "reversed-agents", SIM, "        for agent in model.agents:\n            agent.handle_events(", "        for agent in reversed(model.agents):\n            agent.handle_events(", "ORDER/run_step/agent-iteration", error_ok=True),
    F("C12", "last-step-off-by-one", SIM, "step == (round(1 / model.dt) - 1)", "step == round(1 / model.dt)", "LAST/run_step"),
    F("C12", "time-without-dt", SIM, "time = sim_round + step * model.dt", "time = sim_round + step", "TIME/run_step/formula"),
    F("C12", "float-range", SIM, "range(int(model.starttime), int(model.stoptime) + 1)", "range(model.starttime, model.stoptime + 1)", "INTKIND/run"),
    F("C12", "act-twice", SIM, "            agent.act(time, sim_round, step)\n", "            agent.act(time, sim_round, step)\n            agent.act(time, sim_round, step)\n", "ORDER/run_step"),
    S("C12", "time-reordered", SIM, "time = sim_round + step * model.dt", "time = model.dt * step + sim_round"),
    S("C12", "break-form", SIM, "                    if self.running:\n                        self.run_step(model, sim_round, step, progress_widget, collect_data)\n                    else:\n                        break",
      "                    if not self.running:\n                        break\n                    self.run_step(model, sim_round, step, progress_widget, collect_data)"),
]

# ---------------------------------------------------------------------------- C13
CELL = "self.agent_statistics[time][agent.agent_type][agent.state]"
VARIANTS += [
    F("C13", "mean-over-all-agents", DC, "                                    self.agent_statistics[time][agent.agent_type][agent.state][\"count\"]\n                        )", "                                    len(agents)\n                        )", "FOLD/mean/denominator"),
    F("C13", "min-init-zero", DC, '"total": 0, "max": None, "min": None}', '"total": 0, "max": None, "min": 0}', "FOLD/min/init-constant"),
    F("C13", "max-folds-min-cell", DC, "[agent_property_name][\"max\"]) = (max(self.agent_statistics[time][agent.agent_type]\n                                                                 [agent.state][agent_property_name][\"max\"],",
      "[agent_property_name][\"max\"]) = (max(self.agent_statistics[time][agent.agent_type]\n                                                                 [agent.state][agent_property_name][\"min\"],", "FOLD/max/operands"),
    F("C13", "min-uses-max-builtin", DC, "[agent_property_name][\"min\"]) = (min(self.agent_statistics", "[agent_property_name][\"min\"]) = (max(self.agent_statistics", "FOLD/min/operator"),
    F("C13", "total-overwritten", DC, "[agent_property_name][\"total\"] += \\\n                        agent_property_value[\"value\"]", "[agent_property_name][\"total\"] = \\\n                        agent_property_value[\"value\"]", "FOLD/total/update"),
    F("C13", "no-zero-fill", HR, "        return pd.DataFrame(output).fillna(0)", "        return pd.DataFrame(output)", "FILL/get_df_for_agent"),
    F("C13", "no-reset-per-time", DC, "        self.agent_statistics[time] = {}\n\n        for agent in agents:", "        self.agent_statistics.setdefault(time, {})\n\n        for agent in agents:", "FOLD/time-cell/reset"),
]

# ---------------------------------------------------------------------------- C14
VARIANTS += [
    F("C14", "count-by-position", MODEL, "            if self.agent(agent_id).state == state:", "            if self.agents[agent_id].state == state:", "KIND/Model.agent_count_per_state"),
    F("C14", "id-reset", MODEL, "        self.agents = []\n\n        self.data_collector.agent_statistics = {}", "        self.agents = []\n        self.next_agent_id = 0\n\n        self.data_collector.agent_statistics = {}", "MONO/Model.reset"),
    F("C14", "configure-keeps-map", MODEL, "        for agent_type in self.agent_type_map:\n            self.agent_type_map[agent_type] = []\n\n        self.agents = []\n        \n        for agent in config:", "        self.agents = []\n        \n        for agent in config:", "COUPDATE/Model.configure_agents"),
    F("C14", "id-not-incremented", MODEL, "        self.next_agent_id += 1\n\n        if not isinstance(agent,Agent):", "        if not isinstance(agent,Agent):", "MONO/Model.create_agent/increments", error_ok=True),
    F("C14", "agent-lookup-by-position", MODEL, "        for agent in self.agents:\n            if agent.id==agent_id:\n                return agent\n\n        return None", "        return self.agents[agent_id]", "KIND/Model.agent"),
    S("C14", "comprehension-filter", MODEL, "        for agent_id in agent_ids:\n            if self.agent(agent_id).state == state:\n                agent_count += 1", "        for agent in self.agents:\n            if agent.agent_type == agent_type and agent.state == state:\n                agent_count += 1"),
]

# ---------------------------------------------------------------------------- C02
VARIANTS += [
    F("C02", "mult-operand-bare", OPS, 'return "(" + self.element_1.term(time) + ") * (" + self.element_2.term(time) + ")"', 'return self.element_1.term(time) + " * (" + self.element_2.term(time) + ")"', "R1/MultiplicationOperator.term/element_1", count=2),
    F("C02", "sub-right-operand-bare", OPS, 'return "(" + self.element_1.term(time) + ")-(" + self.element_2.term(time) + ")"', 'return "(" + self.element_1.term(time) + ")-" + self.element_2.term(time)', "R1/SubtractionOperator.term/element_2", count=2),
    F("C02", "rsub-swapped", ELEM, "        return SubtractionOperator(other, self)", "        return SubtractionOperator(self, other)", "ORDER/Element.__rsub__"),
    F("C02", "rtruediv-swapped", ELEM, "        return DivisionOperator(other, self)", "        return DivisionOperator(self, other)", "ORDER/Element.__rtruediv__"),
    F("C02", "ge-builds-gt", ELEM, '        return ComparisonOperator(self, other, ">=")', '        return ComparisonOperator(self, other, ">")', "ORDER/Element.__ge__/sign"),
    F("C02", "div-renders-floordiv", OPS, 'return "({}) / ({})".format(cur_el1.term(time), cur_el2.term(time))', 'return "({}) // ({})".format(cur_el1.term(time), cur_el2.term(time))', "OPID/DivisionOperator"),
    F("C02", "pow-operands-swapped", OPS, 'return "(({}) ** ({}) )".format(element, power)', 'return "(({}) ** ({}) )".format(power, element)', "OPID/PowerOperator"),
    F("C02", "sqrt-operand-bare", OPS, 'return "( ({})**(1/2) )".format(extractTerm(self.x, time))', 'return "( {}**(1/2) )".format(extractTerm(self.x, time))', "R1/Sqrt.term/x"),
    F("C02", "abs-becomes-identity", OPS, 'return "abs("+self.element.term(time)+")"', 'return "("+self.element.term(time)+")"', "OPID/AbsOperator"),
    # harmless because every low-precedence rendering of the vocabulary wraps itself: the table must know
    S("C02", "if-condition-bare-is-harmless", OPS, 'return "( ({}) if ({}) else ({})  )".format(then_, if_, else_)', 'return "( ({}) if {} else ({})  )".format(then_, if_, else_)'),
    S("C02", "sqrt-without-outer-parens-is-harmless", OPS, 'return "( ({})**(1/2) )".format(extractTerm(self.x, time))', 'return "({})**(1/2)".format(extractTerm(self.x, time))'),
    S("C02", "fstring", OPS, 'return "(({}) ** ({}) )".format(element, power)', 'return f"(({element}) ** ({power}) )"'),
    S("C02", "extra-parens", OPS, 'return "( ({}) and ({}) )".format(lhs, rhs)', 'return "(( ({}) and ({}) ))".format(lhs, rhs)'),
    S("C02", "percent-format", OPS, 'return "( not ({}) )".format(condition)', 'return "( not (%s) )" % condition'),
]

# ---------------------------------------------------------------------------- C01
VARIANTS += [
    F("C01", "stock-equation-at-t", STOCK, 'self._equation.term("t-model.dt") + ") )"', 'self._equation.term("t") + ") )"', "SHAPE/Stock/netflow-time"),
    F("C01", "stock-lt-start", STOCK, '") if (t <= model.starttime) else (model.memoize(\'{}\',t-model.dt))".format(self.name)\n\n        if', '") if (t < model.starttime) else (model.memoize(\'{}\',t-model.dt))".format(self.name)\n\n        if', "SHAPE/Stock/initial-test"),
    F("C01", "stock-no-dt", STOCK, 'start_string += "+ model.dt*("', 'start_string += "+ 1.0*("', "SHAPE/Stock/update"),
    F("C01", "flow-isinstance", FLOW, 'if type(self._equation) is Operator else self._equation', 'if isinstance(self._equation, Operator) else self._equation', "SHAPE/Flow/time"),
    F("C01", "flow-no-clamp", FLOW, '"lambda model, t : max( {},{})".format(0,right_term)', '"lambda model, t : ( {}+{})".format(0,right_term)', "SHAPE/Flow/clamp"),
    F("C01", "extractterm-operators-only", OPS, "isinstance(obj, (Operator, BPTK_Py.sddsl.element.Element)) else obj", "isinstance(obj, Operator) else obj", "R2/"),
    F("C01", "nummul-str", OPS, 'return "({}) * ({})".format(self.element_2.term(time), cur_el1.term(time))', 'return "({}) * ({})".format(str(self.element_2), cur_el1.term(time))', "R2/NumericalMultiplicationOperator.term/element_2"),
    F("C01", "sinwave-literal-t", OPS, '"( np.sin(2*np.pi / ({}) * ({}-model.starttime) ) * ({}) )".format(\n        extractTerm(self.period, time), time, extractTerm(self.amplitude, time))', '"( np.sin(2*np.pi / ({}) * (t-model.starttime) ) * ({}) )".format(\n        extractTerm(self.period, time), extractTerm(self.amplitude, time))', "R2/Sinwave.term/literal-t"),
    F("C01", "result-stored-under-next-time", SDSIM, "            dic_t[i] = result", "            dic_t[i + self.mod.dt] = result", "SWEEP/__simulate/store-key"),
    F("C01", "memo-evaluates-raw-arg", MODEL, "            result = self.equations[equation](normalized_arg)", "            result = self.equations[equation](arg)", "SWEEP/memoize/eval-arg"),
    F("C01", "lookup-high-clamp-first-y", MODEL, "            return y_vals[len(x_vals) - 1]", "            return y_vals[0]", "BUILTIN/_lookup/high-clamp"),
    F("C01", "lookup-no-low-clamp", MODEL, "        if x <= x_vals[0]:\n            return y_vals[0]\n", "", "BUILTIN/_lookup/low-clamp"),
    F("C01", "delay-no-shift", OPS, "            self.input_function.term(delayed_time),\n            delayed_time,", "            self.input_function.term(str(time)),\n            delayed_time,", "BUILTIN/Delay/shift"),
    F("C01", "step-bare-timestep", OPS, 'return "({} if {}>({}) else 0.0)"', 'return "({} if {}>{} else 0.0)"', "R1/Step.term/timestep"),
    F("C01", "smooth-change-inverted", OPS, "        self.change_in_smooth.equation = (\n            self.input_function - self.smooth) / self.averaging_time", "        self.change_in_smooth.equation = (\n            self.smooth - self.input_function) / self.averaging_time", "BUILTIN/Smooth/change-equation"),
    S("C01", "stock-addends-swapped", STOCK, "", "", ),
]
VARIANTS.pop()   # placeholder removed (the build uses string accumulation; no cheap addend swap)
VARIANTS += [
    S("C01", "local-for-time-string", STOCK, 'self._equation.term("t-model.dt") + ") )"', 'self._equation.term("t-" + "model.dt") + ") )"'),
    S("C01", "flow-format-keywords", FLOW, '"lambda model, t : max( {},{})".format(0,right_term)', '"lambda model, t : max( {a},{b})".format(a=0,b=right_term)'),
    S("C01", "lookup-last-index-minus-one", MODEL, "        if x >= x_vals[len(x_vals) - 1]:\n            return y_vals[len(x_vals) - 1]", "        if x >= x_vals[-1]:\n            return y_vals[-1]"),
]

# ---------------------------------------------------------------------------- C10
VARIANTS += [
    F("C10", "vm-index-swapped", OPS, "[k], time), _get_sub_element_term(self.element_2, [k, index], time))", "[k], time), _get_sub_element_term(self.element_2, [index, k], time))", "SUMIDX/vm"),
    F("C10", "mv-wrong-bound", OPS, "            res = \"\"\n            for k in range(dim1[1]):\n                res += \"({}) * ({}) + \".format(_get_sub_element_term(self.element_1,\n                                                                     [index, k], time)", "            res = \"\"\n            for k in range(dim1[0]):\n                res += \"({}) * ({}) + \".format(_get_sub_element_term(self.element_1,\n                                                                     [index, k], time)", "SUMIDX/mv"),
    F("C10", "mm-guard-dropped", OPS, "        # Matrix matrix\n        if dim1[1] != dim2[0]:\n            raise Exception(\"Attempted invalid matrix matrix multiplication (sizes [{}, {}] and [{}, {}]). Required: mxn and nxp.\".format(\n                dim1[0], dim1[1], dim2[0], dim2[1]))\n", "        # Matrix matrix\n", "GUARDS/resolve_dimensions/mm"),
    F("C10", "mv-result-dims", OPS, "            return [dim1[0]]\n\n        # Matrix matrix", "            return [dim1[1]]\n\n        # Matrix matrix", "GUARDS/resolve_dimensions/result-mv"),
    F("C10", "mean-is-median", OPS, 'return "np.mean({arr})".format(arr=string_term)', 'return "np.median({arr})".format(arr=string_term)', "OPID/ArrayMeanOperator"),
    F("C10", "arrayed-add-renders-minus", OPS, 'return "({}) + ({})".format(cur_el1.term(time), cur_el2.term(time))', 'return "({}) - ({})".format(cur_el1.term(time), cur_el2.term(time))', "OPID/AdditionOperator"),
    F("C10", "arr-median-builds-mean", ELEM, "        return ArrayMedianOperator(self)", "        return ArrayMeanOperator(self)", "AGG/Element.arr_median"),
    F("C10", "second-operand-wrong-index", OPS, "                    cur_el2 = self.element_2\n                    for i in self.index:\n                        cur_el2 = cur_el2[i]\n                    return \"({}) * ({})\".format(cur_el1.term(time), cur_el2.term(time))",
      "                    cur_el2 = self.element_2\n                    for i in reversed(self.index):\n                        cur_el2 = cur_el2[i]\n                    return \"({}) * ({})\".format(cur_el1.term(time), cur_el2.term(time))", "INDEXWALK/MultiplicationOperator", error_ok=True),
    S("C10", "loop-variable-renamed", OPS, "            res = \"\"\n            for k in range(dim2[0]):\n                res += \"({}) * ({}) + \".format(_get_sub_element_term(self.element_1,\n                                                                     [k], time), _get_sub_element_term(self.element_2, [k, index], time))",
      "            res = \"\"\n            for m in range(dim2[0]):\n                res += \"({}) * ({}) + \".format(_get_sub_element_term(self.element_1,\n                                                                     [m], time), _get_sub_element_term(self.element_2, [m, index], time))"),
]

# ---------------------------------------------------------------------------- C05
FPY = "BPTK_Py/util/floating_point.py"
RUN = "BPTK_Py/scenariorunners/sd_runner.py"
SMSD = "BPTK_Py/scenariomanager/scenario_manager_sd.py"
SMHY = "BPTK_Py/scenariomanager/scenario_manager_hybrid.py"
SCN = "BPTK_Py/scenariomanager/scenario.py"
CONST = "BPTK_Py/sddsl/constant.py"
VARIANTS += [
    F("C05", "timerange-drops-normalize", FPY, "        i=normalize(i+dt,base=dt,offset=starttime,precision=max(scale(starttime),scale(dt)))", "        i=i+dt", None, error_ok=True),
    F("C05", "timerange-wrong-offset", FPY, "        i=normalize(i+dt,base=dt,offset=starttime,precision=max(scale(starttime),scale(dt)))", "        i=normalize(i+dt,base=dt,offset=0.0,precision=max(scale(starttime),scale(dt)))", "NORM/timerange/parameters"),
    F("C05", "memo-probes-raw-arg", MODEL, "        if normalized_arg in mymemo.keys():\n            return mymemo[normalized_arg]", "        if arg in mymemo.keys():\n            return mymemo[arg]", "KEY/memoize"),
    F("C05", "memo-precision-from-dt-only", MODEL, "max(fp.scale(self.starttime), fp.scale(self.dt)))", "fp.scale(self.dt))", "NORM/memoize/parameters"),
    F("C05", "exclusive-raw-bound", SDSIM, "for i in timerange(start, until, self.mod.dt, exclusive=False):", "for i in timerange(start, until+self.mod.dt, self.mod.dt):", "RAW/SdSimulation.__simulate"),
    F("C05", "raw-session-clock", BPTK, 'self.session_state["step"]=normalize(step+dt, base=dt, offset=starttime, precision=max(scale(starttime), scale(dt)))', 'self.session_state["step"]=step+dt', "RAW/bptk.run_step/session-clock"),
    F("C05", "log-keyed-by-next-step", BPTK, '        self.session_state["results_log"][step] = simulation_results', '        self.session_state["results_log"][step+dt] = simulation_results', "RAW/bptk.run_step/key"),
    F("C05", "step-simulates-two-points", RUN, "start(output=[\"frame\"], start=step, until=step,equations=equations)", "start(output=[\"frame\"], start=step, until=step+sc.dt,equations=equations)", None, error_ok=True),
    S("C05", "key-variable-renamed", MODEL, "normalized_arg", "grid_time", count="all"),
    S("C05", "precision-in-a-local", FPY, "        i=normalize(i+dt,base=dt,offset=starttime,precision=max(scale(starttime),scale(dt)))", "        i=normalize(i+dt,base=dt,offset=starttime,precision=max(scale(dt),scale(starttime)))"),
]

# ---------------------------------------------------------------------------- C06
VARIANTS += [
    F("C06", "clone-shares-points", SMSD, "        new_mod.points = dict(model.points)", "        new_mod.points = model.points", "ALIAS/ScenarioManagerSd.get_cloned_model/points"),
    F("C06", "clone-shares-equations", SMSD, "        new_mod.points = dict(model.points)", "        new_mod.points = dict(model.points)\n        new_mod.equations = model.equations", "ALIAS/ScenarioManagerSd.get_cloned_model/equations"),
    F("C06", "clone-shares-memo", SMSD, "        new_mod.points = dict(model.points)", "        new_mod.points = dict(model.points)\n        new_mod.memo = model.memo", "ALIAS/ScenarioManagerSd.get_cloned_model/memo"),
    F("C06", "scenario-rebinds-points", SCN, "                self.model.points.update(self.points)", "                self.model.points = self.points", "REBIND/SimulationScenario.__init__/points"),
    F("C06", "hybrid-no-deepcopy", SMHY, "                    scenario = deepcopy(self.model)", "                    scenario = self.model", "FRESH/ScenarioManagerHybrid.instantiate_model"),
    F("C06", "one-clone-for-all", SMSD, "model=self.get_cloned_model(self.model),", "model=self.model,", "FRESH/add_scenarios"),
    F("C06", "manager-without-scenarios-arg", "BPTK_Py/bptk.py", "                    manager = ScenarioManagerSd(\n                        scenarios={},\n", "                    manager = ScenarioManagerSd(\n", "DEFAULTS/ScenarioManagerSd/scenarios"),
    S("C06", "points-copied-by-comprehension", SMSD, "        new_mod.points = dict(model.points)", "        new_mod.points = {k: v for k, v in model.points.items()}"),
    S("C06", "deepcopy-spelled-out", SMSD, "        new_mod.points = dict(model.points)", "        new_mod.points = copy.deepcopy(model.points)"),
]

# ---------------------------------------------------------------------------- C07
VARIANTS += [
    F("C07", "rest-stoptime-from-starttime", SRV, '                            scenario.stoptime = runspecs["stoptime"]', '                            scenario.stoptime = runspecs["starttime"]', "WIRING/BptkServer._run_resource/stoptime<-starttime"),
    F("C07", "session-settings-drop-points", SCN, '        if "points" in dictionary:\n            for key, value in dictionary["points"].items():\n                self.points[key] = value\n', '', "WIRING/SimulationScenario.configure_settings/missing-points"),
    F("C07", "batch-runner-drops-points", RUN, "                for name, points in sc.points.items():\n                    simu.change_points(name=name, value=points)\n", "", "APPLY/SdRunner._run_scenarios/change_points"),
    F("C07", "runspecs-write-delta", SDSIM, "        self.mod.dt = dt\n", "        self.mod.delta = dt\n", "DEFUSE/SdSimulation.change_runspecs"),
    F("C07", "starttime-typo", SDSIM, "        self.mod.starttime = starttime\n", "        self.mod.startime = starttime\n", "DEFUSE/SdSimulation.change_runspecs"),
    F("C07", "file-runspecs-killed", SMSD, '                    if "dt" not in runspecs:\n                        scenario.dt = scenario.model.dt', '                    scenario.dt = scenario.model.dt', "KILL/ScenarioManagerSd.instantiate_model/dt"),
    F("C07", "dt-spliced-early", OPS, '        return "model.dt"', '        return "{}".format(self.model.dt)', "BIND/DT.term"),
    F("C07", "points-filled-from-constants", SCN, '            for key, value in dictionary["points"].items():\n                self.points[key] = value', '            for key, value in dictionary["constants"].items():\n                self.points[key] = value', "WIRING/SimulationScenario.configure_settings"),
    F("C07", "base-constants-override-scenario", SMSD, '                for const, value in self.base_constants.items():\n                    if not const in scenario["constants"].keys():\n                        scenario["constants"][const] = value', '                for const, value in self.base_constants.items():\n                    scenario["constants"][const] = value', "MERGE/ScenarioManagerSd.add_scenarios/base_constants"),
    F("C07", "step-runner-swaps-dt", RUN, "sc.sd_simulation.change_runspecs(starttime=sc.starttime,stoptime=sc.stoptime,dt=sc.dt)", "sc.sd_simulation.change_runspecs(starttime=sc.starttime,stoptime=sc.dt,dt=sc.stoptime)", "APPLY/SdRunner.run_scenario_step/change_runspecs-wiring"),
    S("C07", "runspecs-positional", RUN, "simu.change_runspecs(starttime=sc.starttime,stoptime=sc.stoptime,dt=sc.dt)", "simu.change_runspecs(sc.starttime, sc.stoptime, sc.dt)"),
]

# ---------------------------------------------------------------------------- C08
VARIANTS += [
    F("C08", "flow-setter-no-reset", FLOW, "            self._equation = equation\n        self.model.reset_cache()\n        self.build_function_string()", "            self._equation = equation\n        self.build_function_string()", "MUSTCALL/Flow.equation.setter"),
    F("C08", "initial-value-no-reset", STOCK, "            self.model.reset_cache()\n            self.build_function_string()", "            self.build_function_string()", "MUSTCALL/Stock.initial_value.setter"),
    F("C08", "constant-resets-only-numbers", CONST, "            self._equation = None\n\n        self.model.reset_cache()\n        self.generate_function()", "            self._equation = None\n            self.model.reset_cache()\n\n        self.generate_function()", "MUSTCALL/Constant.equation.setter"),
    F("C08", "model-reset-clears-stocks-only", MODEL, "        for equation in self.memo:\n            self.memo[equation] = {}", "        for equation in self.memo:\n            if equation in self.stocks:\n                self.memo[equation] = {}", "CLEAR/Model.reset_cache"),
    F("C08", "scenario-reset-keeps-simulation", SCN, "            self.model.memo[key] = {}\n        self.sd_simulation = None", "            self.model.memo[key] = {}", "CLEAR/SimulationScenario.reset_cache/sd_simulation"),
    F("C08", "rest-settings-before-reset", SRV, "                    self._bptk.reset_scenario_cache(scenario_manager=scenario_manager_name,scenario=scenario_name)\n                    scenario = self._bptk.get_scenario(scenario_manager_name,scenario_name)", "                    scenario = self._bptk.get_scenario(scenario_manager_name,scenario_name)", "MUSTCALL/_run_resource"),
    S("C08", "reset-after-build", FLOW, "        self.model.reset_cache()\n        self.build_function_string()\n        self.generate_function()", "        self.build_function_string()\n        self.model.reset_cache()\n        self.generate_function()"),
    S("C08", "iterate-over-a-copy", MODEL, "        for equation in self.memo:\n            self.memo[equation] = {}", "        for equation in list(self.memo):\n            self.memo[equation] = {}"),
]

# ---------------------------------------------------------------------------- C09
ADP = "BPTK_Py/externalstateadapter/externalStateAdapter.py"
CMP = "BPTK_Py/util/statecompression.py"
VARIANTS += [
    F("C09", "session-stop-constant", BPTK, '            "stoptime": stoptime_,', '            "stoptime": 100,', "DERIVE/begin_session/stoptime"),
    F("C09", "session-dt-parameter-only", BPTK, '            "dt": dt_ if dt_ is not None else 1.0,', '            "dt": dt if dt is not None else 1.0,', "DERIVE/begin_session/dt"),
    F("C09", "step-simulates-next-point-too", RUN, "start(output=[\"frame\"], start=step, until=step,equations=equations)", "start(output=[\"frame\"], start=step, until=step+sc.dt,equations=equations)", "STEP/run_scenario_step/range"),
    F("C09", "json-shifted", RUN, '["equations"][equation]= df[equation].to_dict()', '["equations"][equation]= df[equation].shift(1).to_dict()', "SERIES/__generate_df"),
    F("C09", "log-after-advance", BPTK, '        # log settings and results\n        self.session_state["settings_log"][step] = settings\n        self.session_state["results_log"][step] = simulation_results\n\n        # move session step forward, staying on the decimal grid (a bare step+dt drifts: 0.30000000000000004, 0.7999999999999999)\n        starttime = self.session_state["starttime"]\n        self.session_state["step"]=normalize(step+dt, base=dt, offset=starttime, precision=max(scale(starttime), scale(dt)))\n',
      '        starttime = self.session_state["starttime"]\n        self.session_state["step"]=normalize(step+dt, base=dt, offset=starttime, precision=max(scale(starttime), scale(dt)))\n        self.session_state["settings_log"][step] = settings\n        self.session_state["results_log"][step] = simulation_results\n', "STEP/run_step/order"),
    F("C09", "new-simulation-every-step", RUN, "            if sc.sd_simulation is None:\n                # need to set up the sd simulation", "            if True:\n                # need to set up the sd simulation", "STEP/run_scenario_step/keep-simulation"),
    F("C09", "settings-applied-after-start", RUN, "            sc.result = sc.sd_simulation.start(output=[\"frame\"], start=step, until=step,equations=equations)\n", "            sc.result = sc.sd_simulation.start(output=[\"frame\"], start=step, until=step,equations=equations)\n            sc.sd_simulation.change_runspecs(starttime=sc.starttime,stoptime=sc.stoptime,dt=sc.dt)\n", "STEP/run_scenario_step/apply-before-start"),
    F("C09", "handler-rescales-result", SRV, "        if result is not None:\n            resp = make_response(jsonpickle.dumps(result), 200)\n        else:\n            resp = make_response('{\"error\": \"no data was returned from run_step\"}', 500)\n\n        if self._external_state_adapter != None:\n            self._external_state_adapter.save_instance(self._instance_manager._get_instance_state(instance_uuid))\n\n        resp.headers['Content-Type'] = 'application/json'\n        resp.headers['Access-Control-Allow-Origin']='*'\n        return resp\n\n    @token_required\n    def _run_steps_resource",
      "        if result is not None:\n            result = {k: result[k] for k in sorted(result)[:1]}\n            resp = make_response(jsonpickle.dumps(result), 200)\n        else:\n            resp = make_response('{\"error\": \"no data was returned from run_step\"}', 500)\n\n        if self._external_state_adapter != None:\n            self._external_state_adapter.save_instance(self._instance_manager._get_instance_state(instance_uuid))\n\n        resp.headers['Content-Type'] = 'application/json'\n        resp.headers['Access-Control-Allow-Origin']='*'\n        return resp\n\n    @token_required\n    def _run_steps_resource", "PASSTHROUGH/BptkServer._run_step_resource"),
    F("C09", "stop-time-not-served", BPTK, "        if step>stoptime:\n            return {\"msg\":\"Stoptime reached\"}", "        if step>=stoptime:\n            return {\"msg\":\"Stoptime reached\"}", "STEP/run_step/stop-test"),
    F("C09", "reads-unwritten-session-key", BPTK, '        return float(self.session_state["step"]) / float(self.session_state["stoptime"])', '        return float(self.session_state["step"]) / float(self.session_state["endtime"])', "KEYS/bptk.progress/endtime"),
    S("C09", "session-dict-reordered", BPTK, '            "step": starttime_,\n            "starttime": starttime_,', '            "starttime": starttime_,\n            "step": starttime_,'),
]

# ---------------------------------------------------------------------------- C16
VARIANTS += [
    F("C16", "instances-class-attribute", SRV, "class InstanceManager:\n    \"\"\"\n    The class is used to manipulate instances for storing cloned instances, and checking for the session timeout.\n    \"\"\"\n", "class InstanceManager:\n    \"\"\"\n    The class is used to manipulate instances for storing cloned instances, and checking for the session timeout.\n    \"\"\"\n    _cache = {}\n", "STATICS/InstanceManager._cache"),
    F("C16", "reconstruct-reuses-shared-bptk", SRV, "    def reconstruct_instance(self,instance_uuid,timeout,time,session_state):\n        instance = self._make_bptk()", "    def reconstruct_instance(self,instance_uuid,timeout,time,session_state):\n        instance = self._shared", "FACTORY/InstanceManager.reconstruct_instance/record"),
    F("C16", "factory-product-cached", SRV, "    def _make_bptk(self):\n        return self._bptk_factory()", "    def _make_bptk(self):\n        if not hasattr(self, '_one'):\n            self._one = self._bptk_factory()\n        return self._one", "FACTORY/"),
    F("C16", "session-state-class-level", BPTK, "class bptk():\n", "class bptk():\n    session_defaults = {}\n", "STATICS/bptk.session_defaults"),
    F("C16", "handler-uses-shared-bptk", SRV, "        instance = self._instance_manager.get_instance(instance_uuid)\n        instance.end_session()", "        instance = self._bptk\n        instance.end_session()", "NOSHARED/BptkServer._end_session_resource"),
    F("C16", "stop-clears-all", SRV, "        if instance_id in self._instances:\n            del self._instances[instance_id]", "        if instance_id in self._instances:\n            self._instances.clear()", "OWNID/"),
    F("C16", "handler-writes-config", SRV, "        instance = self._instance_manager.get_instance(instance_uuid)\n        instance.end_session()", "        instance = self._instance_manager.get_instance(instance_uuid)\n        instance.config.configuration[\"interactive\"] = False\n        instance.end_session()", None, error_ok=True),
    S("C16", "factory-via-local", SRV, "        instance_data = {\n            \"instance\": self._make_bptk(),\n            \"time\": datetime.datetime.now(),\n            \"timeout\": timeout\n        }\n        instance_uuid = uuid.uuid1().hex", "        new_instance = self._make_bptk()\n        instance_data = {\n            \"instance\": new_instance,\n            \"time\": datetime.datetime.now(),\n            \"timeout\": timeout\n        }\n        instance_uuid = uuid.uuid1().hex"),
]
VARIANTS = [v for v in VARIANTS if v["name"] != "handler-writes-config"]

# ---------------------------------------------------------------------------- C19
VARIANTS += [
    F("C19", "load-reads-unwritten-key", ADP, 'timeout = instance_data["data"]["timeout"]', 'timeout = instance_data["data"]["timeout_"]', "RECORD/FileAdapter"),
    F("C19", "save-drops-step", ADP, '                "timeout": state.timeout,\n                "step": state.step\n', '                "timeout": state.timeout\n', "RECORD/FileAdapter"),
    F("C19", "state-copies-results-only", SRV, "session_state = copy.deepcopy(instance['instance'].session_state)", "session_state = copy.deepcopy({\"results_log\": instance['instance'].session_state[\"results_log\"]})", "WHOLE/_get_instance_state/copy"),
    F("C19", "results-compressed-with-settings-function", ADP, '                state.state["results_log"] = statecompression.compress_results(state.state["results_log"])\n        return self._save_instance(state)', '                state.state["results_log"] = statecompression.compress_settings(state.state["results_log"])\n        return self._save_instance(state)', "WIRING/ExternalStateAdapter.save_instance/results_log"),
    F("C19", "load-forgets-decompress-settings", ADP, '            state.state["settings_log"] = statecompression.decompress_settings(state.state["settings_log"])\n            state.state["results_log"] = statecompression.decompress_results(state.state["results_log"])\n        return state\n\n\n    @abstractmethod', '            state.state["results_log"] = statecompression.decompress_results(state.state["results_log"])\n        return state\n\n\n    @abstractmethod', "WIRING/ExternalStateAdapter.load_instance/both-logs"),
    F("C19", "none-settings-unguarded", CMP, "        if settings[step] is None:\n            continue\n", "", "NULL/compress_settings"),
    F("C19", "delete-uses-other-path", ADP, 'os.remove(os.path.join(self.path, str(instance_uuid) + ".json"))', 'os.remove(os.path.join(self.path, str(instance_uuid) + ".state"))', "RECORD/FileAdapter/path"),
    F("C19", "instance-state-fields-swapped", SRV, 'return InstanceState(session_state, instance_uuid, instance["time"], instance["timeout"], session_state["step"])', 'return InstanceState(session_state, instance_uuid, instance["timeout"], instance["time"], session_state["step"])', "WIRING/InstanceManager._get_instance_state/InstanceState"),
    F("C19", "set-state-filters", BPTK, "        self.session_state = state\n", "        state.pop(\"settings_log\", None)\n        self.session_state = state\n", "WHOLE/_set_state/filter"),
    S("C19", "with-open", ADP, '        f = open(target + ".tmp", "w")\n        f.write(jsonpickle.dumps(data))\n        f.close()', '        with open(target + ".tmp", "w") as f:\n            f.write(jsonpickle.dumps(data))'),
]

# ---------------------------------------------------------------------------- C20
VARIANTS += [
    F("C20", "load-state-appends-none-again", ADP, "            if instance is not None:\n                instances.append(instance)", "            instances.append(instance)", "NULL/BptkServer"),
    F("C20", "swallow-all-exceptions", SDSIM, "            except KeyError:\n                log(\"[WARN] Unable to simulate equation", "            except Exception:\n                log(\"[WARN] Unable to simulate equation", None, error_ok=True),
    F("C20", "lazy-restore-unchecked", SRV, "        instance = self._external_state_adapter.load_instance(instance_uuid)\n        if instance == None:\n            return False\n", "        instance = self._external_state_adapter.load_instance(instance_uuid)\n", "NULL/_ensure_instance_exists"),
    S("C20", "filter-as-comprehension", ADP, "        for instance_uuid in instance_paths:\n            if not instance_uuid.endswith(\".json\"):\n                continue        # e.g. the half-written temporary file of an interrupted save\n            instance = self._load_instance(instance_uuid.split(\".\")[0])\n            # a file that cannot be read (e.g. truncated by a crash) costs that one instance only\n            if instance is not None:\n                instances.append(instance)\n", "        loaded = [self._load_instance(p.split(\".\")[0]) for p in instance_paths if p.endswith(\".json\")]\n        instances = [i for i in loaded if i is not None]\n"),
]

# ---------------------------------------------------------------------------- C03
PYG = "BPTK_Py/sdcompiler/generator/py/py.py"
GRM = "BPTK_Py/sdcompiler/parsers/smile/grammar.py"
STX = "BPTK_Py/sdcompiler/plugins/stockExpressions.py"
XML = "BPTK_Py/sdcompiler/parsers/xmile/xmile.py"
JIN = "BPTK_Py/sdcompiler/generator/py/jinja_template.py"
VARIANTS += [
    F("C03", "caret-stays-caret", PYG, '"^": lambda lhs, rhs: "{} ** {}"', '"^": lambda lhs, rhs: "{} ^ {}"', "FLAT/^"),
    F("C03", "mod-becomes-floordiv", PYG, '"mod": lambda lhs, rhs: "{} % {}"', '"mod": lambda lhs, rhs: "{} // {}"', "FLAT/mod"),
    F("C03", "minus-operands-swapped", PYG, '"-": lambda lhs, rhs: "{} - {}".format(parseExpression(lhs), parseExpression(rhs))', '"-": lambda lhs, rhs: "{} - {}".format(parseExpression(rhs), parseExpression(lhs))', "FLAT/-"),
    F("C03", "one-operator-parenthesises-right", PYG, '"*": lambda lhs, rhs: "{} * {}"', '"*": lambda lhs, rhs: "{} * ({})"', "FLAT/*"),
    F("C03", "paren-node-drops-parentheses", PYG, '"()": lambda body: "( {} )"', '"()": lambda body: " {} "', "FLAT/()"),
    # harmless: a conditional expression has the lowest precedence, so its bare branches keep any flat infix argument whole
    S("C03", "if-then-bare-is-harmless", PYG, "return '( (' + str(then) + ') if (' + str(condition) + ') else (' + str(otherwise) + ') )'", "return '( ' + str(then) + ' if (' + str(condition) + ') else (' + str(otherwise) + ') )'"),
    F("C03", "if-loses-outer-parens", PYG, "return '( (' + str(then) + ') if (' + str(condition) + ') else (' + str(otherwise) + ') )'", "return '(' + str(then) + ') if (' + str(condition) + ') else (' + str(otherwise) + ')'", "R1/builtins.if/not-self-delimiting"),
    F("C03", "stock-sum-without-paren-node", STX, "                        {\"name\": '-', \"type\": 'operator', \"args\": [\n                            inflows,\n                            {\"name\": '()', \"type\": 'operator', \"args\": [outflows]}\n                        ]}", "                        {\"name\": '-', \"type\": 'operator', \"args\": [\n                            inflows,\n                            outflows\n                        ]}", "IRLIT/StockExpressions"),
    F("C03", "unknown-operator-returns-zero", PYG, "        except KeyError:\n            raise Exception('Unknown Operator: {}'.format(expression))", "        except KeyError:\n            return \"0\"", "LOUD/parseExpression/operator-branch"),
    F("C03", "sqrt-bare-again", PYG, '"(({}) ** 0.5 )".format(', '"({} ** 0.5 )".format(', "R1/builtins.sqrt"),
    F("C03", "grammar-gains-unmapped-operator", GRM, "MultiplicativeOperator  = _ ( Asterisk / '/' / '^' / ~\"MOD\"i ) _", "MultiplicativeOperator  = _ ( Asterisk / '/' / '^' / '%' / ~\"MOD\"i ) _", "VOCAB/missing/%"),
    F("C03", "identifier-not-sanitised", GRM, "    def visit_SimpleIdentifier(self, node, visited_children):\n        return {\"name\":sanitizeName(node.text.lower()), \"type\": 'identifier'}", "    def visit_SimpleIdentifier(self, node, visited_children):\n        return {\"name\":node.text.lower(), \"type\": 'identifier'}", "NAMES/visit_SimpleIdentifier"),
    F("C03", "step-inverted", PYG, 'return "(0 if t < (" + str(time) + ") else " + str(height) + ")"', 'return "(0 if t > (" + str(time) + ") else " + str(height) + ")"', "R3/builtins.step"),
    F("C03", "ln-is-log10", PYG, '\'ln\': lambda *args: "(np.log({}))"', '\'ln\': lambda *args: "(np.log10({}))"', "R3/builtins.ln"),
    S("C03", "table-reordered", PYG, '    "+": lambda lhs, rhs: "{} + {}".format(parseExpression(lhs), parseExpression(rhs)),\n    "-": lambda lhs, rhs: "{} - {}".format(parseExpression(lhs), parseExpression(rhs)),', '    "-": lambda lhs, rhs: "{} - {}".format(parseExpression(lhs), parseExpression(rhs)),\n    "+": lambda lhs, rhs: "{} + {}".format(parseExpression(lhs), parseExpression(rhs)),'),
    S("C03", "paren-node-by-concatenation", PYG, '"()": lambda body: "( {} )".format(parseExpression(body)),', '"()": lambda body: "( " + str(parseExpression(body)) + " )",'),
]

# ---------------------------------------------------------------------------- C04
VARIANTS += [
    F("C04", "previous-dropped-around-flows", STX, "                            {\"name\": 'PREVIOUS', \"type\": 'call', \"args\": [sum]}", "                            sum", "EULER/StockExpressions/literal"),
    F("C04", "initial-test-strict", STX, "{\"name\": '<=', \"type\": 'operator', \"args\": [\n                        {\"name\": 'TIME'", "{\"name\": '<', \"type\": 'operator', \"args\": [\n                        {\"name\": 'TIME'", "EULER/StockExpressions/literal"),
    F("C04", "previous-replacement-keeps-t", PYG, 'body = re.sub(pattern_t, ",t-self.dt)", body)', 'body = re.sub(pattern_t, ",t)", body)', "PREV/previous"),
    F("C04", "non-negative-wrap-removed", XML, "                        elem[\"equation_parsed\"] = {\"name\": 'max', \"type\": 'call',\n                                                   \"args\": [0, deepcopy(elem[\"equation_parsed\"])]}", "                        pass", "NONNEG/parse_xmile/wrap"),
    F("C04", "lerp-high-clamp-first-y", JIN, "    if x >= x_vals[len(x_vals)-1]:\n        return y_vals[len(x_vals)-1]\n\n    f = interp1d(x_vals, y_vals)\n    return float(f(x))\n\nclass simulation_model", "    if x >= x_vals[len(x_vals)-1]:\n        return y_vals[0]\n\n    f = interp1d(x_vals, y_vals)\n    return float(f(x))\n\nclass simulation_model", "SIBLING/LERP/high-clamp"),
    F("C04", "generated-memo-raw-keys", JIN, "            if abs(arg - grid_point) < 1e-9:\n                arg = grid_point\n", "            pass\n", "TIME/jinja:simulation_model.memoize/key="),
    F("C04", "generated-memo-decimal-rounding", JIN, "            grid_point = self.starttime + round((arg - self.starttime) / self.dt) * self.dt\n            if abs(arg - grid_point) < 1e-9:\n                arg = grid_point\n", "            arg = round(arg, 10)\n", "TIME/jinja:simulation_model.memoize/not-grid-relative"),
    F("C04", "outflows-added", STX, "                        {\"name\": '-', \"type\": 'operator', \"args\": [\n                            inflows,", "                        {\"name\": '+', \"type\": 'operator', \"args\": [\n                            inflows,", "EULER/StockExpressions/net-both"),
    F("C04", "dt-from-stop", JIN, "        self.dt = {{specs.dt}}", "        self.dt = {{specs.stop}}", "TIME/jinja:__init__/dt"),
    S("C04", "literal-key-order", STX, "                expression = {\"name\": 'IF', \"type\": 'call', \"args\": [", "                expression = {\"type\": 'call', \"name\": 'IF', \"args\": ["),
]

# ---------------------------------------------------------------------------- more must-stay-silent variants
VARIANTS += [
    # C13: comparison form instead of the builtin; key order of the initialiser
    S("C13", "max-by-comparison", DC, "                            (self.agent_statistics[time][agent.agent_type][agent.state]\n                            [agent_property_name][\"max\"]) = (max(self.agent_statistics[time][agent.agent_type]\n                                                                 [agent.state][agent_property_name][\"max\"],\n                                                                 agent_property_value[\"value\"]))",
      "                            if agent_property_value[\"value\"] > self.agent_statistics[time][agent.agent_type][agent.state][agent_property_name][\"max\"]:\n                                self.agent_statistics[time][agent.agent_type][agent.state][agent_property_name][\"max\"] = agent_property_value[\"value\"]"),
    S("C13", "initialiser-reordered", DC, '"total": 0, "max": None, "min": None}', '"min": None, "max": None, "total": 0}'),
    S("C13", "total-spelled-out", DC, "[agent_property_name][\"total\"] += \\\n                        agent_property_value[\"value\"]", "[agent_property_name][\"total\"] = self.agent_statistics[time][agent.agent_type][agent.state][agent_property_name][\"total\"] + \\\n                        agent_property_value[\"value\"]"),
    # C11: agents iterated over a snapshot; index built with a different variable name
    S("C11", "index-variable-renamed", SIM, "        agents_by_id = {agent.id: agent for agent in model.agents}", "        agents_by_id = {a.id: a for a in model.agents}"),
    # C12: snapshot iteration is fine
    S("C12", "iterate-over-snapshot", SIM, "        for agent in model.agents:\n            agent.handle_events(", "        for agent in list(model.agents):\n            agent.handle_events(", error_ok=False),
    # C16: deep-copied module template is fine
    S("C16", "uuid4-instead-of-uuid1", SRV, "        instance_uuid = uuid.uuid1().hex", "        instance_uuid = uuid.uuid4().hex"),
    # C19: local for the path
    S("C19", "record-built-in-two-steps", ADP, '        f = open(target + ".tmp", "w")\n        f.write(jsonpickle.dumps(data))\n        f.close()', '        payload = jsonpickle.dumps(data)\n        f = open(target + ".tmp", "w")\n        f.write(payload)\n        f.close()'),
    # C20: atomic write would be an improvement, not a violation
    F("C20", "in-place-write-again", ADP, '        f = open(target + ".tmp", "w")\n        f.write(jsonpickle.dumps(data))\n        f.close()\n        os.replace(target + ".tmp", target)', '        f = open(target, "w")\n        f.write(jsonpickle.dumps(data))\n        f.close()', "ATOMIC/FileAdapter._save_instance/in-place-write"),
    S("C20", "temp-file-via-tempfile-module", ADP, '        f = open(target + ".tmp", "w")\n        f.write(jsonpickle.dumps(data))\n        f.close()\n        os.replace(target + ".tmp", target)', '        tmp = target + ".new"\n        with open(tmp, "w") as f:\n            f.write(jsonpickle.dumps(data))\n        os.replace(tmp, target)'),
    # C09: flat results computed from the same step dict
    S("C09", "stop-test-rearranged", BPTK, "        if step>stoptime:\n            return {\"msg\":\"Stoptime reached\"}", "        if stoptime<step:\n            return {\"msg\":\"Stoptime reached\"}"),
    # C08: explicit keys() iteration
    S("C08", "reset-over-keys", MODEL, "        for equation in self.memo:\n            self.memo[equation] = {}", "        for equation in self.memo.keys():\n            self.memo[equation] = {}"),
    # C17: explicit keywords for timedelta
    S("C17", "units-with-get", SRV, '"weeks": 0 if "weeks" not in timeout else timeout["weeks"],', '"weeks": timeout.get("weeks", 0),'),
    # C18: lock taken as first statement inside try
    S("C18", "unlock-in-finally-only-streamer", SRV, "                yield \"]\"\n                instance.unlock()\n            except:\n                instance.unlock()", "                yield \"]\"\n            finally:\n                instance.unlock()"),
]

VARIANTS += [
    S("C15", "refusal-returned-directly", SRV, "                if token != self._bearer_token:\n                    resp = make_response('{\"Unauthorized\": \"Authentication Token is wrong!\"}', 401)\n                    return resp",
      "                if token != self._bearer_token:\n                    return make_response('{\"Unauthorized\": \"Authentication Token is wrong!\"}', 401)"),
    S("C17", "timedelta-explicit-keywords", SRV, "                        timeout = datetime.timedelta(**self._instances[key][\"timeout\"])",
      "                        t_ = self._instances[key][\"timeout\"]\n                        timeout = datetime.timedelta(weeks=t_[\"weeks\"], days=t_[\"days\"], hours=t_[\"hours\"], minutes=t_[\"minutes\"], seconds=t_[\"seconds\"], milliseconds=t_[\"milliseconds\"], microseconds=t_[\"microseconds\"])"),
    S("C01", "flow-template-fstring", FLOW, 'self._function_string = "lambda model, t : max( {},{})".format(0,right_term)', 'self._function_string = f"lambda model, t : max( 0,{right_term})"'),
    S("C05", "memoize-precision-local", MODEL, "        normalized_arg= fp.normalize(arg, self.dt, self.starttime, max(fp.scale(self.starttime), fp.scale(self.dt)))",
      "        precision = max(fp.scale(self.starttime), fp.scale(self.dt))\n        normalized_arg= fp.normalize(arg, self.dt, self.starttime, precision)"),
    S("C06", "points-copy-method", SMSD, "        new_mod.points = dict(model.points)", "        new_mod.points = model.points.copy()"),
    S("C07", "settings-with-update", SCN, '            for key, value in dictionary["constants"].items():\n                self.constants[key] = value', '            self.constants.update(dictionary["constants"])'),
    S("C14", "count-through-agent-ids", MODEL, "        return len(self.agent_type_map[agent_type])", "        return len(self.agent_ids(agent_type))"),
    S("C16", "delete-with-pop", SRV, "        if instance_id in self._instances:\n            del self._instances[instance_id]", "        self._instances.pop(instance_id, None)"),
    S("C19", "load-with-open", ADP, '            f = open(os.path.join(self.path, str(instance_uuid) + ".json"), "r")\n            instance_data = jsonpickle.loads(f.read())', '            with open(os.path.join(self.path, str(instance_uuid) + ".json"), "r") as f:\n                instance_data = jsonpickle.loads(f.read())'),
    S("C10", "guard-operands-swapped", OPS, "        # Matrix matrix\n        if dim1[1] != dim2[0]:", "        # Matrix matrix\n        if dim2[0] != dim1[1]:"),
    S("C02", "multiplication-by-format", OPS, 'return "(" + self.element_1.term(time) + ") * (" + self.element_2.term(time) + ")"', 'return "({}) * ({})".format(self.element_1.term(time), self.element_2.term(time))', count=2),
    dict(prop="C03", kind="S", name="helper-renamed", count=1, edits=[(PYG, "def percent_(*args):", "def percent_of_(*args):"), (PYG, "'percent' : lambda *args : percent_(args),", "'percent' : lambda *args : percent_of_(args),")]),
    S("C04", "previous-pattern-names", PYG, "    pattern_t = r\"\\(?\\,? ([t+\\-]+)\\)\"\n    body = re.sub(pattern_t, \",t-self.dt)\", body)", "    pattern_time = r\"\\(?\\,? ([t+\\-]+)\\)\"\n    body = re.sub(pattern_time, \",t-self.dt)\", body)"),
    S("C08", "constant-setter-reset-first", CONST, "        self.model.reset_cache()\n        self.generate_function()", "        self.model.reset_cache()\n        self.model.reset_cache()\n        self.generate_function()"),
    S("C12", "time-into-local-twice", SIM, "        self.current_time = time\n", "        self.current_time = time\n        now = time\n"),
    S("C13", "fillna-with-keyword", HR, "        return pd.DataFrame(output).fillna(0)", "        return pd.DataFrame(output).fillna(value=0)"),
    S("C18", "is-locked-result-in-local", SRV, "        if(instance.is_locked()):\n            resp = make_response('{\"error\": \"instace is locked\"}', 500)\n            resp.headers['Content-Type'] = 'application/json'\n            resp.headers['Access-Control-Allow-Origin'] = '*'\n            return resp\n\n        if not request.is_json:\n            result = instance.run_step()",
      "        busy = instance.is_locked()\n        if busy:\n            resp = make_response('{\"error\": \"instace is locked\"}', 500)\n            resp.headers['Content-Type'] = 'application/json'\n            resp.headers['Access-Control-Allow-Origin'] = '*'\n            return resp\n\n        if not request.is_json:\n            result = instance.run_step()"),
    S("C20", "typed-tuple-handler", SDSIM, "            except KeyError:\n                log(\"[WARN] Unable to simulate equation", "            except (KeyError,):\n                log(\"[WARN] Unable to simulate equation"),
    S("C09", "equations-local-renamed", RUN, "            sc.result = sc.sd_simulation.start(output=[\"frame\"], start=step, until=step,equations=equations)", "            frame = sc.sd_simulation.start(output=[\"frame\"], start=step, until=step,equations=equations)\n            sc.result = frame"),
    S("C11", "handler-table-local-renamed", AGENT, "            handlers = self.eventHandlers[self.state]", "            handlers = self.eventHandlers[self.state]\n            table = handlers"),
]

VARIANTS += [
    S("C13", "count-through-cell-alias", DC, "            self.agent_statistics[time][agent.agent_type][agent.state][\"count\"] += 1\n",
      "            cell = self.agent_statistics[time][agent.agent_type][agent.state]\n            cell[\"count\"] += 1\n"),
    S("C15", "gate-early-return-when-unconfigured", SRV,
      "            if self._bearer_token is not None:\n                token = None\n                if \"Authorization\" in request.headers:\n                    # accept exactly \"Bearer <token>\": scheme and nothing after the credential\n                    parts = request.headers[\"Authorization\"].split(\" \")\n                    if len(parts) == 2 and parts[0] == \"Bearer\":\n                        token = parts[1]\n\n                if token is None:\n                    resp = make_response('{\"Unauthorized\": \"Authentication Token is missing!\"}', 401)\n                    return resp\n                \n                if token != self._bearer_token:\n                    resp = make_response('{\"Unauthorized\": \"Authentication Token is wrong!\"}', 401)\n                    return resp\n\n            return f(self, *args, **kwargs)",
      "            if self._bearer_token is None:\n                return f(self, *args, **kwargs)\n            token = None\n            if \"Authorization\" in request.headers:\n                parts = request.headers[\"Authorization\"].split(\" \")\n                if len(parts) == 2 and parts[0] == \"Bearer\":\n                    token = parts[1]\n            if token is None:\n                return make_response('{\"Unauthorized\": \"Authentication Token is missing!\"}', 401)\n            if token != self._bearer_token:\n                return make_response('{\"Unauthorized\": \"Authentication Token is wrong!\"}', 401)\n            return f(self, *args, **kwargs)"),
    S("C17", "sweep-over-list-copy", SRV, "        for key in tuple(self._instances.keys()): # we're iterating over a copy", "        for key in list(self._instances): # we're iterating over a copy"),
]

VARIANTS += [
    F("C03", "delay-offset-not-a-unit", PYG, "    tDelayed = re.sub(clean, r'\\1( t - (' + str(offset) + r') )\\2', input)", "    tDelayed = re.sub(clean, r'\\1( t - ' + str(offset) + r' )\\2', input)", "SHIFT/delay"),
    F("C03", "init-reads-stop-time", PYG, "'init': lambda *args: parseExpression(args).replace(\", t\", \", self.starttime\"),", "'init': lambda *args: parseExpression(args).replace(\", t\", \", self.stoptime\"),", "SHIFT/init"),
]

# ---------------------------------------------------------------------------- round 2: silent twins of the rules added for the second
# batch of seeded changes (the seeded patches themselves are must-fire variants, see selftest.run_selftest)
FUNCS = "BPTK_Py/sddsl/functions.py"
GRAMMAR = "BPTK_Py/sdcompiler/parsers/smile/grammar.py"
STOCKX = "BPTK_Py/sdcompiler/plugins/stockExpressions.py"
SMFAC = "BPTK_Py/scenariomanager/scenario_manager_factory.py"
SDRUN = "BPTK_Py/scenariorunners/sd_runner.py"
ADAPT = "BPTK_Py/externalstateadapter/externalStateAdapter.py"
COMPR = "BPTK_Py/util/statecompression.py"

VARIANTS += [
    # TRUTH: identity test on an operand is fine, so is a default
    S("C02", "if-default-else-identity", FUNCS, "def If(if_, then_, else_):\n    from .operators import If\n    return If(if_, then_, else_)",
      "def If(if_, then_, else_=None):\n    from .operators import If\n    return If(if_, then_, 0.0 if else_ is None else else_)"),
    F("C02", "min-operand-compared", FUNCS, "def exp(x): return Exp(x)", "def exp(x):\n    if x == 0:\n        return 1.0\n    return Exp(x)", "TRUTH/exp/x"),
    # PAREN: dropping the node for identifiers only is harmless
    S("C03", "paren-identifier-bare", GRAMMAR,
      "            _, Sentence, _ = visited_children[0]\n            return {\"name\": '()', \"type\": 'operator', \"args\": [Sentence]}",
      "            _, Sentence, _ = visited_children[0]\n            if type(Sentence) is dict and Sentence[\"type\"] == \"identifier\":\n                return Sentence\n"
      "            return {\"name\": '()', \"type\": 'operator', \"args\": [Sentence]}"),
    F("C03", "paren-always-bare", GRAMMAR,
      "            return {\"name\": '()', \"type\": 'operator', \"args\": [Sentence]}\n            # return Sentence",
      "            return Sentence", "PAREN/visit_Atom/bare-sentence"),
    # JOIN
    S("C04", "join-fold-renamed", STOCKX, "        for index, elem in enumerate(reversed(rest)):\n            already_reduced = reduce(already_reduced,elem)",
      "        for elem in reversed(rest):\n            already_reduced = reduce(already_reduced, elem)"),
    F("C04", "join-fold-returns-seed", STOCKX, "            already_reduced = reduce(already_reduced,elem)\n\n        return already_reduced",
      "            already_reduced = reduce(already_reduced,elem)\n\n        return initial", "JOIN/JoinedExpression/returns-initial"),
    F("C04", "join-partition-overlap", STOCKX, "        tail = names[-2:]\n        rest = names[:-2]\n\n        already_reduced = initial = {\n\t\t\t\"name\"",
      "        tail = names[-2:]\n        rest = names[:-1]\n\n        already_reduced = initial = {\n\t\t\t\"name\"", "JOIN/JoinedExpression/partition"),
    # closure: binding the value as a default argument is the standard repair
    S("C09", "step-constants-bound-default", SDRUN, "                                sc.sd_simulation.change_equation(name=name, value=value)",
      "                                sc.sd_simulation.change_equation(name=name, value=(lambda t, value=value: value) if callable(value) else value)"),
    # STALE: rebinding on every iteration is fine
    S("C06", "step-settings-rebound-each-iteration", SDRUN, "            # now the settings relevant for this step\n",
      "            # now the settings relevant for this step\n            step_settings = {}\n            if settings and scenario_manager in settings and scenario in settings[scenario_manager]:\n"
      "                step_settings = settings[scenario_manager][scenario]\n            log(str(step_settings))\n"),
    # partial file list: the complete list under another name
    S("C07", "base-values-from-complete-list-alias", SMFAC,
      "                manager.base_constants = self.__get_all_base_constants(scenario_manager_name, self.scenario_files)",
      "                all_files = self.scenario_files\n                manager.base_constants = self.__get_all_base_constants(scenario_manager_name, all_files)"),
    # AXIS
    S("C10", "axis-loop-vars-renamed", ELEM, "                        for i in range(dims[0]):\n                            for j in range(dims[1]):\n                                self[i][j].equation = equation.clone_with_index([i, j])",
      "                        for row in range(dims[0]):\n                            for col in range(dims[1]):\n                                self[row][col].equation = equation.clone_with_index([row, col])"),
    F("C10", "axis-swapped-index-list", ELEM, "                                self[i][j] = equation.clone_with_index([i, j])",
      "                                self[i][j] = equation.clone_with_index([j, i])", "AXIS/Element._handle_arrayed/list:clone_with_index"),
    # shared id list
    S("C14", "reset-dict-comprehension", MODEL, "        for agent_type in self.agent_type_map:\n            self.agent_type_map[agent_type] = []\n\n        self.agents = []\n\n",
      "        self.agent_type_map = {agent_type: [] for agent_type in self.agent_type_map}\n\n        self.agents = []\n\n"),
    # timeout pass-through
    S("C17", "saved-timeout-copied", ADAPT, '                "timeout": state.timeout,', '                "timeout": dict(state.timeout),'),
    F("C17", "loaded-timeout-from-step", ADAPT, '            timeout = instance_data["data"]["timeout"]', '            timeout = instance_data["data"]["step"]', "WIRING/FileAdapter._load_instance/timeout"),
    # step order
    S("C19", "compress-results-sorted-numeric", COMPR, "    for step in results.keys():\n        # loop over all scenario managers in the step",
      "    for step in sorted(results.keys(), key=float):\n        # loop over all scenario managers in the step"),
    # truncation / externalise after step
    S("C20", "state-file-private-and-truncated", ADAPT,
      '        f = open(target + ".tmp", "w")\n        f.write(jsonpickle.dumps(data))\n        f.close()',
      '        fd = os.open(target + ".tmp", os.O_WRONLY | os.O_CREAT | os.O_TRUNC, 0o600)\n'
      '        with os.fdopen(fd, "w") as f:\n            f.write(jsonpickle.dumps(data))'),
    F("C20", "state-file-appended", ADAPT, '        f = open(target + ".tmp", "w")',
      '        f = open(target + ".tmp", "a")', "ATOMIC/FileAdapter._save_instance/not-truncated"),
    S("C20", "save-adapter-local-alias", SRV, "            resp = make_response('{\"error\": \"no data was returned from run_step\"}', 500)\n\n        if self._external_state_adapter != None:\n            self._external_state_adapter.save_instance(",
      "            resp = make_response('{\"error\": \"no data was returned from run_step\"}', 500)\n\n        if self._external_state_adapter is not None:\n            self._external_state_adapter.save_instance(", count="all"),
    # scalar lockset: a local is not shared
    S("C08", "memo-key-local-cache", MODEL, "        normalized_arg= fp.normalize(", "        key_cache = None\n        normalized_arg= fp.normalize("),
    # last step: >= against the bounds is the same test inside the loops
    S("C12", "last-step-geq", SIM, "if sim_round == model.stoptime and step == (round(1 / model.dt) - 1):", "if sim_round >= model.stoptime and step >= (round(1 / model.dt) - 1):"),
]

VARIANTS += [
    S("C02", "numeric-guarded-compare", FUNCS, "def exp(x): return Exp(x)", "def exp(x):\n    if isinstance(x, (int, float)) and x == 0:\n        return Exp(0.0)\n    return Exp(x)"),
    S("C06", "correlated-branches", SDRUN,
      "                        if \"constants\" in settings[scenario_manager][scenario]:\n                            constants = settings[scenario_manager][scenario][\"constants\"]\n                            for name, value in constants.items():\n                                sc.sd_simulation.change_equation(name=name, value=value)",
      "                        if \"constants\" in settings[scenario_manager][scenario]:\n                            constants = settings[scenario_manager][scenario][\"constants\"]\n"
      "                        if \"constants\" in settings[scenario_manager][scenario]:\n                            for name, value in constants.items():\n                                sc.sd_simulation.change_equation(name=name, value=value)"),
    dict(prop="C20", kind="S", name="save-through-helper", count="all", edits=[
        (SRV, "    def _run_steps_resource(self, instance_uuid):",
         "    def _externalise(self, instance_uuid):\n        if self._external_state_adapter != None:\n            self._external_state_adapter.save_instance(self._instance_manager._get_instance_state(instance_uuid))\n\n"
         "    def _run_steps_resource(self, instance_uuid):"),
        (SRV, "            resp = make_response('{\"error\": \"no data was returned from run_step\"}', 500)\n\n        if self._external_state_adapter != None:\n            self._external_state_adapter.save_instance(self._instance_manager._get_instance_state(instance_uuid))\n",
         "            resp = make_response('{\"error\": \"no data was returned from run_step\"}', 500)\n\n        self._externalise(instance_uuid)\n"),
    ]),
]
