"""Self-validation of the checkers (thorough tier).

Every property has *must-fire* variants (one construct of the repository broken
by a source edit that still compiles; the check must report a new violation
whose key names that construct) and *must-stay-silent* variants (behaviour-
preserving rewrites; the check must stay silent and must not fall into an
ANALYSIS-ERROR).  Variants exist only in memory (an overlay over the files read
from /repo); nothing is written to /repo or /verif and nothing is executed.

A missed must-fire variant or a noisy silent variant means the *checker* is
broken -> AnalysisError (exit 2).  Strict mode (every variant must apply)
holds when the digest of BPTK_Py equals the one recorded when the variants
were written; on any other tree a variant whose anchor text no longer exists is
skipped with a note - somebody else's edit is not the checker's failure.
"""
from __future__ import annotations

import importlib
import multiprocessing as mp
import os
import traceback
from typing import Dict, List, Optional, Tuple

from .core import VERIF_ROOT, AnalysisError, Index, Result, load_known

DIGEST_FILE = os.path.join(VERIF_ROOT, "bptkverif", "variants_digest.txt")


def apply_unified_diff(repo: str, difftext: str, base: Optional[Dict[str, str]] = None) -> Optional[Dict[str, str]]:
    """Apply a git unified diff to the files under *repo* in memory; None if a hunk does not match.
    *base*: an overlay the diff is applied on top of (two changes composed)."""
    import re
    overlay: Dict[str, str] = dict(base or {})
    files = re.split(r"^diff --git .*$", difftext, flags=re.M)[1:]
    for block in files:
        rf = re.search(r"^rename from (.+)$", block, flags=re.M)
        rt = re.search(r"^rename to (.+)$", block, flags=re.M)
        if rf and rt and not re.search(r"^\+\+\+ ", block, flags=re.M):
            src_rel, dst_rel = rf.group(1).strip(), rt.group(1).strip()
            text = overlay.get(src_rel)
            if text is None:
                with open(os.path.join(repo, src_rel), encoding="utf-8") as fh:
                    text = fh.read()
            overlay[dst_rel] = text
            overlay[src_rel] = None
    for block in files:
        m = re.search(r"^\+\+\+ b/(.+)$", block, flags=re.M)
        if not m:
            # a file the change removes (or renames away): +++ /dev/null, or a pure rename header
            d = re.search(r"^--- a/(.+)$", block, flags=re.M)
            if d and re.search(r"^\+\+\+ /dev/null$", block, flags=re.M):
                overlay[d.group(1).strip()] = None
            continue
        rel = m.group(1).strip()
        srcm = re.search(r"^--- a/(.+)$", block, flags=re.M)
        src_rel = srcm.group(1).strip() if srcm else rel
        if re.search(r"^--- /dev/null$", block, flags=re.M):
            lines = []                                   # a file the change adds
        elif overlay.get(src_rel) is not None:
            lines = overlay[src_rel].split("\n")
        else:
            with open(os.path.join(repo, src_rel), encoding="utf-8") as fh:
                lines = fh.read().split("\n")
        if src_rel != rel:
            overlay[src_rel] = None                      # renamed and edited
        out: List[str] = []
        pos = 0
        hunks = re.split(r"^(@@ -\d+(?:,\d+)? \+\d+(?:,\d+)? @@.*)$", block, flags=re.M)[1:]
        for i in range(0, len(hunks), 2):
            hm = re.match(r"@@ -(\d+)(?:,(\d+))? \+", hunks[i])
            start = max(0, int(hm.group(1)) - 1)
            body = hunks[i + 1].split("\n")[1:]
            # like `git apply`: the hunk may have moved (another change in the file shifted the lines) - look for its old text nearby
            want = [ln[1:] for ln in body if ln.startswith("-") or ln.startswith(" ")]
            while want and want[-1] == "" and body and body[-1] == "":
                break
            if want:
                def fits(at):
                    return at >= pos and lines[at:at + len(want)] == want
                if not fits(start):
                    trimmed = want
                    for off in sorted(range(-80, 81), key=abs):
                        if fits(start + off):
                            start = start + off
                            break
            if start < pos:
                return None
            out += lines[pos:start]
            pos = start
            for ln in body:
                if ln.startswith("\\"):
                    continue
                if ln.startswith("+"):
                    out.append(ln[1:])
                elif ln.startswith("-"):
                    if pos >= len(lines) or lines[pos] != ln[1:]:
                        return None
                    pos += 1
                elif ln.startswith(" ") or ln == "":
                    if ln == "" and (pos >= len(lines) or lines[pos] != ""):
                        continue          # trailing split artefact
                    if pos >= len(lines) or lines[pos] != ln[1:]:
                        return None
                    out.append(lines[pos])
                    pos += 1
        out += lines[pos:]
        overlay[rel] = "\n".join(out)
    return overlay or None


def _apply(repo: str, v: dict) -> Optional[Dict[str, str]]:
    if "diff" in v:
        base = None
        if "base_diff" in v:                  # a defect change on top of a behaviour-preserving change
            with open(v["base_diff"], encoding="utf-8") as fh:
                base = apply_unified_diff(repo, fh.read())
            if base is None:
                return None
        with open(v["diff"], encoding="utf-8") as fh:
            ov = apply_unified_diff(repo, fh.read(), base)
        if ov is None:
            return None
        if base is not None:
            for rel, text in ov.items():
                if text is None:
                    continue
                try:
                    compile(text, rel, "exec", dont_inherit=True)
                except SyntaxError:
                    return None           # the two changes do not compose into a program: not a variant
        for rel, text in ov.items():
            if text is None:
                continue
            try:
                compile(text, rel, "exec", dont_inherit=True)
            except SyntaxError as e:
                raise AnalysisError("seeded change %s does not compile: %s" % (v["name"], e))
        return ov
    overlay: Dict[str, str] = {}
    for rel, old, new in v["edits"]:
        path = os.path.join(repo, rel)
        text = overlay.get(rel)
        if text is None:
            with open(path, encoding="utf-8") as fh:
                text = fh.read()
        cnt = text.count(old)
        if cnt == 0:
            return None
        want = v.get("count", 1)
        if want != "all" and cnt != want:
            return None
        text = text.replace(old, new)
        try:
            compile(text, rel, "exec", dont_inherit=True)
        except SyntaxError as e:
            raise AnalysisError("variant %s does not compile: %s" % (v["name"], e))
        overlay[rel] = text
    return overlay


def _run_one(args) -> Tuple[str, str, List[str], Optional[str]]:
    prop, modname, fname, repo, v, known_keys = args
    try:
        overlay = _apply(repo, v)
        if overlay is None:
            return v["name"], "skipped", [], None
        import warnings
        warnings.simplefilter("ignore")
        mod = importlib.import_module("bptkverif.checks." + modname)
        fn = getattr(mod, fname)
        res = Result(prop)
        err = None
        try:
            idx = Index(repo, overlay)
            fn(idx, "quick", res)
            for name, count, floor in res.floors:
                if count < floor:
                    raise AnalysisError("floor '%s' %d < %d" % (name, count, floor))
        except AnalysisError as e:
            err = str(e)
        except Exception:
            err = "internal: " + traceback.format_exc(limit=4)
        new = [f.key for f in res.findings if f.key not in known_keys]
        return v["name"], "ran", new, err
    except AnalysisError as e:
        return v["name"], "broken", [], str(e)


def run_selftest(prop: str, repo: str, res: Result) -> None:
    from .__main__ import REGISTRY
    from .variants import VARIANTS
    variants = [v for v in VARIANTS if v["prop"] == prop]
    # the seeded changes kept under /verif/seeded are must-fire variants of their property as well
    sdir = os.path.join(VERIF_ROOT, "seeded")
    if os.path.isdir(sdir):
        import json
        for name in sorted(os.listdir(sdir)):
            meta_path = os.path.join(sdir, name, "meta.json")
            dp = os.path.join(sdir, name, "patch.diff")
            if os.path.exists(meta_path) and os.path.exists(dp):
                meta = json.load(open(meta_path))
                if meta.get("kept") and meta.get("property") == prop and meta.get("detected", True) is False:
                    # confirmed change that no rule reports yet (an open miss, listed in DESIGN.md section 8, round 10): kept in the
                    # corpus, not claimed as detected, so not a must-fire variant
                    res.note("self-validation: seeded change %s is a documented miss of this check (not a must-fire variant)" % name)
                    continue
                if meta.get("kept") and meta.get("property") == prop:
                    variants.append(dict(prop=prop, kind="F", name="seeded:" + name, diff=dp, expect=None,
                                         error_ok=meta.get("detected") == "analysis-error"))
                    # ... and the same defect in a tree that was also cleaned up (renames, moves, collaborators): the view must not hide it
                    for rn in ("T1", "T2", "T3", "T4"):
                        bp = os.path.join(VERIF_ROOT, "refactors", "%s_%s" % (prop, rn), "patch.diff")
                        bm = os.path.join(VERIF_ROOT, "refactors", "%s_%s" % (prop, rn), "meta.json")
                        if os.path.exists(bp) and os.path.exists(bm) and json.load(open(bm)).get("kept"):
                            variants.append(dict(prop=prop, kind="F", name="seeded:%s+refactor:%s_%s" % (name, prop, rn), diff=dp, base_diff=bp,
                                                 expect=None, optional=True))
    # behaviour-preserving changes kept under /verif/refactors are must-stay-silent variants of *every* property
    rdir = os.path.join(VERIF_ROOT, "refactors")
    if os.path.isdir(rdir):
        import json
        for name in sorted(os.listdir(rdir)):
            meta_path = os.path.join(rdir, name, "meta.json")
            dp = os.path.join(rdir, name, "patch.diff")
            if os.path.exists(meta_path) and os.path.exists(dp) and json.load(open(meta_path)).get("kept"):
                variants.append(dict(prop=prop, kind="S", name="refactor:" + name, diff=dp))
    if not variants:
        res.note("self-validation: no variants registered for %s" % prop)
        return
    modname, fname = REGISTRY[prop][:2]
    known_keys = {k["key"] for k in load_known() if k.get("property") == prop and not k.get("fixed")}
    strict = False
    try:
        recorded = open(DIGEST_FILE).read().split()[0]
        strict = recorded == Index(repo).digest.hexdigest()[:16]
    except (OSError, IndexError):
        pass
    jobs = [(prop, modname, fname, repo, v, known_keys) for v in variants]
    nproc = min(16, len(jobs), os.cpu_count() or 1)
    if nproc > 1:
        with mp.get_context("fork").Pool(nproc) as pool:
            outs = pool.map(_run_one, jobs, chunksize=1)
    else:
        outs = [_run_one(j) for j in jobs]
    problems = []
    fired = silent = skipped = 0
    detail = []
    for v, (name, status, new, err) in zip(variants, outs):
        if status == "skipped":
            skipped += 1
            if v.get("optional"):
                continue                  # the two changes touch the same lines: nothing to compose
            if strict:
                problems.append("variant %s: anchor text not found on the tree the variants were written for" % name)
            else:
                res.note("self-validation: variant %s skipped (anchor changed)" % name)
            continue
        if status == "broken":
            problems.append("variant %s: %s" % (name, err))
            continue
        if v["kind"] == "F":
            exp = v.get("expect")
            hit = [k for k in new if (exp is None or exp in k)]
            also_err = err is not None and v.get("error_ok")
            if hit or also_err:
                fired += 1
                detail.append({"variant": name, "kind": "must-fire", "reported": hit[:2] or ["ANALYSIS-ERROR: " + (err or "")[:80]]})
            else:
                problems.append("must-fire variant %s was missed (new findings: %s; error: %s)" % (name, new[:3], err))
        else:
            if new or err:
                problems.append("must-stay-silent variant %s raised %s %s" % (name, new[:3], err or ""))
            else:
                silent += 1
                detail.append({"variant": name, "kind": "must-stay-silent", "reported": []})
        res.ob("SELFTEST", "%s variant %s" % (v["kind"], name), not (problems and name in problems[-1]), nontrivial=True)
    res.extra["selftest"] = {"strict": strict, "must_fire_detected": fired, "must_stay_silent_ok": silent,
                             "skipped": skipped, "variants": len(variants)}
    res.samples += detail[:6]
    res.note("self-validation: %d must-fire detected, %d silent variants silent, %d skipped (strict=%s)"
             % (fired, silent, skipped, strict))
    if problems:
        raise AnalysisError("; ".join(problems[:6]))
