"""Entry point:  /venv/bin/python -m bptkverif <Cxx> [--tier quick|thorough] [--repo /repo]"""
from __future__ import annotations

import argparse
import importlib
import os
import sys

from .core import run_check

REGISTRY = {
    # property id -> (module, function[, selftest function])
    "C01": ("sddsl_templates", "check_c01"),
    "C02": ("sddsl_templates", "check_c02"),
    "C03": ("xmile", "check_c03"),
    "C04": ("xmile", "check_c04"),
    "C05": ("timegrid", "check_c05"),
    "C06": ("scenarios", "check_c06"),
    "C07": ("scenarios", "check_c07"),
    "C08": ("memo", "check_c08"),
    "C09": ("channels", "check_c09"),
    "C10": ("arrays", "check_c10"),
    "C11": ("abm", "check_c11"),
    "C12": ("abm", "check_c12"),
    "C13": ("abm", "check_c13"),
    "C14": ("abm", "check_c14"),
    "C15": ("server", "check_c15"),
    "C16": ("server", "check_c16"),
    "C17": ("server", "check_c17"),
    "C18": ("server", "check_c18"),
    "C19": ("state", "check_c19"),
    "C20": ("state", "check_c20"),
}


def main(argv=None) -> int:
    ap = argparse.ArgumentParser(prog="bptkverif")
    ap.add_argument("prop")
    ap.add_argument("--tier", default=os.environ.get("VERIF_TIER") or "quick", choices=["quick", "thorough"])
    ap.add_argument("--repo", default=os.environ.get("BPTKVERIF_REPO", "/repo"))
    ap.add_argument("--evidence-dir", default=None)
    ap.add_argument("--known", default=None)
    ap.add_argument("--quiet", action="store_true")
    ap.add_argument("--no-selftest", action="store_true")
    a = ap.parse_args(argv)
    prop = a.prop.upper()
    if prop not in REGISTRY:
        print("ANALYSIS-ERROR property=%s unknown property" % prop)
        return 2
    modname, fname = REGISTRY[prop][:2]
    try:
        mod = importlib.import_module("bptkverif.checks." + modname)
        fn = getattr(mod, fname)
    except Exception as e:  # pragma: no cover
        print("ANALYSIS-ERROR property=%s cannot load checker: %r" % (prop, e))
        return 2
    selftest = None
    if a.tier == "thorough" and not a.no_selftest:
        try:
            st = importlib.import_module("bptkverif.selftest")
            selftest = lambda repo, res: st.run_selftest(prop, repo, res)  # noqa: E731
        except ImportError:
            selftest = None
    return run_check(prop, fn, a.repo, a.tier, a.evidence_dir, a.quiet, a.known, selftest)


if __name__ == "__main__":
    sys.exit(main())
