"""Rename resolution: the rules name the functions and attributes of the mechanism as the pinned tree names them.

A clean-up that renames an internal method (`_timeout_instances` -> `_sweep_expired`) or a private attribute
(`self._instances` -> `self._table`) leaves behaviour alone, and must not turn every rule anchored on the old name into
"anchor vanished".  Before the analysis view is built, the current tree is compared with a profile of the pinned tree
(`baseline_profile.json`, written by tools/gen_baseline_profile.py): a function of the profile that no longer exists under its
name is matched against the functions that exist now and are not in the profile, by a name-independent fingerprint of the body
(what it calls, which attributes and constants it touches, its statement kinds); the same for the attributes a class stores on
`self`.  A match must be the mutual best, clearly ahead of the runner-up and above a similarity threshold; then the *view* is
alpha-renamed back (definition and every reference in the package), so that the rules read the renamed program under the
names they know.  No match -> nothing is renamed and the rule's anchor lookup fails closed as before.

The fingerprints are computed on the raw syntax trees.  To survive "rename + extract" clean-ups the fingerprint of a candidate
also counts the bodies of the not-in-profile functions it calls.
"""
from __future__ import annotations

import ast
import json
import os
from collections import Counter
from typing import Dict, Iterable, List, Optional, Set, Tuple

PROFILE = os.path.join(os.path.dirname(os.path.abspath(__file__)), "baseline_profile.json")

_STMT = (ast.If, ast.For, ast.While, ast.Try, ast.With, ast.Return, ast.Raise, ast.Assign, ast.AugAssign, ast.Delete, ast.Yield,
         ast.YieldFrom, ast.Break, ast.Continue, ast.Assert, ast.ListComp, ast.DictComp, ast.Lambda, ast.Compare, ast.BoolOp)


def _docless(body):
    if body and isinstance(body[0], ast.Expr) and isinstance(body[0].value, ast.Constant) and isinstance(body[0].value.value, str):
        return body[1:]
    return body


def func_tokens(fn: ast.AST) -> List[str]:
    toks: List[str] = []
    a = fn.args
    toks.append("arity:%d" % len(a.posonlyargs + a.args + a.kwonlyargs))
    stack = list(_docless(list(fn.body)))
    while stack:
        n = stack.pop()
        if isinstance(n, (ast.FunctionDef, ast.AsyncFunctionDef)):
            toks.append("def")
            stack.extend(_docless(list(n.body)))
            continue
        if isinstance(n, ast.Call):
            f = n.func
            nm = f.attr if isinstance(f, ast.Attribute) else (f.id if isinstance(f, ast.Name) else None)
            if nm:
                toks.append("call:" + nm)
            for k in n.keywords:
                if k.arg:
                    toks.append("kw:" + k.arg)
        elif isinstance(n, ast.Attribute):
            toks.append("attr:" + n.attr)
        elif isinstance(n, ast.Constant):
            if isinstance(n.value, str):
                toks.append("str:" + n.value[:60])
            elif isinstance(n.value, (int, float)) and not isinstance(n.value, bool):
                toks.append("num:%r" % n.value)
        elif isinstance(n, ast.Name) and n.id in ("self", "cls"):
            pass
        if isinstance(n, _STMT):
            toks.append("node:" + type(n).__name__)
        stack.extend(ast.iter_child_nodes(n))
    return toks


def iter_funcs(tree: ast.Module) -> Iterable[Tuple[str, Optional[str], ast.AST]]:
    """(qual, class, node) for every function of a module, nested ones as Parent.inner."""
    def rec(body, prefix, cls):
        for n in body:
            if isinstance(n, (ast.FunctionDef, ast.AsyncFunctionDef)):
                q = prefix + n.name
                yield q, cls, n
                yield from rec_nested(n, q + ".", cls)
            elif isinstance(n, ast.ClassDef) and not prefix:
                yield from rec(n.body, n.name + ".", n.name)

    def rec_nested(fn, prefix, cls):
        stack = list(fn.body)
        while stack:
            n = stack.pop()
            if isinstance(n, (ast.FunctionDef, ast.AsyncFunctionDef)):
                q = prefix + n.name
                yield q, cls, n
                yield from rec_nested(n, q + ".", cls)
                continue
            if isinstance(n, (ast.ClassDef, ast.Lambda)):
                continue
            stack.extend(ast.iter_child_nodes(n))
    yield from rec(tree.body, "", None)


def _ctx_of(parent: ast.AST, node: ast.Attribute, grand: Optional[ast.AST]) -> str:
    if isinstance(node.ctx, ast.Store):
        return "store"
    if isinstance(node.ctx, ast.Del):
        return "del"
    if isinstance(parent, ast.Subscript) and parent.value is node:
        if isinstance(parent.ctx, ast.Store):
            return "sub-store"
        if isinstance(parent.ctx, ast.Del):
            return "sub-del"
        return "sub-load"
    if isinstance(parent, ast.Attribute) and parent.value is node:
        if isinstance(grand, ast.Call) and grand.func is parent:
            return "call." + parent.attr
        return "attr." + parent.attr
    if isinstance(parent, ast.Call) and parent.func is node:
        return "called"
    if isinstance(parent, (ast.For, ast.comprehension)) and parent.iter is node:
        return "iter"
    if isinstance(parent, ast.Compare):
        return "compare"
    if isinstance(parent, ast.Call):
        return "arg"
    return "load"


def class_attr_tokens(cdef: ast.ClassDef) -> Dict[str, List[str]]:
    """attribute name -> usage tokens "<method>:<context>" for every `self.X` / `cls.X` occurrence in the class; only attributes the
    class stores (self.X = ..., or a class-level X = ...) are attributes *of the class*."""
    uses: Dict[str, List[str]] = {}
    stored: Set[str] = set()
    for n in cdef.body:
        if isinstance(n, ast.Assign):
            for t in n.targets:
                if isinstance(t, ast.Name):
                    stored.add(t.id)
                    uses.setdefault(t.id, []).append("class:store")
        elif isinstance(n, ast.AnnAssign) and isinstance(n.target, ast.Name):
            stored.add(n.target.id)
            uses.setdefault(n.target.id, []).append("class:store")
    for m in cdef.body:
        if not isinstance(m, (ast.FunctionDef, ast.AsyncFunctionDef)):
            continue
        stack: List[Tuple[ast.AST, Optional[ast.AST], Optional[ast.AST]]] = [(m, None, None)]
        while stack:
            n, par, grand = stack.pop()
            if isinstance(n, ast.Attribute) and isinstance(n.value, ast.Name) and n.value.id in ("self", "cls"):
                uses.setdefault(n.attr, []).append("%s:%s" % (m.name, _ctx_of(par, n, grand)))
                if isinstance(n.ctx, ast.Store):
                    stored.add(n.attr)
            for c in ast.iter_child_nodes(n):
                stack.append((c, n, par))
    methods = {m.name for m in cdef.body if isinstance(m, (ast.FunctionDef, ast.AsyncFunctionDef))}
    return {a: t for a, t in uses.items() if a in stored and a not in methods}


def profile_of(trees: Dict[str, ast.Module], shas: Optional[Dict[str, str]] = None) -> dict:
    out = {}
    for rel, tree in sorted(trees.items()):
        funcs = {q: func_tokens(n) for q, _c, n in iter_funcs(tree)}
        attrs = {c.name: class_attr_tokens(c) for c in tree.body if isinstance(c, ast.ClassDef)}
        locs = {q: local_profile(n) for q, _c, n in iter_funcs(tree)}
        out[rel] = {"funcs": funcs, "attrs": attrs, "locals": locs, "imports": import_table(rel, tree), "sha": (shas or {}).get(rel)}
    return out


_CACHE: Dict[str, Optional[dict]] = {}


def load_profile() -> Optional[dict]:
    if "p" not in _CACHE:
        try:
            with open(PROFILE, encoding="utf-8") as fh:
                _CACHE["p"] = json.load(fh)
        except OSError:
            _CACHE["p"] = None
    return _CACHE["p"]


def baseline_class_names() -> Set[str]:
    p = load_profile() or {}
    return {c for m in p.values() for c in m["attrs"]}


def _wj(a: Counter, b: Counter) -> float:
    if not a and not b:
        return 1.0
    inter = sum((a & b).values())
    union = sum((a | b).values())
    return inter / union if union else 0.0


def _match(missing: Dict[str, Counter], new: Dict[str, List[Counter]], same_home, threshold=0.55, margin=0.08) -> Dict[str, str]:
    """missing key -> new key; mutual best, ahead of the runner-up, above the threshold."""
    score: Dict[Tuple[str, str], float] = {}
    for m, fm in missing.items():
        for n, fns in new.items():
            s = max(_wj(fm, fn) for fn in fns)
            if same_home(m, n):
                s = s + 0.1
            score[(m, n)] = s
    out: Dict[str, str] = {}
    for m in missing:
        cands = sorted(((score[(m, n)], n) for n in new), reverse=True)
        if not cands or cands[0][0] < threshold:
            continue
        best_s, best_n = cands[0]
        if len(cands) > 1 and cands[1][0] > best_s - margin:
            continue
        back = sorted(((score[(m2, best_n)], m2) for m2 in missing), reverse=True)
        if back[0][1] != m or (len(back) > 1 and back[1][0] > best_s - margin):
            continue
        out[m] = best_n
    return out


class _Renamer(ast.NodeTransformer):
    def __init__(self, attr_map: Dict[str, str], name_map: Dict[str, str], self_only: Set[str], in_class: bool):
        self.attr_map, self.name_map, self.self_only, self.in_class = attr_map, name_map, self_only, in_class

    def visit_Attribute(self, node: ast.Attribute):
        self.generic_visit(node)
        new = self.attr_map.get(node.attr)
        if new is not None:
            if node.attr in self.self_only and not (self.in_class and isinstance(node.value, ast.Name) and node.value.id in ("self", "cls")):
                return node
            node.attr = new
        return node

    def visit_Name(self, node: ast.Name):
        if node.id in self.name_map:
            node.id = self.name_map[node.id]
        return node

    def visit_alias(self, node: ast.alias):
        if node.name in self.name_map and node.asname is None:
            node.name = self.name_map[node.name]
        return node

    def visit_keyword(self, node: ast.keyword):
        self.generic_visit(node)
        return node


def resolve_renames(trees: Dict[str, ast.Module], shas: Optional[Dict[str, str]] = None, profile: Optional[dict] = None) -> List[str]:
    """Alpha-rename the trees in place back to the names of the profile; returns a description of every rename applied.
    *shas*: digest of each module's text - modules whose text is the profile's are not looked at (nothing can be missing there)."""
    profile = profile if profile is not None else load_profile()
    if not profile:
        return []
    full_profile = profile
    same: Set[str] = set()
    if shas is not None:
        same = {rel for rel, p in profile.items() if p.get("sha") and shas.get(rel) == p["sha"]}
        if len(same) == len(profile) and len(trees) == len(profile):
            return []
        profile = {rel: p for rel, p in profile.items() if rel not in same}
    notes: List[str] = []
    # a module of the profile that is gone while a module the profile does not know defines (most of) what it defined: the same
    # module under another file name - the view keeps the profile's path (reports carry the real one through _home_file)
    gone = [rel for rel in full_profile if rel not in trees]
    if gone:
        fresh = [rel for rel in trees if rel not in full_profile]
        for rel in gone:
            want = {q for q in full_profile[rel]["funcs"] if q.count(".") <= 1} | set(full_profile[rel]["attrs"])
            if not want:
                continue
            best = None
            for cand in fresh:
                have = {q for q, _c, _n in iter_funcs(trees[cand]) if q.count(".") <= 1} | {c.name for c in trees[cand].body if isinstance(c, ast.ClassDef)}
                score = len(want & have) / len(want)
                if score >= 0.6 and (best is None or score > best[0]):
                    best = (score, cand)
            if best:
                cand = best[1]
                tree = trees.pop(cand)
                tree._profile_rel = rel
                for n in ast.walk(tree):
                    if isinstance(n, (ast.FunctionDef, ast.AsyncFunctionDef, ast.ClassDef)):
                        n._home_file = cand
                trees[rel] = tree
                fresh.remove(cand)
                notes.append("module %s is now the file %s" % (rel, cand))
        profile = {rel: p for rel, p in full_profile.items() if rel not in same}
    for _round in range(3):
        got = _names_round(trees, profile, same)
        notes += got
        if not got:
            break
    moved = resolve_moves(trees, full_profile)
    notes += moved
    if moved:
        notes += _names_round(trees, profile, same)
    notes += resolve_imports(trees, profile)
    notes += resolve_locals(trees, profile)
    return notes


def _names_round(trees: Dict[str, ast.Module], profile: dict, same: Set[str]) -> List[str]:
    """One round of function and attribute rename resolution (a renamed attribute can hide a renamed function and the reverse)."""
    shas = same or None
    # ---- functions -------------------------------------------------------------------------------------------------------------
    base_funcs: Dict[Tuple[str, str], List[str]] = {(rel, q): t for rel, p in profile.items() for q, t in p["funcs"].items()}
    cur: Dict[Tuple[str, str], ast.AST] = {}
    cur_cls: Dict[Tuple[str, str], Optional[str]] = {}
    for rel, tree in trees.items():
        if rel not in profile and rel in same:
            continue
        for q, c, n in iter_funcs(tree):
            cur.setdefault((rel, q), n)
            cur_cls[(rel, q)] = c
    missing_all = [k for k in base_funcs if k not in cur]
    base_attr_names = {a for p in profile.values() for c in p["attrs"].values() for a in c}
    base_func_names = {q.split(".")[-1] for (_r, q) in base_funcs}
    notes: List[str] = []
    if missing_all:
        new_all = [k for k in cur if k not in base_funcs]
        # a function under a renamed parent is found once the parent has its name back: top-level (depth) first
        missing_all.sort(key=lambda k: k[1].count("."))
        changed_names = {k[1].split(".")[-1] for k in missing_all} | {k[1].split(".")[-1] for k in new_all}
        for rel, p in profile.items():            # attributes that come and go say nothing either
            t = trees.get(rel)
            for c in (t.body if t is not None else []):
                if isinstance(c, ast.ClassDef) and c.name in p["attrs"]:
                    nowa = set(class_attr_tokens(c))
                    changed_names |= (set(p["attrs"][c.name]) ^ nowa)

        def clean(toks: Iterable[str]) -> Counter:
            return Counter(t for t in toks if t.split(":", 1)[-1] not in changed_names or t.startswith(("str:", "num:")))
        new_by_name: Dict[str, List[Tuple[str, str]]] = {}
        for k in new_all:
            new_by_name.setdefault(k[1].split(".")[-1], []).append(k)
        new_tok = {k: func_tokens(cur[k]) for k in new_all}

        # who calls the new functions: a helper extracted from one function has that function as its only caller
        callers: Dict[str, Set[Tuple[str, str]]] = {}
        for k2, n2 in cur.items():
            for t in (new_tok[k2] if k2 in new_tok else func_tokens(n2)):
                if t.startswith("call:") and t[5:] in new_by_name:
                    callers.setdefault(t[5:], set()).add(k2)
        for nm_, ks in callers.items():          # a function that merely encloses the caller is not a second caller
            callers[nm_] = {k2 for k2 in ks if not any(o[0] == k2[0] and o[1].startswith(k2[1] + ".") for o in ks)}

        def closure(k) -> Counter:
            """tokens of k plus those of the not-in-profile functions only it calls (rename + extract)"""
            seen, acc, todo = {k}, Counter(), [k]
            while todo:
                x = todo.pop()
                acc += clean(t for t in new_tok[x] if not (x is not k and t.startswith("arity:")))
                for t in new_tok[x]:
                    if t.startswith("call:"):
                        for y in new_by_name.get(t[5:], []):
                            if y not in seen and y[0] == k[0] and len(callers.get(t[5:], ())) <= 1:
                                seen.add(y)
                                todo.append(y)
            return acc
        def home(key: str) -> Tuple[str, str]:
            rel, q = key.split("::")
            return rel, (q.rsplit(".", 1)[0] if "." in q else "")
        depth_levels = sorted({k[1].count(".") for k in missing_all})
        applied: Dict[Tuple[str, str], Tuple[str, str]] = {}
        for depth in depth_levels:
            miss = {"%s::%s" % k: clean(base_funcs[k]) for k in missing_all if k[1].count(".") == depth and k not in cur}
            newc = {"%s::%s" % k: [clean(new_tok[k]), closure(k)] for k in new_all if k[1].count(".") == depth and k not in applied.values()}
            if not miss or not newc:
                continue
            for m, n in _match(miss, newc, lambda a, b: home(a) == home(b)).items():
                if home(m) != home(n):
                    continue            # a move to another home is not a rename (the delegating stub, if any, keeps the anchor)
                applied[tuple(m.split("::"))] = tuple(n.split("::"))
        for (mr, mq), (nr, nq) in applied.items():
            old, new = mq.split(".")[-1], nq.split(".")[-1]
            cur[(nr, nq)].name = old
            depth = mq.count(".")
            cls = cur_cls.get((nr, nq))
            collide = new in base_func_names or new in base_attr_names
            if depth == 0:
                for rel, tree in trees.items():
                    imports_it = any(isinstance(x, ast.ImportFrom) and any(al.name == new for al in x.names) for x in ast.walk(tree))
                    if rel == nr or imports_it:
                        _Renamer({} if collide else {new: old}, {new: old}, set(), False).visit(tree)
                    elif not collide:
                        _Renamer({new: old}, {}, set(), False).visit(tree)
            elif depth == 1 and cls is not None:
                for rel, tree in trees.items():
                    if not collide:
                        _Renamer({new: old}, {}, set(), False).visit(tree)
                    else:
                        for c in ast.walk(tree):
                            if isinstance(c, ast.ClassDef) and _in_family(c, cls, trees):
                                _Renamer({new: old}, {}, {new}, True).visit(c)
            else:
                parent = cur.get((nr, nq.rsplit(".", 1)[0]))
                if parent is not None:
                    _Renamer({}, {new: old}, set(), False).visit(parent)
            notes.append("function %s:%s is %s under a new name" % (mr, mq, nq))
            for (r2, q2) in list(cur):
                if r2 == nr and (q2 == nq or q2.startswith(nq + ".")):
                    cur[(r2, mq + q2[len(nq):])] = cur.pop((r2, q2))
                    cur_cls[(r2, mq + q2[len(nq):])] = cur_cls.pop((r2, q2), None)
        if applied and any(k not in cur and k[1].count(".") >= 1 for k in base_funcs):
            notes += _nested_round(trees, base_funcs, cur, changed_names)
    notes += attr_round(trees, profile, base_func_names, base_attr_names)
    return notes


def attr_round(trees: Dict[str, ast.Module], profile: dict, base_func_names: Optional[Set[str]] = None,
               base_attr_names: Optional[Set[str]] = None) -> List[str]:
    """Attributes a class stores on self: those of the profile that are gone are matched, by how the methods use them, with those that
    are new, and renamed back everywhere."""
    notes: List[str] = []
    if base_func_names is None:
        base_func_names = {q.split(".")[-1] for p in profile.values() for q in p["funcs"]}
    if base_attr_names is None:
        base_attr_names = {a for p in profile.values() for c in p["attrs"].values() for a in c}
    for rel, p in profile.items():
        tree = trees.get(rel)
        if tree is None:
            continue
        for c in tree.body:
            if not isinstance(c, ast.ClassDef) or c.name not in p["attrs"]:
                continue
            base = p["attrs"][c.name]
            now = class_attr_tokens(c)
            # an attribute of the profile that is still read or written on self anywhere in the class is not missing
            used_now = {n.attr for n in ast.walk(c) if isinstance(n, ast.Attribute)}
            base_m = {q.split(".", 1)[1] for q in p["funcs"] if q.startswith(c.name + ".") and q.count(".") == 1}
            now_m = {x.name for x in c.body if isinstance(x, (ast.FunctionDef, ast.AsyncFunctionDef))}
            odd = (base_m - now_m) | (now_m - base_m)          # methods renamed / added / removed: their name says nothing

            def neutral(toks):
                return Counter(("?:" + t.split(":", 1)[1]) if t.split(":", 1)[0] in odd else t for t in toks)
            missing = {a: neutral(t) for a, t in base.items() if a not in now and a not in used_now}
            new = {a: [neutral(t)] for a, t in now.items() if a not in base}
            if not missing or not new:
                continue
            for old, nw in _match(missing, new, lambda m, n: False, threshold=0.6, margin=0.1).items():
                collide = nw in base_func_names or nw in base_attr_names
                for rel2, tree2 in trees.items():
                    if collide:
                        for c2 in ast.walk(tree2):
                            if isinstance(c2, ast.ClassDef) and _in_family(c2, c.name, trees):
                                _Renamer({nw: old}, {}, {nw}, True).visit(c2)
                    else:
                        _Renamer({nw: old}, {}, set(), False).visit(tree2)
                for n in c.body:        # class-level assignment of the attribute
                    if isinstance(n, ast.Assign):
                        for t in n.targets:
                            if isinstance(t, ast.Name) and t.id == nw:
                                t.id = old
                notes.append("attribute %s.%s of %s is %s under a new name" % (c.name, old, rel, nw))
    return notes


def _nested_round(trees, base_funcs, cur, changed_names) -> List[str]:
    notes = []
    missing = [k for k in base_funcs if k not in cur and k[1].count(".") >= 1]
    for (mr, mq) in missing:
        parent_q = mq.rsplit(".", 1)[0]
        sibs = [k for k in cur if k[0] == mr and k[1].rsplit(".", 1)[0] == parent_q and k not in base_funcs]
        if len(sibs) != 1:
            continue
        k = sibs[0]
        a = Counter(t for t in base_funcs[(mr, mq)] if t.split(":", 1)[-1] not in changed_names)
        b = Counter(t for t in func_tokens(cur[k]) if t.split(":", 1)[-1] not in changed_names)
        if _wj(a, b) >= 0.55:
            old, new = mq.split(".")[-1], k[1].split(".")[-1]
            cur[k].name = old
            parent = cur.get((mr, parent_q))
            if parent is not None:
                _Renamer({}, {new: old}, set(), False).visit(parent)
            cur[(mr, mq)] = cur.pop(k)
            notes.append("function %s:%s is %s under a new name (%s)" % (mr, mq, k[1], new))
    return notes


def _in_family(c: ast.ClassDef, cls: str, trees: Dict[str, ast.Module]) -> bool:
    """c is cls or (transitively) derives from it, by base-class names."""
    if c.name == cls:
        return True
    index = getattr(_in_family, "_idx", None)
    if index is None or index[0] is not trees:
        table = {}
        for t in trees.values():
            for n in t.body:
                if isinstance(n, ast.ClassDef):
                    table.setdefault(n.name, n)
        index = (trees, table)
        _in_family._idx = index
    seen = set()
    todo = [c]
    while todo:
        x = todo.pop()
        if x.name in seen:
            continue
        seen.add(x.name)
        for b in x.bases:
            bn = b.id if isinstance(b, ast.Name) else (b.attr if isinstance(b, ast.Attribute) else None)
            if bn == cls:
                return True
            if bn in index[1]:
                todo.append(index[1][bn])
    return False


# ---------------------------------------------------------------------------------------------------------------------------------
# local variables and parameters
# ---------------------------------------------------------------------------------------------------------------------------------

def _own_walk(fn: ast.AST):
    """(node, parent, grandparent) below fn, not entering nested function definitions (lambdas and comprehensions are entered)."""
    stack: List[Tuple[ast.AST, Optional[ast.AST], Optional[ast.AST]]] = [(c, fn, None) for c in ast.iter_child_nodes(fn)]
    while stack:
        n, par, grand = stack.pop()
        yield n, par, grand
        if isinstance(n, (ast.FunctionDef, ast.AsyncFunctionDef, ast.ClassDef)):
            continue
        for c in ast.iter_child_nodes(n):
            stack.append((c, n, par))


def _value_kind(v: ast.AST) -> str:
    if isinstance(v, ast.Call):
        f = v.func
        return "call:" + (f.attr if isinstance(f, ast.Attribute) else (f.id if isinstance(f, ast.Name) else "?"))
    if isinstance(v, ast.Constant):
        return "const:%r" % (v.value,) if not isinstance(v.value, str) or len(v.value) < 30 else "const:str"
    if isinstance(v, ast.Subscript):
        k = v.slice
        return "sub:" + (repr(k.value) if isinstance(k, ast.Constant) else "?")
    if isinstance(v, ast.Attribute):
        return "attr:" + v.attr
    return type(v).__name__


def _use_token(n: ast.Name, par: ast.AST, grand: Optional[ast.AST]) -> str:
    if isinstance(n.ctx, ast.Store):
        if isinstance(par, ast.Assign) and len(par.targets) == 1 and par.targets[0] is n:
            return "=" + _value_kind(par.value)
        if isinstance(par, (ast.For, ast.comprehension)) and par.target is n:
            return "for"
        if isinstance(par, ast.AugAssign):
            return "aug:" + type(par.op).__name__
        if isinstance(par, ast.withitem):
            return "with"
        return "store"
    if isinstance(n.ctx, ast.Del):
        return "del"
    if isinstance(par, ast.Subscript):
        if par.value is n:
            k = par.slice
            return "sub[%s]%s" % (repr(k.value) if isinstance(k, ast.Constant) else "?", "=" if isinstance(par.ctx, ast.Store) else "")
        return "key-of"
    if isinstance(par, ast.Attribute):
        if isinstance(grand, ast.Call) and grand.func is par:
            return "call." + par.attr
        return "attr." + par.attr + ("=" if isinstance(par.ctx, ast.Store) else "")
    if isinstance(par, ast.Call):
        f = par.func
        nm = f.attr if isinstance(f, ast.Attribute) else (f.id if isinstance(f, ast.Name) else "?")
        if par.func is n:
            return "called"
        if n in par.args:
            return "arg:%s:%d" % (nm, par.args.index(n))
        return "arg:%s" % nm
    if isinstance(par, ast.keyword):
        return "kw:%s" % par.arg
    if isinstance(par, ast.Compare):
        return "cmp:" + type(par.ops[0]).__name__ + (":L" if par.left is n else ":R")
    if isinstance(par, ast.BinOp):
        return "bin:" + type(par.op).__name__ + (":L" if par.left is n else ":R")
    if isinstance(par, ast.Return):
        return "return"
    if isinstance(par, (ast.If, ast.While, ast.IfExp)) and par.test is n:
        return "test"
    if isinstance(par, (ast.For, ast.comprehension)) and par.iter is n:
        return "iter"
    if isinstance(par, ast.Dict):
        if n in par.values:
            k = par.keys[par.values.index(n)]
            return "dictval:" + (repr(k.value) if isinstance(k, ast.Constant) else "?")
        return "dictkey"
    if isinstance(par, ast.Starred) or (isinstance(par, ast.keyword) and par.arg is None):
        return "star"
    if isinstance(par, ast.Assign):
        t = par.targets[0]
        return "value-of:" + (_value_kind(t) if not isinstance(t, ast.Name) else "name")
    return "in:" + type(par).__name__


def local_profile(fn: ast.AST) -> dict:
    """Parameters (in order) and, for every name the function binds or its parameters, the contexts it is used in (name-free)."""
    a = fn.args
    params = [x.arg for x in a.posonlyargs + a.args] + ([("*" + a.vararg.arg)] if a.vararg else []) + [x.arg for x in a.kwonlyargs] + \
             ([("**" + a.kwarg.arg)] if a.kwarg else [])
    bound: List[str] = []
    uses: Dict[str, List[str]] = {}
    occ = []
    for n, par, grand in _own_walk(fn):
        if isinstance(n, ast.Name):
            occ.append((getattr(n, "lineno", 0), getattr(n, "col_offset", 0), n, par, grand))
    occ.sort(key=lambda t: (t[0], t[1]))
    pnames = {p.lstrip("*") for p in params}
    for _l, _c, n, par, grand in occ:
        if isinstance(n.ctx, (ast.Store, ast.Del)) and n.id not in bound and n.id not in pnames:
            bound.append(n.id)
    names = set(bound) | pnames
    for _l, _c, n, par, grand in occ:
        if n.id in names:
            uses.setdefault(n.id, []).append(_use_token(n, par, grand))
    return {"params": params, "order": bound, "uses": {k: v for k, v in uses.items()}}


def resolve_locals(trees: Dict[str, ast.Module], profile: dict) -> List[str]:
    """Per function of the profile that still exists: parameters and locals that are gone are matched against those that are new
    (parameters by position; locals by their use contexts and by the order in which they are first bound) and renamed back."""
    notes: List[str] = []
    for rel, p in profile.items():
        tree = trees.get(rel)
        lp = p.get("locals")
        if tree is None or not lp:
            continue
        for q, _c, fn in iter_funcs(tree):
            base = lp.get(q)
            if base is None:
                continue
            now = local_profile(fn)
            mapping: Dict[str, str] = {}
            bp, np_ = base["params"], now["params"]
            now_names = set(now["uses"]) | {x.lstrip("*") for x in np_} | set(now["order"])
            base_names = set(base["uses"]) | {x.lstrip("*") for x in bp} | set(base["order"])
            if len(bp) == len(np_):
                for old, new in zip(bp, np_):
                    o, n_ = old.lstrip("*"), new.lstrip("*")
                    if o != n_ and o not in now_names and n_ not in base_names and old.count("*") == new.count("*"):
                        mapping[n_] = o
            missing = [x for x in base["order"] if x not in now_names]
            new = [x for x in now["order"] if x not in base_names]
            drift: List[str] = []
            if new:
                # a name that is still there but is now used for something else (sc -> scenario while scenario -> scenario_key):
                # it takes part in the matching on both sides
                drift = [x for x in base["order"] if x in now["order"] and x in now["uses"] and x in base["uses"]
                         and _wj(Counter(base["uses"][x]), Counter(now["uses"][x])) < 0.3]
                if drift:
                    missing = [x for x in base["order"] if x in missing or x in drift]
                    new = [x for x in now["order"] if x in new or x in drift]
            for _round in range(6):
                if not missing or not new:
                    break
                # ranks among what is still unmatched: the order of first binding is kept by a rename

                def rank(lst, x):
                    return lst.index(x) / max(1, len(lst) - 1) if len(lst) > 1 else 0.0
                score = {}
                for m in missing:
                    cm = Counter(base["uses"].get(m, []))
                    for n_ in new:
                        cn = Counter(now["uses"].get(n_, []))
                        kinds = len(set(cm) & set(cn)) / max(1, len(set(cm) | set(cn)))       # the same kinds of use, however many of each
                        score[(m, n_)] = 0.75 * max(_wj(cm, cn), 0.8 * kinds) + 0.25 * (1 - abs(rank(missing, m) - rank(new, n_)))
                got = {}
                for m in missing:
                    c = sorted(((score[(m, n_)], n_) for n_ in new), reverse=True)
                    if c[0][0] < 0.5 or (len(c) > 1 and c[1][0] > c[0][0] - 0.04):
                        continue
                    back = sorted(((score[(m2, c[0][1])], m2) for m2 in missing), reverse=True)
                    if back[0][1] != m or (len(back) > 1 and back[1][0] > c[0][0] - 0.04):
                        continue
                    got[c[0][1]] = m
                if not got:
                    # what is left looks alike (several response objects, several loop counters): same count and same order of
                    # first binding decides, provided no pair contradicts its use contexts outright
                    if len(missing) == len(new) and all(score[(m, n_)] >= 0.3 for m, n_ in zip(missing, new)):
                        got = {n_: m for m, n_ in zip(missing, new)}
                    else:
                        break
                mapping.update(got)
                missing = [m for m in missing if m not in got.values()]
                new = [n_ for n_ in new if n_ not in got]
            # a name may only be taken over if its present holder moves on as well (no two variables merged); x -> x says nothing
            mapping = {k: v for k, v in mapping.items() if k != v}
            for _ in range(len(mapping) + 1):
                bad = [k for k, v in mapping.items() if v in now_names and v not in mapping]
                if not bad:
                    break
                for k in bad:
                    if mapping[k] in drift:
                        mapping[mapping[k]] = mapping[k] + "__moved"     # the present holder has no counterpart in the profile: it steps aside
                    else:
                        del mapping[k]
            if not mapping:
                continue
            _rename_locals(fn, mapping)
            # keyword call sites of a private function whose parameter was renamed
            pm = {n_: o for n_, o in mapping.items() if n_ in {x.lstrip("*") for x in np_}}
            if pm:
                for t in trees.values():
                    for c in ast.walk(t):
                        if isinstance(c, ast.Call):
                            f = c.func
                            nm = f.attr if isinstance(f, ast.Attribute) else (f.id if isinstance(f, ast.Name) else None)
                            if nm == fn.name:
                                for k in c.keywords:
                                    if k.arg in pm:
                                        k.arg = pm[k.arg]
            notes.append("in %s:%s %s" % (rel, q, ", ".join("%s is now %s" % (o, n_) for n_, o in sorted(mapping.items(), key=lambda kv: kv[1]))))
    return notes


def _rename_locals(fn: ast.AST, mapping: Dict[str, str]) -> None:
    a = fn.args
    for x in a.posonlyargs + a.args + a.kwonlyargs + ([a.vararg] if a.vararg else []) + ([a.kwarg] if a.kwarg else []):
        if x.arg in mapping:
            x.arg = mapping[x.arg]

    def rec(node: ast.AST, active: Dict[str, str]):
        for c in ast.iter_child_nodes(node):
            if isinstance(c, (ast.FunctionDef, ast.AsyncFunctionDef, ast.Lambda)):
                aa = c.args
                own = {x.arg for x in aa.posonlyargs + aa.args + aa.kwonlyargs} | ({aa.vararg.arg} if aa.vararg else set()) | ({aa.kwarg.arg} if aa.kwarg else set())
                if not isinstance(c, ast.Lambda):
                    for n in ast.walk(c):
                        if isinstance(n, ast.Name) and isinstance(n.ctx, ast.Store):
                            own.add(n.id)
                rec(c, {k: v for k, v in active.items() if k not in own})
            elif isinstance(c, ast.ClassDef):
                continue
            else:
                if isinstance(c, ast.Name) and c.id in active:
                    c.id = active[c.id]
                rec(c, active)
    rec(fn, dict(mapping))


# ---------------------------------------------------------------------------------------------------------------------------------
# moves: a definition of the profile that now lives elsewhere is put back at its home in the view
# ---------------------------------------------------------------------------------------------------------------------------------

def _import_target(rel: str, node: ast.AST, name: str, trees: Dict[str, ast.Module]) -> Optional[Tuple[str, str]]:
    """For `from X import name [as a]` / `from . import mod` in module rel: (module rel that should define it, original name)."""
    if not isinstance(node, ast.ImportFrom):
        return None
    base = os.path.dirname(rel)
    if node.level:
        for _ in range(node.level - 1):
            base = os.path.dirname(base)
        parts = (node.module or "").split(".") if node.module else []
    else:
        if not (node.module or "").startswith("BPTK_Py"):
            return None
        base = ""
        parts = node.module.split(".")
    path = os.path.join(base, *parts) if parts else base
    for al in node.names:
        if (al.asname or al.name) == name:
            for cand in (path + ".py", os.path.join(path, "__init__.py")):
                if cand in trees:
                    return cand, al.name
            # from pkg import module
            for cand in (os.path.join(path, al.name + ".py"), os.path.join(path, al.name, "__init__.py")):
                if cand in trees:
                    return cand, "*module*"
    return None


def _find_import(tree: ast.Module, name: str, rel: str, trees) -> Optional[Tuple[str, str]]:
    for n in ast.walk(tree):
        if isinstance(n, ast.ImportFrom):
            r = _import_target(rel, n, name, trees)
            if r:
                return r
    return None


def _top_def(tree: ast.Module, name: str, kinds) -> Optional[ast.AST]:
    for n in tree.body:
        if isinstance(n, kinds) and n.name == name:
            return n
    return None


def _follow(rel: str, name: str, trees, kinds, depth=0) -> Optional[Tuple[str, ast.AST]]:
    """The definition a module-level name of *rel* denotes, following package imports (re-exports)."""
    if depth > 4 or rel not in trees:
        return None
    d = _top_def(trees[rel], name, kinds)
    if d is not None:
        return rel, d
    imp = _find_import(trees[rel], name, rel, trees)
    if imp and imp[1] != "*module*":
        return _follow(imp[0], imp[1], trees, kinds, depth + 1)
    return None


_FN = (ast.FunctionDef, ast.AsyncFunctionDef)


def _detach(tree_or_cls, node) -> None:
    body = tree_or_cls.body
    i = body.index(node)
    body[i:i + 1] = [ast.copy_location(ast.Pass(), node)] if len(body) == 1 else []


def resolve_moves(trees: Dict[str, ast.Module], profile: dict) -> List[str]:
    notes: List[str] = []
    class_table: Dict[str, List[Tuple[str, ast.ClassDef]]] = {}
    for rel, t in trees.items():
        for n in t.body:
            if isinstance(n, ast.ClassDef):
                class_table.setdefault(n.name, []).append((rel, n))
    base_classes = {(rel, c) for rel, p in profile.items() for c in p["attrs"]}
    base_funcs = {(rel, q) for rel, p in profile.items() for q in p["funcs"]}

    # (a) classes that are now imported from elsewhere in the package
    for rel, c in sorted(base_classes):
        t = trees.get(rel)
        if t is None or _top_def(t, c, ast.ClassDef) is not None:
            continue
        imp = _find_import(t, c, rel, trees)
        r = _follow(imp[0], imp[1], trees, ast.ClassDef) if imp and imp[1] != "*module*" else None
        if r and (r[0], r[1].name) not in base_classes:
            _detach(trees[r[0]], r[1])
            r[1].name = c
            r[1]._home_file = r[0]
            t.body.append(r[1])
            class_table.setdefault(c, []).append((rel, r[1]))
            notes.append("class %s of %s now lives in %s" % (c, rel, r[0]))

    def current_funcs():
        out = {}
        for rel, t in trees.items():
            for q, c, n in iter_funcs(t):
                out.setdefault((rel, q), (c, n))
        return out

    cur = current_funcs()
    missing = sorted(k for k in base_funcs if k not in cur and k[1].count(".") <= 1)
    # (b) module-level functions re-exported through an import; (c) methods that are class-level aliases or inherited
    for rel, q in missing:
        t = trees.get(rel)
        if t is None:
            continue
        if "." not in q:
            imp = _find_import(t, q, rel, trees)
            r = _follow(imp[0], imp[1], trees, _FN) if imp and imp[1] != "*module*" else None
            if r and (r[0], r[1].name) not in base_funcs:
                _detach(trees[r[0]], r[1])
                r[1].name = q
                r[1]._home_file = r[0]
                t.body.append(r[1])
                notes.append("function %s of %s now lives in %s" % (q, rel, r[0]))
            continue
        cname, m = q.split(".")
        cdef = _top_def(t, cname, ast.ClassDef)
        if cdef is None:
            continue
        done = False
        for st in list(cdef.body):
            if isinstance(st, ast.Assign) and len(st.targets) == 1 and isinstance(st.targets[0], ast.Name) and st.targets[0].id == m:
                v = st.value
                if isinstance(v, ast.Call) and isinstance(v.func, ast.Name) and v.func.id in ("staticmethod", "classmethod") and v.args:
                    v = v.args[0]
                r = None
                if isinstance(v, ast.Name):
                    r = _follow(rel, v.id, trees, _FN)
                elif isinstance(v, ast.Attribute) and isinstance(v.value, ast.Name):
                    imp = _find_import(t, v.value.id, rel, trees)
                    if imp and imp[1] == "*module*":
                        r = _follow(imp[0], v.attr, trees, _FN)
                if r and (r[0], r[1].name) not in base_funcs:
                    import copy as _copy
                    d = _copy.deepcopy(r[1])
                    d.name = m
                    d._home_file = r[0]
                    cdef.body[cdef.body.index(st)] = d
                    notes.append("method %s of %s is the function %s of %s" % (q, rel, r[1].name, r[0]))
                    done = True
                break
        if done:
            continue
        # inherited: the first class along the bases that defines the method
        seen = set()
        todo = [b for b in cdef.bases]
        while todo:
            b = todo.pop(0)
            bn = b.id if isinstance(b, ast.Name) else (b.attr if isinstance(b, ast.Attribute) else None)
            if not bn or bn in seen:
                continue
            seen.add(bn)
            found = None
            for rel2, bdef in class_table.get(bn, []):
                d = next((x for x in bdef.body if isinstance(x, _FN) and x.name == m), None)
                if d is not None:
                    found = (rel2, bdef, d)
                    break
                todo.extend(bdef.bases)
            if found:
                import copy as _copy
                d = _copy.deepcopy(found[2])
                d._home_file = found[0]
                d._absorbed = False
                cdef.body.append(d)
                if (found[0], found[1].name) not in base_classes:
                    found[2]._absorbed = True         # a template method of a new base class is analysed in the classes that run it
                notes.append("method %s of %s is inherited from %s (%s)" % (q, rel, found[1].name, found[0]))
                break

    # (c') a nested function of the profile that became a module-level function / method (same name): back into its parent
    cur = current_funcs()
    for rel, q in sorted(k for k in base_funcs if k not in cur and k[1].count(".") >= 1):
        parent_q, g = q.rsplit(".", 1)
        parent = cur.get((rel, parent_q))
        if parent is None or (rel, parent_q) not in base_funcs or "." not in q:
            continue
        pcls, pnode = parent
        if not isinstance(pnode, _FN):
            continue
        cands = [k for k in cur if k not in base_funcs and k[1].split(".")[-1] == g and k[1].count(".") <= 1
                 and _wj(Counter(t for t in profile[rel]["funcs"][q] if not t.startswith("arity:")),
                         Counter(t for t in func_tokens(cur[k][1]) if not t.startswith("arity:"))) >= 0.5]
        # only where the parent calls it
        called = [c for c in ast.walk(pnode) if isinstance(c, ast.Call) and ((isinstance(c.func, ast.Name) and c.func.id == g) or
                                                                            (isinstance(c.func, ast.Attribute) and c.func.attr == g))]
        if len(cands) != 1 or not called or q.count(".") < 1 or (rel, q) in cur:
            continue
        if parent_q.count(".") == 0 and pcls is not None and q.count(".") == 1:
            continue          # a method, not a nested function: handled below
        k = cands[0]
        ncls, node = cur[k]
        import copy as _copy
        d = _copy.deepcopy(node)
        d.decorator_list = []
        d._home_file = k[0]
        body = pnode.body
        at = 1 if body and isinstance(body[0], ast.Expr) and isinstance(body[0].value, ast.Constant) and isinstance(body[0].value.value, str) else 0
        body.insert(at, d)
        is_method = "." in k[1] and not any(isinstance(x, ast.Name) and x.id == "staticmethod" for x in node.decorator_list)
        for c in called:
            recv = c.func.value if isinstance(c.func, ast.Attribute) else None
            c.func = ast.copy_location(ast.Name(id=g, ctx=ast.Load()), c.func)
            if is_method and recv is not None:
                c.args = [recv] + list(c.args)
            ast.fix_missing_locations(c)
        node._absorbed = True
        ast.fix_missing_locations(pnode)
        notes.append("nested function %s of %s now lives at %s:%s" % (q, rel, k[0], k[1]))

    # (d) what is still missing: a function of another shape somewhere else (method <-> module-level function, possibly renamed)
    cur = current_funcs()
    missing = sorted(k for k in base_funcs if k not in cur and k[1].count(".") <= 1)
    if not missing:
        return notes
    new = [k for k in cur if k not in base_funcs and k[1].count(".") <= 1 and not getattr(cur[k][1], "_home_file", None)]
    if not new:
        return notes
    changed = {k[1].split(".")[-1] for k in missing} | {k[1].split(".")[-1] for k in new}

    def clean(toks):
        return Counter(t for t in toks if not t.startswith("arity:") and (t.split(":", 1)[-1] not in changed or t.startswith(("str:", "num:"))))
    base_tok = {(rel, q): profile[rel]["funcs"][q] for rel, q in missing}
    miss = {"%s::%s" % k: clean(base_tok[k]) for k in missing}
    newc = {"%s::%s" % k: [clean(func_tokens(cur[k][1]))] for k in new}

    def bare(key):
        return key.split("::")[1].split(".")[-1].strip("_")
    for mkey, nkey in _match(miss, newc, lambda a, b: bare(a) == bare(b), threshold=0.6, margin=0.1).items():
        (mr, mq), (nr, nq) = tuple(mkey.split("::")), tuple(nkey.split("::"))
        note = _put_back(trees, (mr, mq), (nr, nq), cur)
        if note:
            notes.append(note)
    return notes


def _put_back(trees, old_key, new_key, cur) -> Optional[str]:
    """Move the function new_key to where old_key was; method <-> function conversion through its call sites."""
    (mr, mq), (nr, nq) = old_key, new_key
    ncls, node = cur[new_key]
    old_is_method, new_is_method = "." in mq, "." in nq
    old_name, new_name = mq.split(".")[-1], nq.split(".")[-1]
    home = trees[mr]
    if old_is_method:
        cdef = _top_def(home, mq.split(".")[0], ast.ClassDef)
        if cdef is None:
            return None
    if new_is_method:
        return None            # a method of a new collaborator class: not put back (the rules' anchor lookup fails closed)
    # every reference to the function
    calls = []
    for rel, t in trees.items():
        for c in ast.walk(t):
            if isinstance(c, ast.Call):
                f = c.func
                if (isinstance(f, ast.Name) and f.id == new_name) or (isinstance(f, ast.Attribute) and f.attr == new_name and isinstance(f.value, ast.Name)):
                    calls.append(c)
    a = node.args
    params = [x.arg for x in a.posonlyargs + a.args]
    if not old_is_method:
        _detach(trees[nr], node)
        node.name = old_name
        node._home_file = nr
        home.body.append(node)
        for t in trees.values():
            _Renamer({new_name: old_name}, {new_name: old_name}, set(), False).visit(t)
        return "function %s of %s now lives in %s as %s" % (mq, mr, nr, new_name)
    # function -> method: which parameters carry the receiver or a piece of its state?
    thread_sites = []
    for rel, t in trees.items():
        for c in ast.walk(t):
            if isinstance(c, ast.Call):
                kw = {k.arg: k.value for k in c.keywords if k.arg}
                tg = kw.get("target")
                if tg is not None and ((isinstance(tg, ast.Name) and tg.id == new_name) or (isinstance(tg, ast.Attribute) and tg.attr == new_name)) \
                        and isinstance(kw.get("args"), ast.Tuple):
                    thread_sites.append(c)
    arglists = [list(c.args) for c in calls if not any(isinstance(x, ast.Starred) for x in c.args)] + \
               [list({k.arg: k.value for k in c.keywords}["args"].elts) for c in thread_sites]
    if not arglists or any(len(al) > len(params) for al in arglists):
        return None
    roles: Dict[int, Tuple[str, str]] = {}       # param index -> ("recv", "") | ("state", ".chain")
    for i, p in enumerate(params):
        texts = set()
        for al in arglists:
            if i < len(al):
                e = al[i]
                chain = []
                while isinstance(e, ast.Attribute):
                    chain.append(e.attr)
                    e = e.value
                if isinstance(e, ast.Name):
                    texts.add((e.id if not chain else "*", ".".join(reversed(chain))))
                else:
                    texts.add(("?", "?"))
            else:
                texts.add(("?", "?"))
        if len(texts) == 1:
            (root, chain), = texts
            if root == "self" and not chain:
                roles[i] = ("recv", "")
            elif root == "*" and chain:
                roles[i] = ("state", chain)
    if not roles:
        # a method that never needed its receiver, now a plain function: fine if every call is made from a method of the class
        inside = {id(c) for m in cdef.body if isinstance(m, _FN) for c in ast.walk(m) if isinstance(c, ast.Call)}
        if thread_sites or not calls or not all(id(c) in inside for c in calls):
            return None
    recv_param = next((params[i] for i, r in roles.items() if r[0] == "recv"), None)
    mapping: Dict[str, ast.AST] = {}
    for i, (kind, chain) in roles.items():
        if kind == "recv":
            mapping[params[i]] = ast.Name(id="self", ctx=ast.Load())
        else:
            e: ast.AST = ast.Name(id="self", ctx=ast.Load())
            for part in chain.split("."):
                e = ast.Attribute(value=e, attr=part, ctx=ast.Load())
            mapping[params[i]] = e

    class Sub(ast.NodeTransformer):
        def visit_Name(self, n):
            if n.id in mapping:
                import copy as _copy
                new = _copy.deepcopy(mapping[n.id])
                if isinstance(n.ctx, ast.Store) and isinstance(new, ast.Name):
                    new.ctx = ast.Store()
                return ast.copy_location(new, n)
            return n
    for st in node.body:
        Sub().visit(st)
    keep = [x for i, x in enumerate(a.posonlyargs + a.args) if i not in roles]
    a.posonlyargs = []
    a.args = [ast.arg(arg="self")] + keep
    if a.defaults and len(a.defaults) > len(keep):
        a.defaults = a.defaults[len(a.defaults) - len(keep):]
    _detach(trees[nr], node)
    node.name = old_name
    node._home_file = nr
    cdef.body.append(node)
    ast.fix_missing_locations(node)

    def receiver_of(al) -> ast.AST:
        for i, (kind, chain) in roles.items():
            if i < len(al):
                e = al[i]
                if kind == "recv":
                    return e
                for _ in chain.split("."):
                    e = e.value
                return e
        return ast.Name(id="self", ctx=ast.Load())
    for c in calls:
        al = list(c.args)
        c.func = ast.copy_location(ast.Attribute(value=receiver_of(al), attr=old_name, ctx=ast.Load()), c.func)
        c.args = [x for i, x in enumerate(al) if i not in roles]
        ast.fix_missing_locations(c)
    for c in thread_sites:
        for k in c.keywords:
            if k.arg == "args":
                al = list(k.value.elts)
                recv = receiver_of(al)
                k.value.elts = [x for i, x in enumerate(al) if i not in roles]
            if k.arg == "target":
                tg = k
        tg.value = ast.copy_location(ast.Attribute(value=recv, attr=old_name, ctx=ast.Load()), tg.value)
        ast.fix_missing_locations(c)
    return "method %s of %s is the function %s of %s (receiver/state passed as %s)" % (
        mq, mr, new_name, nr, ", ".join(params[i] for i in sorted(roles)))


# ---------------------------------------------------------------------------------------------------------------------------------
# import style: `import m` + m.f(...)  <->  `from m import f [as g]` + f(...)  <->  `import m as a`
# ---------------------------------------------------------------------------------------------------------------------------------

def import_table(rel: str, tree: ast.Module) -> Dict[str, str]:
    """origin (absolute dotted path of what is imported) -> local name, for every import statement of the module (any depth)."""
    pkg = os.path.dirname(rel).replace("/", ".")
    out: Dict[str, str] = {}
    for n in ast.walk(tree):
        if isinstance(n, ast.Import):
            for al in n.names:
                if al.asname:
                    out[al.name] = al.asname
                else:
                    out[al.name.split(".")[0]] = al.name.split(".")[0]
        elif isinstance(n, ast.ImportFrom):
            if n.level:
                parts = pkg.split(".")
                parts = parts[:len(parts) - (n.level - 1)] if n.level > 1 else parts
                mod = ".".join(parts + ([n.module] if n.module else []))
            else:
                mod = n.module or ""
            for al in n.names:
                if al.name != "*":
                    out[mod + "." + al.name] = al.asname or al.name
    return out


def resolve_imports(trees: Dict[str, ast.Module], profile: dict) -> List[str]:
    """Bring the way imported things are named back to the profile's: a module alias that changed, a function imported by name where
    the profile used the module (f -> m.f), a module used where the profile imported the function by name (m.f -> f)."""
    notes: List[str] = []
    for rel, p in profile.items():
        tree = trees.get(rel)
        base = p.get("imports")
        if tree is None or base is None:
            continue
        now = import_table(rel, tree)
        if now == base:
            continue
        name_map: Dict[str, str] = {}                 # local name -> local name
        to_attr: Dict[str, Tuple[str, str]] = {}      # local name f -> (module alias of the profile, attribute)
        from_attr: Dict[Tuple[str, str], str] = {}    # (module alias now, attribute) -> local name of the profile
        bound_now = set(now.values())
        for origin, alias in now.items():
            if origin in base:
                if base[origin] != alias and base[origin] not in bound_now:
                    name_map[alias] = base[origin]
                continue
            if "." in origin:
                # the same thing imported through another path of the package (a re-export): pkg.util.timerange / pkg.util.floating_point.timerange
                last = origin.rsplit(".", 1)[1]
                twins = [b for b in base if b not in now and b.rsplit(".", 1)[-1] == last and b.split(".")[0] == origin.split(".")[0]]
                if len(twins) == 1:
                    if base[twins[0]] != alias and base[twins[0]] not in bound_now:
                        name_map[alias] = base[twins[0]]
                    continue
                parts = origin.split(".")
                hit = False
                for cut in range(len(parts) - 1, 0, -1):          # the profile imports a module above and says m.x.f
                    mod = ".".join(parts[:cut])
                    if cut < len(parts) - 1 and parts[0] == "BPTK_Py":
                        break                                     # inside the package a bare name stays bare (the definition may have moved)
                    if mod in base:
                        to_attr[alias] = (base[mod], ".".join(parts[cut:]))
                        hit = True
                        break
                if hit:
                    continue
                # `from pkg import mod` in the profile is origin pkg.mod as well: covered by the first branch
            # the profile imports things of this module by name: m.f -> f
            for borigin, balias in base.items():
                if borigin.startswith(origin + ".") and "." not in borigin[len(origin) + 1:]:
                    from_attr[(alias, borigin[len(origin) + 1:])] = balias
        if not (name_map or to_attr or from_attr):
            continue

        class T(ast.NodeTransformer):
            def visit_Attribute(self, node):
                self.generic_visit(node)
                if isinstance(node.value, ast.Name) and (node.value.id, node.attr) in from_attr and isinstance(node.ctx, ast.Load):
                    return ast.copy_location(ast.Name(id=from_attr[(node.value.id, node.attr)], ctx=ast.Load()), node)
                return node

            def visit_Name(self, node):
                if isinstance(node.ctx, ast.Load):
                    if node.id in to_attr:
                        m, f = to_attr[node.id]
                        e: ast.AST = ast.Name(id=m, ctx=ast.Load())
                        for part in f.split("."):
                            e = ast.Attribute(value=e, attr=part, ctx=ast.Load())
                        return ast.copy_location(e, node)
                    if node.id in name_map:
                        node.id = name_map[node.id]
                return node

            def visit_alias(self, node):
                return node
        # names bound locally (a parameter or local called like the alias) are left alone: only rewrite where the name is not stored
        stored = {n.id for n in ast.walk(tree) if isinstance(n, ast.Name) and isinstance(n.ctx, ast.Store)} | \
                 {a.arg for n in ast.walk(tree) if isinstance(n, (ast.FunctionDef, ast.AsyncFunctionDef, ast.Lambda)) for a in n.args.args + n.args.kwonlyargs}
        for k in list(name_map):
            if k in stored:
                del name_map[k]
        for k in list(to_attr):
            if k in stored:
                del to_attr[k]
        T().visit(tree)
        ast.fix_missing_locations(tree)
        what = ["%s is %s" % (v, k) for k, v in name_map.items()] + ["%s.%s is %s" % (m, f, k) for k, (m, f) in to_attr.items()] + \
               ["%s is %s.%s" % (v, a, f) for (a, f), v in from_attr.items()]
        if what:
            notes.append("imports of %s: %s" % (rel, "; ".join(sorted(what))))
    return notes
