"""Program index, finding/report plumbing and the check driver.

Exit codes of a check run
  0  every decided clause holds on everything analysed (known findings are
     printed as KNOWN-FINDING lines)
  1  at least one violation whose key is not listed in known_findings.json
  2  ANALYSIS-ERROR: the analyser could not do its job (syntax error, anchor
     vanished, idiom not recognised, instance count below its floor)
"""
from __future__ import annotations

import ast
import hashlib
import json
import os
import sys
import time
import traceback
from dataclasses import dataclass, field
from typing import Callable, Dict, Iterable, Iterator, List, Optional, Tuple

VERIF_ROOT = os.path.dirname(os.path.dirname(os.path.abspath(__file__)))
PKG = "BPTK_Py"


class AnalysisError(Exception):
    """The analyser cannot decide: fail closed (exit 2), never a silent pass."""


# --------------------------------------------------------------------------
# small AST helpers
# --------------------------------------------------------------------------

def src(node: Optional[ast.AST]) -> str:
    if node is None:
        return ""
    try:
        return ast.unparse(node)
    except Exception:  # pragma: no cover
        return "<%s>" % type(node).__name__


def seq(node: ast.AST) -> int:
    """Position of *node* in the source order of the analysis view (use this, not lineno, to compare positions)."""
    v = getattr(node, "_seq", None)
    if v is not None:
        return v
    return getattr(node, "lineno", 0) * 10000 + getattr(node, "col_offset", 0)


def dotted(node: ast.AST) -> Optional[str]:
    """'a.b.c' for Name/Attribute chains, None for anything else."""
    parts = []
    while isinstance(node, ast.Attribute):
        parts.append(node.attr)
        node = node.value
    if isinstance(node, ast.Name):
        parts.append(node.id)
        return ".".join(reversed(parts))
    return None


def call_name(call: ast.Call) -> Optional[str]:
    """Last component of the callee ('m' for x.y.m(...), 'f' for f(...))."""
    f = call.func
    if isinstance(f, ast.Attribute):
        return f.attr
    if isinstance(f, ast.Name):
        return f.id
    return None


def call_recv(call: ast.Call) -> Optional[str]:
    """Dotted receiver of a method call ('x.y' for x.y.m(...))."""
    f = call.func
    if isinstance(f, ast.Attribute):
        return dotted(f.value)
    return None


def iter_calls(node: ast.AST, into_nested: bool = False) -> Iterator[ast.Call]:
    """All Call nodes below *node*; nested function/lambda/class bodies are
    skipped unless *into_nested*."""
    stack = [node]
    first = True
    while stack:
        n = stack.pop()
        if not first and not into_nested and isinstance(
                n, (ast.FunctionDef, ast.AsyncFunctionDef, ast.Lambda, ast.ClassDef)):
            continue
        first = False
        if isinstance(n, ast.Call):
            yield n
        stack.extend(ast.iter_child_nodes(n))


def walk_no_nested(node: ast.AST) -> Iterator[ast.AST]:
    stack = [node]
    first = True
    while stack:
        n = stack.pop()
        if not first and isinstance(n, (ast.FunctionDef, ast.AsyncFunctionDef,
                                        ast.Lambda, ast.ClassDef)):
            continue
        first = False
        yield n
        stack.extend(ast.iter_child_nodes(n))


def const_str(node: ast.AST) -> Optional[str]:
    if isinstance(node, ast.Constant) and isinstance(node.value, str):
        return node.value
    return None


def subscript_key(node: ast.AST) -> Optional[str]:
    """String key of X["k"], else None."""
    if isinstance(node, ast.Subscript):
        return const_str(node.slice)
    return None


def norm_stmt(node: ast.AST) -> str:
    """Normalised statement text (used in keys instead of line numbers)."""
    return " ".join(src(node).split())


# --------------------------------------------------------------------------
# program index
# --------------------------------------------------------------------------

@dataclass
class FuncInfo:
    qual: str                   # "Class.method" or "function" or "Class.method.inner"
    node: ast.FunctionDef
    file: str                   # path relative to repo root
    cls: Optional[str] = None
    decorators: List[str] = field(default_factory=list)

    @property
    def name(self) -> str:
        return self.node.name

    def loc(self, node: Optional[ast.AST] = None) -> str:
        n = node if node is not None else self.node
        return "%s:%d" % (self.file, getattr(n, "lineno", 0))


@dataclass
class ClassInfo:
    name: str
    node: ast.ClassDef
    file: str
    bases: List[str]
    methods: Dict[str, List[FuncInfo]] = field(default_factory=dict)  # name -> defs (property getter/setter share a name)


_VOCAB = None


class Module:
    def __init__(self, rel: str, text: str, tree: Optional[ast.Module] = None):
        self.rel = rel
        self.text = text
        self.tree = tree if tree is not None else ast.parse(text, filename=rel)
        self.classes: Dict[str, ClassInfo] = {}
        self.functions: Dict[str, FuncInfo] = {}
        self.imports: Dict[str, str] = {}   # local name -> dotted origin
        self._index()
        # analysis view: interchangeable idioms normalised, helpers the rules do not know by name looked through (see inline.py)
        from .inline import canonicalise, inline_module, load_vocab
        global _VOCAB
        if _VOCAB is None:
            _VOCAB = load_vocab()
        canonicalise(self.tree, eq_none=not rel.startswith("BPTK_Py/sddsl/"))
        if tree is not None and getattr(tree, "_changed", True):
            from .inline import records_to_dicts
            from .rename import baseline_class_names
            if records_to_dicts(self.tree, baseline_class_names()):
                canonicalise(self.tree, eq_none=not rel.startswith("BPTK_Py/sddsl/"))
        self.inlined_calls = 0

    def finish_view(self, global_classes, any_helpers: bool, global_funcs=None) -> None:
        """Second phase (all modules parsed): look through helpers, also those inherited from a base class of another module."""
        from .inline import canonicalise, inline_module
        self.inlined_calls = inline_module(self.tree, _VOCAB, global_classes, any_helpers, global_funcs) if _VOCAB else 0
        if self.inlined_calls:
            from .inline import flatten_collaborators
            from .rename import baseline_class_names
            flatten_collaborators(self.tree, global_classes, baseline_class_names())
            canonicalise(self.tree, eq_none=not self.rel.startswith("BPTK_Py/sddsl/"))      # the inlined bodies once more (idempotent)
        # execution/source order of the *view* (inlined statements keep the line numbers of their helper, so lineno is for reporting only)
        k = 0
        stack = [self.tree]
        while stack:
            n = stack.pop()
            n._seq = k
            k += 1
            stack.extend(reversed(list(ast.iter_child_nodes(n))))
        # nested functions the view created (a generator helper moved into its only caller) become functions of their own
        if self.inlined_calls:
            for q, fi in list(self.functions.items()):
                for n in walk_no_nested_body(fi.node):
                    if isinstance(n, (ast.FunctionDef, ast.AsyncFunctionDef)) and (q + "." + n.name) not in self.functions:
                        self._index_func(n, fi.cls, q + "." + n.name)
        # helpers that were absorbed by all their callers are no longer functions of their own for the rules
        for q in [q for q, f in self.functions.items() if getattr(f.node, "_absorbed", False)]:
            fi = self.functions.pop(q)
            if fi.cls and fi.cls in self.classes and fi.node.name in self.classes[fi.cls].methods:
                self.classes[fi.cls].methods[fi.node.name] = [d for d in self.classes[fi.cls].methods[fi.node.name] if d is not fi]
                if not self.classes[fi.cls].methods[fi.node.name]:
                    del self.classes[fi.cls].methods[fi.node.name]

    def _index(self) -> None:
        for n in ast.walk(self.tree):
            if isinstance(n, ast.Import):
                for a in n.names:
                    self.imports[a.asname or a.name.split(".")[0]] = a.name
            elif isinstance(n, ast.ImportFrom):
                mod = ("." * n.level) + (n.module or "")
                for a in n.names:
                    self.imports[a.asname or a.name] = mod + "." + a.name
        for n in self.tree.body:
            if isinstance(n, ast.ClassDef):
                self._index_class(n)
            elif isinstance(n, (ast.FunctionDef, ast.AsyncFunctionDef)):
                self._index_func(n, None, n.name)

    def _index_class(self, c: ast.ClassDef) -> None:
        ci = ClassInfo(c.name, c, self.rel, [dotted(b) or src(b) for b in c.bases])
        self.classes[c.name] = ci
        for n in c.body:
            if isinstance(n, (ast.FunctionDef, ast.AsyncFunctionDef)):
                fi = self._index_func(n, c.name, c.name + "." + n.name)
                ci.methods.setdefault(n.name, []).append(fi)

    def _index_func(self, f, cls, qual) -> FuncInfo:
        decos = [src(d) for d in f.decorator_list]
        key = qual
        # property setters share the qualified name of the getter
        for d in decos:
            if d.endswith(".setter"):
                key = qual + ".setter"
            elif d.endswith(".deleter"):
                key = qual + ".deleter"
        fi = FuncInfo(key, f, getattr(f, "_home_file", None) or self.rel, cls, decos)      # _home_file: where a moved definition is written
        self.functions[key] = fi
        for n in walk_no_nested_body(f):
            if isinstance(n, (ast.FunctionDef, ast.AsyncFunctionDef)):
                self._index_func(n, cls, key + "." + n.name)
        return fi


def walk_no_nested_body(f: ast.AST) -> Iterator[ast.AST]:
    """Direct nested defs of a function (one level)."""
    stack = list(ast.iter_child_nodes(f))
    while stack:
        n = stack.pop()
        if isinstance(n, (ast.FunctionDef, ast.AsyncFunctionDef)):
            yield n
            continue
        if isinstance(n, (ast.Lambda, ast.ClassDef)):
            continue
        stack.extend(ast.iter_child_nodes(n))


class Index:
    """All modules of <repo>/BPTK_Py parsed from the working tree."""

    def __init__(self, repo: str, overlay: Optional[Dict[str, str]] = None):
        """*overlay* maps repo-relative paths to replacement source text (used by the
        self-validation variants: the variant tree exists only in memory)."""
        self.overlay = overlay or {}
        self.repo = os.path.abspath(repo)
        self.modules: Dict[str, Module] = {}
        self.digest = hashlib.sha256()
        root = os.path.join(self.repo, PKG)
        raw: Dict[str, Tuple[str, ast.Module]] = {}
        sources: List[Tuple[str, str]] = []
        if not os.path.isdir(root):
            raise AnalysisError("no %s package under %s" % (PKG, self.repo))
        for d, dirs, files in sorted(os.walk(root)):
            dirs.sort()
            if "__pycache__" in d:
                continue
            for fn in sorted(files):
                if not fn.endswith(".py"):
                    continue
                p = os.path.join(d, fn)
                rel = os.path.relpath(p, self.repo)
                if rel in self.overlay:
                    text = self.overlay[rel]
                    if text is None:
                        continue              # the variant removes (or renames away) this file
                else:
                    with open(p, "r", encoding="utf-8") as fh:
                        text = fh.read()
                sources.append((rel, text))
        # files that exist only in the overlay (a variant that adds a module)
        sources += sorted((rel, text) for rel, text in self.overlay.items()
                          if text is not None and rel.startswith(PKG + "/") and rel.endswith(".py") and rel not in {r for r, _t in sources})
        for rel, text in sources:
            if True:
                self.digest.update(rel.encode() + b"\0" + text.encode() + b"\0")
                try:
                    import warnings
                    with warnings.catch_warnings():
                        warnings.simplefilter("ignore")
                        raw[rel] = (text, ast.parse(text, filename=rel))
                except SyntaxError as e:
                    raise AnalysisError("syntax error in %s: %s" % (rel, e))
        # internal names that were renamed since the pinned tree get their old names back in the view (rename.py)
        from .rename import resolve_renames
        self.renames: List[str] = resolve_renames({rel: t for rel, (_x, t) in raw.items()},
                                                  {rel: hashlib.sha256(x.encode()).hexdigest()[:16] for rel, (x, _t) in raw.items()})
        for rel, (text, tree) in raw.items():
            self.modules[getattr(tree, "_profile_rel", None) or rel] = Module(getattr(tree, "_profile_rel", None) or rel, text, tree)
        self.class_by_name: Dict[str, List[ClassInfo]] = {}
        for m in self.modules.values():
            for c in m.classes.values():
                self.class_by_name.setdefault(c.name, []).append(c)
        global_classes = {name: cs[0].node for name, cs in self.class_by_name.items()}
        any_helpers = _VOCAB is not None and any(f.node.name not in _VOCAB for m in self.modules.values() for f in m.functions.values())
        # constants of a class used from another module (Scenario._RUNSPEC_NAMES in the manager): only on a tree that differs from the profile
        if self.renames or any(getattr(m, "_differs", False) for m in self.modules.values()) or any_helpers:
            from .inline import class_constants, propagate_foreign_class_constants
            table: Dict[str, Dict[str, ast.AST]] = {}
            for m in self.modules.values():
                table.update(class_constants(m.tree))
            if table:
                stored = {n.attr for m in self.modules.values() for n in ast.walk(m.tree) if isinstance(n, ast.Attribute) and isinstance(n.ctx, (ast.Store, ast.Del))}
                table = {c: {k: v for k, v in cc.items() if k not in stored} for c, cc in table.items()}
                for m in self.modules.values():
                    propagate_foreign_class_constants(m.tree, table)
        global_funcs: Dict[str, ast.FunctionDef] = {}
        if any_helpers:
            seen_twice = set()
            for m in self.modules.values():
                for n in m.tree.body:
                    if isinstance(n, ast.FunctionDef) and n.name not in _VOCAB:
                        if n.name in global_funcs:
                            seen_twice.add(n.name)
                        global_funcs[n.name] = n
            for nme in seen_twice:
                del global_funcs[nme]
        for m in self.modules.values():
            m.finish_view(global_classes, any_helpers, global_funcs)
        # helpers that were looked through from another module and are called nowhere any more are analysed where they run
        if any(m.inlined_calls for m in self.modules.values()):
            looked = [(m, q, f) for m in self.modules.values() for q, f in m.functions.items() if getattr(f.node, "_looked_through", False)
                      and not getattr(f.node, "_absorbed", False) and _VOCAB is not None and f.node.name not in _VOCAB]
            if looked:
                names = {f.node.name for _m, _q, f in looked}
                left: Dict[str, int] = {}
                for m in self.modules.values():
                    for n in ast.walk(m.tree):
                        if isinstance(n, ast.Call):
                            fn_ = n.func
                            nm_ = fn_.attr if isinstance(fn_, ast.Attribute) else (fn_.id if isinstance(fn_, ast.Name) else None)
                            if nm_ in names:
                                left[nm_] = left.get(nm_, 0) + 1
                for m, q, f in looked:
                    own = sum(1 for c in ast.walk(f.node) if isinstance(c, ast.Call) and (
                        (isinstance(c.func, ast.Attribute) and c.func.attr == f.node.name) or (isinstance(c.func, ast.Name) and c.func.id == f.node.name)))
                    if left.get(f.node.name, 0) - own <= 0:
                        f.node._absorbed = True
                        m.functions.pop(q, None)
                        for q2 in [k for k in m.functions if k.startswith(q + ".")]:
                            m.functions.pop(q2, None)
        # state that moved into a collaborator object shows up as a new attribute of the owner once the view is built: one more
        # attribute round, on the view
        if any(m.inlined_calls for m in self.modules.values()):
            from .rename import attr_round, load_profile
            prof = load_profile()
            if prof:
                self.renames += attr_round({rel: m.tree for rel, m in self.modules.items()}, prof)

    # -- lookups (fail closed) ---------------------------------------------
    def module(self, rel: str) -> Module:
        if rel not in self.modules:
            raise AnalysisError("anchor vanished: module %s" % rel)
        return self.modules[rel]

    def cls(self, rel: str, name: str) -> ClassInfo:
        m = self.module(rel)
        if name not in m.classes:
            raise AnalysisError("anchor vanished: class %s in %s" % (name, rel))
        return m.classes[name]

    def func(self, rel: str, qual: str) -> FuncInfo:
        m = self.module(rel)
        if qual not in m.functions:
            raise AnalysisError("anchor vanished: function %s in %s" % (qual, rel))
        return m.functions[qual]

    def try_func(self, rel: str, qual: str) -> Optional[FuncInfo]:
        m = self.modules.get(rel)
        return m.functions.get(qual) if m else None

    def all_funcs(self, prefix: str = "") -> Iterator[FuncInfo]:
        """Every function of the package, except helpers that were looked through at every one of their call sites (inline.py)."""
        for rel in sorted(self.modules):
            if rel.startswith(prefix):
                for q in self.modules[rel].functions.values():
                    if getattr(q.node, "_absorbed", False):
                        continue
                    yield q

    def all_classes(self, prefix: str = "") -> Iterator[ClassInfo]:
        for rel in sorted(self.modules):
            if rel.startswith(prefix):
                yield from self.modules[rel].classes.values()

    # -- class hierarchy -----------------------------------------------------
    def find_class(self, name: str) -> Optional[ClassInfo]:
        cs = self.class_by_name.get(name.split(".")[-1])
        return cs[0] if cs else None

    def mro(self, ci: ClassInfo) -> List[ClassInfo]:
        out, seen, todo = [], set(), [ci]
        while todo:
            c = todo.pop(0)
            if id(c) in seen:
                continue
            seen.add(id(c))
            out.append(c)
            for b in c.bases:
                bc = self.find_class(b)
                if bc is not None:
                    todo.append(bc)
        return out

    def subclasses(self, name: str) -> List[ClassInfo]:
        out = []
        for m in self.modules.values():
            for c in m.classes.values():
                if c.name != name and any(x.name == name for x in self.mro(c)):
                    out.append(c)
        return out

    def resolve_method(self, ci: ClassInfo, name: str, setter: bool = False) -> Optional[FuncInfo]:
        for c in self.mro(ci):
            for fi in c.methods.get(name, []):
                is_setter = fi.qual.endswith(".setter")
                if is_setter == setter:
                    return fi
        return None

    def stats(self) -> Dict[str, int]:
        return {
            "units_parsed": len(self.modules),
            "classes": sum(len(m.classes) for m in self.modules.values()),
            "functions": sum(len(m.functions) for m in self.modules.values()),
            "helper_calls_looked_through": sum(getattr(m, "inlined_calls", 0) for m in self.modules.values()),
            "helpers_absorbed": sum(1 for m in self.modules.values() for f in m.functions.values() if getattr(f.node, "_absorbed", False)),
        }


# --------------------------------------------------------------------------
# findings and results
# --------------------------------------------------------------------------

@dataclass
class Finding:
    rule: str          # e.g. "C18/TYPESTATE"
    key: str           # stable key: rule + construct, never a line number
    where: str         # file:line (diagnostic only)
    func: str
    construct: str
    reason: str

    def to_json(self) -> dict:
        return dict(rule=self.rule, key=self.key, where=self.where, function=self.func,
                    construct=self.construct, reason=self.reason)


class Result:
    """What one check run decided."""

    def __init__(self, prop: str):
        self.prop = prop
        self.findings: List[Finding] = []
        self.obligations: List[dict] = []     # every rule instance decided
        self.notes: List[str] = []
        self.floors: List[Tuple[str, int, int]] = []  # (name, count, floor)
        self.samples: List[object] = []
        self.rules: List[str] = []
        self.not_decided: List[str] = []
        self.assumptions: List[str] = []
        self.extra: Dict[str, object] = {}
        self.explanation = ""

    # an obligation is one rule instance with a verdict
    def ob(self, rule: str, instance: str, ok: bool, detail: str = "", nontrivial: bool = True) -> None:
        self.obligations.append(dict(rule=rule, instance=instance, ok=bool(ok),
                                     detail=detail, nontrivial=nontrivial))

    def find(self, rule: str, key: str, where: str, func: str, construct: str, reason: str) -> None:
        full = key if key.startswith(self.prop + "/") else "%s/%s" % (self.prop, key)
        for f in self.findings:
            if f.key == full:
                return
        self.findings.append(Finding(rule, full, where, func, construct, reason))

    def check(self, rule: str, instance: str, ok: bool, where: str, func: str,
              construct: str, reason: str, key: Optional[str] = None) -> bool:
        """Record the obligation and, when it fails, the finding."""
        self.ob(rule, instance, ok, "" if ok else reason)
        if not ok:
            self.find(rule, key or ("%s/%s" % (rule, instance)), where, func, construct, reason)
        return ok

    def floor(self, name: str, count: int, floor: int) -> None:
        self.floors.append((name, count, floor))

    def note(self, text: str) -> None:
        self.notes.append(text)


def load_known(path: Optional[str] = None) -> List[dict]:
    p = path or os.path.join(VERIF_ROOT, "known_findings.json")
    if not os.path.exists(p):
        return []
    with open(p) as fh:
        data = json.load(fh)
    return data.get("findings", [])


CheckFn = Callable[[Index, str, Result], None]


def run_check(prop: str, fn: CheckFn, repo: str, tier: str, evidence_dir: Optional[str] = None,
              quiet: bool = False, known_path: Optional[str] = None,
              selftest: Optional[Callable[[str, Result], None]] = None) -> int:
    """Run one property check, write evidence, print the verdict, return the exit code."""
    t0 = time.time()
    res = Result(prop)
    err: Optional[str] = None
    idx: Optional[Index] = None
    try:
        idx = Index(repo)
        for r in idx.renames[:40]:           # what the view read under another name than the tree writes (section 2.12 of DESIGN.md)
            res.note("names: " + r[:300])
        fn(idx, tier, res)
        for name, count, floor in res.floors:
            if count < floor:
                raise AnalysisError("instance count of '%s' is %d, below the floor %d confirmed by reading"
                                    % (name, count, floor))
    except AnalysisError as e:
        err = str(e)
    except Exception:  # a bug in the analyser is an analysis error, not a violation
        err = "internal error: " + traceback.format_exc(limit=6)

    known = [k for k in load_known(known_path) if k.get("property") == prop and not k.get("fixed")]
    known_keys = {k["key"]: k for k in known}
    new = [f for f in res.findings if f.key not in known_keys]
    old = [f for f in res.findings if f.key in known_keys]

    if err is None and not new and selftest is not None and tier == "thorough":
        try:
            selftest(repo, res)
        except AnalysisError as e:
            err = "self-validation: " + str(e)
        except Exception:
            err = "self-validation internal error: " + traceback.format_exc(limit=6)

    wall = time.time() - t0
    evdir = evidence_dir or os.path.join(VERIF_ROOT, "evidence")
    os.makedirs(evdir, exist_ok=True)
    obl = res.obligations
    distinct = len({(o["rule"], o["instance"]) for o in obl if o.get("nontrivial", True)})
    coverage = {
        "explanation": res.explanation or ("static analysis of %s" % prop),
        "rule": "; ".join(res.rules),
        "evaluations": len(obl),
        "distinct_nontrivial": distinct,
        "obligations": len(obl),
        "discharged": sum(1 for o in obl if o["ok"]),
        "samples": (res.samples[:12] or [o for o in obl[:8]]),
        "floors": [dict(name=n, count=c, floor=f) for n, c, f in res.floors],
        "not_decided": res.not_decided,
        "notes": res.notes[:60],
        "known_findings_matched": [f.key for f in old],
        "new_violations": [f.key for f in new],
        "analysis_error": err,
        "repo_digest": idx.digest.hexdigest()[:16] if idx else None,
        "exhaustive": True,
    }
    if idx is not None:
        coverage.update(idx.stats())
    coverage.update(res.extra)
    ev = {
        "property_id": prop,
        "tier": tier if tier in ("quick", "thorough") else "quick",
        "seed": int(os.environ.get("VERIF_SEED", "0") or 0),
        "level": "other",
        "coverage": coverage,
        "assumptions": res.assumptions,
        "wall_s": round(wall, 3),
        "violations": len(new),
    }
    with open(os.path.join(evdir, prop + ".json"), "w") as fh:
        json.dump(ev, fh, indent=1, default=str)
        fh.write("\n")

    if not quiet:
        print("%s tier=%s units=%s obligations=%d discharged=%d findings=%d (known %d) wall=%.2fs"
              % (prop, tier, coverage.get("units_parsed"), len(obl), coverage["discharged"],
                 len(res.findings), len(old), wall))
        for n, c, f in res.floors:
            print("  floor %-40s count=%d floor=%d" % (n, c, f))
        for nt in res.notes[:40]:
            print("  note: " + nt)
    for f in old:
        print("KNOWN-FINDING: property=%s %s [%s] %s" % (prop, f.key, f.where, f.reason))
    if new:
        vpath = os.path.join(evdir, prop + ".violations.json")
        with open(vpath, "w") as fh:
            json.dump({"property": prop, "violations": [f.to_json() for f in new]}, fh, indent=1)
            fh.write("\n")
        for f in new:
            print("  violation: %s  at %s in %s\n      construct: %s\n      reason: %s"
                  % (f.key, f.where, f.func, f.construct, f.reason))
        if err is not None:
            print("ANALYSIS-ERROR property=%s (in addition to the violations above) %s" % (prop, err))
        print("VIOLATION property=%s replay=%s" % (prop, vpath))
        return 1
    else:
        vpath = os.path.join(evdir, prop + ".violations.json")
        if os.path.exists(vpath):
            os.remove(vpath)
    if err is not None:
        print("ANALYSIS-ERROR property=%s %s" % (prop, err))
        return 2
    stale = [k for k in known_keys if k not in {f.key for f in res.findings}]
    for k in stale:
        if not quiet:
            print("  note: known finding %s no longer reproduces (repaired?)" % k)
    return 0
