"""Template extraction by abstract string evaluation of the repository's code
generators (SD-DSL ``term()`` methods, ``build_function_string`` & co).

Nothing is executed: the *string-valued expressions* of the analysed functions
are evaluated over the template domain

    Template ::= sequence of Lit(text) | Hole(role, time, via, domain) | Opq(kind, text)
                             | TimeRef | Rep(Template, sep)

and every construct the evaluator does not understand raises AnalysisError for
that renderer (never a guess).
"""
from __future__ import annotations

import ast
import copy
import itertools
import string
from dataclasses import dataclass, field
from typing import Dict, Iterable, List, Optional, Sequence, Tuple

from .core import AnalysisError, FuncInfo, Index, call_name, dotted, src

# ---------------------------------------------------------------------------
# template domain
# ---------------------------------------------------------------------------


@dataclass(frozen=True)
class Lit:
    text: str


@dataclass(frozen=True)
class TimeRef:
    """The value of the ``time`` parameter the renderer was called with."""


@dataclass(frozen=True)
class Opq:
    kind: str      # sign | runspec | name | number | expr | points
    text: str


@dataclass(frozen=True)
class Hole:
    role: str                      # operand name (element_1, power, args[], element[*] ...)
    time: Optional[tuple]          # template of the time it is rendered at; None = via __str__ (i.e. "t")
    via: str                       # term | str | extractTerm
    domain: str = "any"            # any | element (can only be a model.memoize atom)
    exempt: str = ""               # reason why time pass-through does not matter (A.7)


@dataclass(frozen=True)
class Rep:
    body: tuple
    sep: str


Parts = Tuple[object, ...]


def parts_text(parts: Parts) -> str:
    """Human-readable rendering of a template."""
    out = []
    for p in parts:
        if isinstance(p, Lit):
            out.append(p.text)
        elif isinstance(p, TimeRef):
            out.append("<time>")
        elif isinstance(p, Opq):
            out.append("<%s:%s>" % (p.kind, p.text))
        elif isinstance(p, Hole):
            t = "" if p.time is None else "@" + parts_text(p.time)
            out.append("{%s%s|%s}" % (p.role, t, p.via))
        elif isinstance(p, Rep):
            out.append("[%s]*%r" % (parts_text(p.body), p.sep))
    return "".join(out)


# ---------------------------------------------------------------------------
# symbolic values
# ---------------------------------------------------------------------------

class SV:
    pass


@dataclass
class SStr(SV):
    parts: Parts


@dataclass
class SObj(SV):
    role: str
    domain: str = "any"


@dataclass
class SExt(SV):          # extractTerm(obj, time)
    role: str
    time: Parts
    domain: str = "any"


@dataclass
class SOpq(SV):
    kind: str
    text: str


@dataclass
class SNone(SV):
    pass


@dataclass
class SList(SV):         # iterable of operands (self.args, element._elements.equations ...)
    role: str
    domain: str = "any"


# attributes that are never rendered operands (frozen, one reason each)
NON_OPERAND_ATTRS = {
    "sign": ("sign", "comparison sign, one of the six literals passed by the Element/Operator overloads"),
    "name": ("name", "name of a user function / element"),
    "rank": ("number", "ArrayRankOperator.rank: an integer per its docstring"),
    "dimensions": ("number", "aggregate dimension selector"),
    "points": ("points", "Lookup.points: a quoted name or a literal list of points"),
    "index": ("number", "array index of a cloned operator"),
    "id": ("name", "generated element prefix"),
}
RUNSPEC_ATTRS = {"dt", "starttime", "stoptime"}


@dataclass
class Path:
    """One control-flow path through a renderer."""
    conds: List[Tuple[str, bool]] = field(default_factory=list)
    env: Dict[str, SV] = field(default_factory=dict)
    result: Optional[SV] = None
    raised: Optional[str] = None
    done: bool = False

    def fork(self) -> "Path":
        return Path(list(self.conds), dict(self.env), self.result, self.raised, self.done)


class _Unsupported(AnalysisError):
    pass


class TermEval:
    """Abstract evaluator for one renderer function."""

    def __init__(self, idx: Index, fi: FuncInfo, time_param: Optional[str] = "time",
                 extract_handles_element: bool = False, result_attr: Optional[str] = None,
                 helpers: Optional[Dict[str, ast.FunctionDef]] = None, max_paths: int = 400):
        self.idx = idx
        self.fi = fi
        self.time_param = time_param
        self.extract_handles_element = extract_handles_element
        self.result_attr = result_attr
        self.helpers = helpers or {}
        self.max_paths = max_paths
        self.local_defs: Dict[str, ast.FunctionDef] = {}

    # -- public ------------------------------------------------------------------
    def run(self) -> List[Path]:
        fn = self.fi.node
        p0 = Path()
        if self.time_param:
            p0.env[self.time_param] = SStr((TimeRef(),))
        paths = self._block(fn.body, [p0])
        out = []
        for p in paths:
            if self.result_attr is not None and not p.raised:
                p.result = p.env.get("self." + self.result_attr, p.result)
            out.append(p)
        return out

    # -- statements --------------------------------------------------------------
    def _block(self, stmts: Sequence[ast.stmt], paths: List[Path]) -> List[Path]:
        for s in stmts:
            live = [p for p in paths if not p.done]
            dead = [p for p in paths if p.done]
            if not live:
                break
            nxt: List[Path] = []
            for p in live:
                nxt += self._stmt(s, p)
            paths = dead + nxt
            if len(paths) > self.max_paths:
                raise _Unsupported("too many paths in %s" % self.fi.qual)
        return paths

    def _expand_ifexp(self, s: ast.stmt) -> List[Tuple[ast.stmt, List[Tuple[str, bool]]]]:
        """Rewrite conditional expressions into one statement per choice."""
        ifexps = [n for n in ast.walk(s) if isinstance(n, ast.IfExp)]
        if not ifexps:
            return [(s, [], [])]
        # only outermost, non-nested handling is needed for the repository's idioms
        out = []
        for choice in itertools.product([True, False], repeat=len(ifexps)):
            sel = {id(n): c for n, c in zip(ifexps, choice)}

            class R(ast.NodeTransformer):
                def visit_IfExp(self, node):
                    c = sel.get(id(node))
                    return self.visit(node.body if c else node.orelse)
            # ids must survive the copy: transform the original, non-destructively
            new = _transform_keep_ids(s, sel)
            out.append((new, [(src(n.test), c) for n, c in zip(ifexps, choice)], [(n.test, c) for n, c in zip(ifexps, choice)]))
        return out

    def _stmt(self, s: ast.stmt, p: Path) -> List[Path]:
        if isinstance(s, (ast.Expr,)) and isinstance(s.value, ast.Constant):
            return [p]                                     # docstring
        if isinstance(s, (ast.Pass, ast.Import, ast.ImportFrom, ast.Global)):
            return [p]
        if isinstance(s, ast.FunctionDef):
            self.local_defs[s.name] = s
            return [p]
        if isinstance(s, ast.If):
            return self._if(s, p)
        if isinstance(s, ast.For):
            return self._for(s, p)
        if isinstance(s, ast.Raise):
            p.raised = src(s.exc)[:80] if s.exc is not None else "raise"
            p.done = True
            return [p]
        out = []
        for s2, conds, tests in self._expand_ifexp(s):
            if any(self._static_test(t, p) is (not c) for t, c in tests):
                continue                      # statically infeasible choice
            q = p.fork()
            q.conds += [(self._ctext(t, p), c) for t, c in tests]       # a named test is recorded as the test it names
            for t, c in tests:                  # `',' if xs else ''`: on the else side xs is empty
                emp = self._emptiness(t, p)
                if emp is not None and emp[1] is c:
                    q.env["#empty:" + emp[0]] = SNone()
            out += self._simple(s2, q)
        return out

    def _simple(self, s: ast.stmt, p: Path) -> List[Path]:
        if isinstance(s, ast.Return):
            p.result = self._expr(s.value, p) if s.value is not None else SNone()
            p.done = True
            return [p]
        if isinstance(s, ast.Assign):
            v = self._expr(s.value, p)
            for t in s.targets:
                key = self._target_key(t)
                if key is None:
                    if isinstance(t, ast.Subscript) and isinstance(self._expr(t.value, p), SOpq):
                        continue       # store into an opaque (non-string) local, e.g. matrix_size[1] = 1
                    if isinstance(t, (ast.Tuple, ast.List)) and isinstance(v, SOpq) and all(self._target_key(e) is not None for e in t.elts):
                        for i, e in enumerate(t.elts):      # rows, columns = x.matrix_size(): the parts of an opaque value are opaque
                            p.env[self._target_key(e)] = SOpq("expr", "%s[%d]" % (v.text, i))
                        continue
                    raise _Unsupported("assignment target %r" % src(t))
                p.env[key] = v
            return [p]
        if isinstance(s, ast.AugAssign):
            key = self._target_key(s.target)
            if key is None:
                raise _Unsupported("augmented target %r" % src(s.target))
            cur = p.env.get(key)
            v = self._expr(s.value, p)
            if isinstance(s.op, ast.Add) and isinstance(cur, SStr):
                p.env[key] = SStr(cur.parts + self._to_parts(v, p))
            elif isinstance(cur, SOpq) or cur is None:
                p.env[key] = SOpq("expr", src(s))
            else:
                raise _Unsupported("augmented assignment %r" % src(s))
            return [p]
        if isinstance(s, ast.Expr):
            if isinstance(s.value, ast.Call):
                return [p]           # e.g. super().__init__()
            return [p]
        if isinstance(s, (ast.Assert, ast.Pass, ast.Global, ast.Nonlocal, ast.Import, ast.ImportFrom)):
            return [p]               # says nothing about the text that is built
        raise _Unsupported("statement %s in %s" % (type(s).__name__, self.fi.qual))

    def _target_key(self, t: ast.AST) -> Optional[str]:
        if isinstance(t, ast.Name):
            return t.id
        d = dotted(t)
        if d and d.startswith("self."):
            return d
        return None

    def _ctext(self, test: ast.AST, p: Path) -> str:
        """Condition text with local aliases of the object's attributes resolved (net_flow = self._equation -> self._equation)."""
        env = p.env

        class A(ast.NodeTransformer):
            def visit_Name(self, node):
                v = env.get(node.id)
                if isinstance(v, SObj) and "[" not in v.role and isinstance(node.ctx, ast.Load):
                    return ast.Attribute(value=ast.Name(id="self", ctx=ast.Load()), attr=v.role, ctx=ast.Load())
                if isinstance(v, SOpq) and v.kind == "expr" and isinstance(node.ctx, ast.Load):
                    # a named test (many = len(args) > 1 ... if many:) is recorded as the test it names
                    try:
                        t = ast.parse(v.text, mode="eval").body
                    except SyntaxError:
                        return node
                    if isinstance(t, (ast.Compare, ast.BoolOp)) or (isinstance(t, ast.UnaryOp) and isinstance(t.op, ast.Not)):
                        return t
                return node
        if not any(isinstance(n, ast.Name) and isinstance(env.get(n.id), (SObj, SOpq)) for n in ast.walk(test)):
            return src(test)
        return src(ast.fix_missing_locations(A().visit(copy.deepcopy(test))))

    def _if(self, s: ast.If, p: Path) -> List[Path]:
        # a test on the *content* of generated text (`")" in body`) selects paths by what the holes are filled with: a template with
        # holes cannot stand for such a function
        for c_ in ast.walk(s.test):
            if isinstance(c_, ast.Compare) and len(c_.ops) == 1 and isinstance(c_.ops[0], (ast.In, ast.NotIn)) and isinstance(c_.comparators[0], ast.Name):
                v_ = p.env.get(c_.comparators[0].id)
                if isinstance(v_, SStr) and any(not isinstance(x, Lit) for x in v_.parts):
                    raise _Unsupported("test on the content of generated text: %s" % src(c_))
        verdict = self._static_test(s.test, p)
        out: List[Path] = []
        emp = self._emptiness(s.test, p)
        if verdict is not False:
            q = p.fork()
            q.conds.append((self._ctext(s.test, p), True))
            if emp is not None and emp[1] is True:
                q.env["#empty:" + emp[0]] = SNone()
            out += self._block(s.body, [q])
        if verdict is not True:
            q = p.fork()
            q.conds.append((self._ctext(s.test, p), False))
            if emp is not None and emp[1] is False:
                q.env["#empty:" + emp[0]] = SNone()      # `if len(xs):` false -> xs is empty on this path
            out += self._block(s.orelse, [q]) if s.orelse else [q]
        return out

    def _emptiness(self, test: ast.AST, p: Path):
        """(role of a list, truth value of *test* on which that list is empty) when *test* is a test for emptiness:
        `xs`, `len(xs)`, a local holding len(xs), `not xs`, `len(xs) > 0`, `len(xs) == 0`."""
        if isinstance(test, ast.UnaryOp) and isinstance(test.op, ast.Not):
            r = self._emptiness(test.operand, p)
            return None if r is None else (r[0], not r[1])
        if isinstance(test, ast.Compare) and len(test.ops) == 1 and isinstance(test.comparators[0], ast.Constant) \
                and isinstance(test.comparators[0].value, int):
            r = self._emptiness(test.left, p)
            k, op = test.comparators[0].value, test.ops[0]
            if r is None or r[1] is not False:
                return None
            if (isinstance(op, (ast.Gt, ast.NotEq)) and k == 0) or (isinstance(op, ast.GtE) and k == 1):
                return r
            if (isinstance(op, (ast.Eq, ast.LtE)) and k == 0) or (isinstance(op, ast.Lt) and k == 1):
                return (r[0], True)
            return None
        if isinstance(test, (ast.Name, ast.Attribute, ast.Call)):
            try:
                tv = self._expr(test, p.fork())
            except _Unsupported:
                return None
            if isinstance(tv, SOpq) and tv.kind == "len":
                return (tv.text, False)
            if isinstance(tv, SList):
                return (tv.role, False)
        return None

    def _static_test(self, test: ast.AST, p: Path) -> Optional[bool]:
        """Decide a test statically where the repository makes that possible."""
        # type(x) is C  with C never instantiated directly and having subclasses -> infeasible
        if isinstance(test, ast.Compare) and len(test.ops) == 1 and isinstance(test.ops[0], ast.Is):
            l, r = test.left, test.comparators[0]
            if isinstance(l, ast.Call) and call_name(l) == "type" and isinstance(r, ast.Name):
                cls = self.idx.find_class(r.id)
                if cls is not None and self.idx.subclasses(r.id) and not _instantiated(self.idx, r.id):
                    return False
        # `x is None` / `x is not None` for a local whose abstract value on this path is known
        if isinstance(test, ast.Compare) and len(test.ops) == 1 and isinstance(test.ops[0], (ast.Is, ast.IsNot)) and isinstance(test.left, ast.Name) \
                and isinstance(test.comparators[0], ast.Constant) and test.comparators[0].value is None and test.left.id in p.env:
            v = p.env[test.left.id]
            if isinstance(v, SNone):
                return isinstance(test.ops[0], ast.Is)
            if isinstance(v, (SStr, SObj, SList)):
                return isinstance(test.ops[0], ast.IsNot)
        if isinstance(test, ast.UnaryOp) and isinstance(test.op, ast.Not):
            inner = self._static_test(test.operand, p)
            if inner is not None:
                return not inner
        # a condition already on the path
        t = self._ctext(test, p)
        for c, v in p.conds:
            if c == t:
                return v
        return None

    def _for(self, s: ast.For, p: Path) -> List[Path]:
        # (a) index walk:  for i in self.index: cur = cur[i]
        if len(s.body) == 1 and isinstance(s.body[0], ast.Assign) and isinstance(s.body[0].value, ast.Subscript) \
                and isinstance(s.body[0].targets[0], ast.Name) and isinstance(s.body[0].value.value, ast.Name) \
                and s.body[0].targets[0].id == s.body[0].value.value.id:
            name = s.body[0].targets[0].id
            cur = p.env.get(name)
            if isinstance(cur, SObj):
                p.env[name] = SObj(cur.role if cur.role.endswith("[]") else cur.role + "[]", "element")
                return [p]
        # (b) accumulation loop
        before = {k: v for k, v in p.env.items() if isinstance(v, SStr)}
        q0 = p.fork()
        # loop variable
        it = self._expr(s.iter, q0)
        if isinstance(it, SList) and ("#empty:" + it.role) in p.env:
            return [p]                                   # the list is empty on this path
        if isinstance(s.target, ast.Name):
            if isinstance(it, SList):
                q0.env[s.target.id] = SObj(it.role + "[]", it.domain)
            else:
                q0.env[s.target.id] = SOpq("number", s.target.id)
        bodies = self._block(s.body, [q0])
        live = [b for b in bodies if not b.raised]
        if any(b.done for b in live):
            raise _Unsupported("return inside a loop in %s" % self.fi.qual)
        changed = set()
        for b in live:
            for k, v in b.env.items():
                if isinstance(v, SStr) and k in before and v.parts != before[k].parts:
                    changed.add(k)
        if not changed:
            for k, v in live[0].env.items() if live else []:
                if k not in p.env:
                    p.env[k] = v
            return [p]
        for k in changed:
            deltas = []
            for b in live:
                v = b.env[k]
                pre = before[k].parts
                if v.parts[:len(pre)] != pre:
                    raise _Unsupported("loop rewrites accumulator %s" % k)
                d = v.parts[len(pre):]
                if d not in deltas:
                    deltas.append(d)
            deltas = [d for d in deltas if d]
            if len(deltas) == 1:
                rep = Rep(deltas[0], "\0inbody")        # separator still inside the body
            elif len(deltas) == 2:
                a, b_ = sorted(deltas, key=len)
                if b_[:len(a)] == a and len(b_) == len(a) + 1 and isinstance(b_[-1], Lit):
                    rep = Rep(a, b_[-1].text)
                else:
                    raise _Unsupported("loop in %s has two unrelated bodies" % self.fi.qual)
            else:
                raise _Unsupported("loop in %s has %d different bodies" % (self.fi.qual, len(deltas)))
            p.env[k] = SStr(before[k].parts + (rep,))
        return [p]

    # -- expressions ---------------------------------------------------------------
    def _expr(self, e: Optional[ast.AST], p: Path) -> SV:
        if e is None:
            return SNone()
        if isinstance(e, ast.Constant):
            if isinstance(e.value, str):
                return SStr((Lit(e.value),))
            if e.value is None:
                return SNone()
            return SOpq("const", repr(e.value))
        if isinstance(e, ast.Name):
            if e.id in p.env:
                return p.env[e.id]
            return SOpq("expr", e.id)
        if isinstance(e, ast.Attribute):
            d = dotted(e)
            if d and d in p.env:
                return p.env[d]
            if d and d.startswith("self."):
                rest = d[5:]
                if rest.startswith("model.") and rest[6:] in RUNSPEC_ATTRS:
                    return SOpq("runspec", rest[6:])
                if "." not in rest:
                    attr = rest.lstrip("_") if rest.startswith("_" + (self.fi.cls or "") + "__") else rest
                    if rest in NON_OPERAND_ATTRS:
                        return SOpq(NON_OPERAND_ATTRS[rest][0], rest)
                    if rest == "args":
                        return SList("args")
                    if rest in ("model", "arrayed", "el1_arrayed", "named_arrayed"):
                        return SOpq("expr", d)
                    return SObj(rest)
                head = rest.split(".")[0]
                if rest.endswith("._elements.equations"):
                    return SList(head, "element")
                if rest.endswith(".element") and head in ("interval", "first_pulse", "volume", "height", "timestep"):
                    return SOpq("number", d)      # UnaryOperator(x).element: the wrapped raw value
                return SOpq("expr", d)
            base = self._expr(e.value, p)
            if isinstance(base, SObj) and e.attr == "equation":
                return SOpq("expr", src(e))
            return SOpq("expr", src(e))
        if isinstance(e, ast.Subscript):
            base = self._expr(e.value, p)
            if isinstance(base, SObj):
                return SObj(base.role if base.role.endswith("[]") else base.role + "[]", "element")
            if isinstance(base, SStr):
                return self._slice(base, e.slice)
            return SOpq("expr", src(e))
        if isinstance(e, ast.BinOp):
            l, r = self._expr(e.left, p), self._expr(e.right, p)
            if isinstance(e.op, ast.Add) and (isinstance(l, SStr) or isinstance(r, SStr)):
                return SStr(self._to_parts(l, p) + self._to_parts(r, p))
            if isinstance(e.op, ast.Mod) and isinstance(l, SStr):
                return self._percent(l, e.right, p)
            return SOpq("number" if isinstance(l, SOpq) and isinstance(r, SOpq) else "expr", src(e))
        if isinstance(e, ast.JoinedStr):
            parts: Parts = ()
            for v in e.values:
                if isinstance(v, ast.Constant):
                    parts += (Lit(str(v.value)),)
                elif isinstance(v, ast.FormattedValue):
                    parts += self._to_parts(self._expr(v.value, p), p)
            return SStr(parts)
        if isinstance(e, ast.Call):
            return self._call(e, p)
        if isinstance(e, (ast.Compare, ast.BoolOp, ast.UnaryOp, ast.List, ast.Tuple, ast.Dict, ast.Lambda)):
            return SOpq("expr", src(e))
        raise _Unsupported("expression %s (%s)" % (type(e).__name__, src(e)[:60]))

    def _slice(self, s: SStr, sl: ast.AST) -> SV:
        """acc[:-k]  strips the trailing separator of an accumulation loop."""
        if not (isinstance(sl, ast.Slice) and sl.lower is None and sl.step is None and sl.upper is not None):
            raise _Unsupported("string subscript %r" % src(sl))
        k: Optional[int] = None
        u = sl.upper
        if isinstance(u, ast.UnaryOp) and isinstance(u.op, ast.USub):
            if isinstance(u.operand, ast.Constant) and isinstance(u.operand.value, int):
                k = u.operand.value
            elif isinstance(u.operand, ast.Call) and call_name(u.operand) == "len":
                k = -1      # len(sep): strip whatever the separator is
        if k is None or not s.parts:
            raise _Unsupported("string slice %r" % src(sl))
        last = s.parts[-1]
        if isinstance(last, Rep) and last.sep == "\0inbody":
            body = last.body
            tail = body[-1]
            if k == -1 and isinstance(tail, Opq):
                return SStr(s.parts[:-1] + (Rep(body[:-1], "\0opq:" + tail.text),))
            if isinstance(tail, Lit) and (k == -1 or len(tail.text) >= k):
                kk = len(tail.text) if k == -1 else k
                sep = tail.text[-kk:]
                rest = tail.text[:-kk]
                nb = body[:-1] + ((Lit(rest),) if rest else ())
                return SStr(s.parts[:-1] + (Rep(nb, sep),))
        if isinstance(last, Lit) and k > 0 and len(last.text) >= k:
            rest = last.text[:-k]
            return SStr(s.parts[:-1] + ((Lit(rest),) if rest else ()))
        raise _Unsupported("cannot strip %s characters from %s" % (k, parts_text(s.parts)))

    def _percent(self, fmt: SStr, arg: ast.AST, p: Path) -> SV:
        if len(fmt.parts) != 1 or not isinstance(fmt.parts[0], Lit):
            raise _Unsupported("%-format on a non-literal")
        text = fmt.parts[0].text
        args = list(arg.elts) if isinstance(arg, ast.Tuple) else [arg]
        pieces = text.split("%s")
        if len(pieces) - 1 != len(args) or "%" in text.replace("%s", ""):
            raise _Unsupported("%-format %r" % text)
        parts: Parts = ()
        for i, piece in enumerate(pieces):
            if piece:
                parts += (Lit(piece),)
            if i < len(args):
                parts += self._to_parts(self._expr(args[i], p), p)
        return SStr(parts)

    def _to_parts(self, v: SV, p: Path) -> Parts:
        if isinstance(v, SStr):
            return v.parts
        if isinstance(v, SObj):
            return (Hole(v.role, None, "str", v.domain, self._exempt(v.role, p)),)
        if isinstance(v, SExt):
            return (Hole(v.role, v.time, "extractTerm", v.domain, self._exempt(v.role, p)),)
        if isinstance(v, SOpq):
            return (Opq(v.kind, v.text),)
        if isinstance(v, SNone):
            return (Opq("expr", "None"),)
        raise _Unsupported("cannot render %r as text" % (v,))

    def _exempt(self, role: str, p: Path) -> str:
        base = role.replace("[]", "")
        for c, val in p.conds:
            if val and c.startswith("isinstance(") and ("float" in c or "int" in c):
                subj = c[len("isinstance("):].split(",")[0].strip()
                if subj in ("self." + base, base, "self._" + base, "self.%s.equation" % base, "%s.equation" % base,
                            "element.equation", "self._equation") :
                    if subj.endswith(base) or subj.endswith(base + ".equation") or base in ("element", "_equation", "equation"):
                        return "number"
        return ""

    def _call(self, e: ast.Call, p: Path) -> SV:
        n = call_name(e)
        f = e.func
        # "...".format(...)
        if isinstance(f, ast.Attribute) and f.attr == "format":
            recv = self._expr(f.value, p)
            if not (isinstance(recv, SStr) and all(isinstance(x, Lit) for x in recv.parts)):
                raise _Unsupported("format() on a non-literal %r" % src(f.value)[:40])
            text = "".join(x.text for x in recv.parts)
            pos = [self._expr(a, p) for a in e.args]
            kw = {k.arg: self._expr(k.value, p) for k in e.keywords if k.arg}
            parts: Parts = ()
            auto = 0
            for lit, fld, spec, conv in string.Formatter().parse(text):
                if lit:
                    parts += (Lit(lit),)
                if fld is None:
                    continue
                if spec or conv:
                    raise _Unsupported("format spec in %r" % text)
                if fld == "":
                    v = pos[auto]
                    auto += 1
                elif fld.isdigit():
                    v = pos[int(fld)]
                else:
                    if fld not in kw:
                        raise _Unsupported("format field %r" % fld)
                    v = kw[fld]
                parts += self._to_parts(v, p)
            return SStr(parts)
        # sep.join(<piece> for k in <iterable>): the comprehension form of an accumulation loop
        if isinstance(f, ast.Attribute) and f.attr == "join" and len(e.args) == 1 and isinstance(e.args[0], (ast.GeneratorExp, ast.ListComp)) \
                and len(e.args[0].generators) == 1 and not e.args[0].generators[0].ifs:
            sep = self._expr(f.value, p)
            if isinstance(sep, SStr) and all(isinstance(x, Lit) for x in sep.parts):
                gen = e.args[0].generators[0]
                q0 = p.fork()
                it = self._expr(gen.iter, q0)
                if isinstance(it, SList) and ("#empty:" + it.role) in p.env:
                    return SStr(())                            # the list is empty on this path
                if isinstance(gen.target, ast.Name):
                    q0.env[gen.target.id] = SObj(it.role + "[]", it.domain) if isinstance(it, SList) else SOpq("number", gen.target.id)
                body = self._to_parts(self._expr(e.args[0].elt, q0), q0)
                return SStr((Rep(body, "".join(x.text for x in sep.parts)),))
        if isinstance(f, ast.Attribute) and f.attr in ("term", "arrayed_term"):
            recv = self._expr(f.value, p)
            targ = e.args[-1] if e.args else None
            if f.attr == "term":
                targ = e.args[0] if e.args else None
                for k in e.keywords:
                    if k.arg == "time":
                        targ = k.value
            tparts = self._to_parts(self._expr(targ, p), p) if targ is not None else (Lit("t"),)
            if isinstance(recv, SObj):
                return SStr((Hole(recv.role, tparts, "term", recv.domain if f.attr == "term" else "any"),))
            if isinstance(f.value, ast.Call) and call_name(f.value) == "super":
                return SNone()
            raise _Unsupported(".term() on %r" % src(f.value))
        if n == "extractTerm" and len(e.args) == 2:
            obj = self._expr(e.args[0], p)
            t = self._to_parts(self._expr(e.args[1], p), p)
            if isinstance(obj, SObj):
                return SExt(obj.role, t, obj.domain)
            if isinstance(obj, SOpq):
                return obj
            raise _Unsupported("extractTerm(%s)" % src(e.args[0]))
        if n == "len" and len(e.args) == 1:
            a0 = self._expr(e.args[0], p)
            if isinstance(a0, SList):
                return SOpq("len", a0.role)
            return SOpq("number", src(e))
        if n == "str" and len(e.args) == 1:
            return SStr(self._to_parts(self._expr(e.args[0], p), p))
        if n == "_array_resolve" and len(e.args) == 4:
            op = self._expr(e.args[0], p)
            obj = self._expr(e.args[1], p)
            t = self._to_parts(self._expr(e.args[2], p), p)
            if isinstance(op, SStr) and isinstance(obj, SObj) and len(op.parts) == 1 and isinstance(op.parts[0], Lit):
                return SStr((Rep((Hole(obj.role + "[*]", t, "extractTerm", "element"),), op.parts[0].text),))
            raise _Unsupported("_array_resolve call %r" % src(e))
        if n == "_matrix_element_to_string" and len(e.args) >= 2:
            obj = self._expr(e.args[0], p)
            t = self._to_parts(self._expr(e.args[1], p), p)
            if isinstance(obj, SObj):
                return SStr((Lit("["), Rep((Hole(obj.role + "[*]", t, "extractTerm", "element"),), ","), Lit("]")))
            raise _Unsupported("_matrix_element_to_string call")
        if isinstance(f, ast.Name) and f.id in self.local_defs:
            return self._inline(self.local_defs[f.id], e, p)
        if isinstance(f, ast.Name) and f.id in self.helpers:
            return self._inline(self.helpers[f.id], e, p)
        return SOpq("expr", src(e))

    def _inline(self, fn: ast.FunctionDef, e: ast.Call, p: Path) -> SV:
        """Inline a simple helper: its single Operator/Element-independent rendering."""
        if fn.name == "_get_sub_element_term":
            obj = self._expr(e.args[0], p)
            t = self._to_parts(self._expr(e.args[2], p), p)
            if isinstance(obj, SObj):
                # Element branch: element[...].term(time); Operator branch: arrayed_term(index, time) -> term(time)
                calls = [c for c in ast.walk(fn) if isinstance(c, ast.Call) and call_name(c) in ("term", "arrayed_term")]
                if not calls or not all(src(c.args[-1]) == fn.args.args[2].arg for c in calls):
                    raise AnalysisError("_get_sub_element_term no longer passes its time argument through")
                return SStr((Hole(obj.role + "[]", t, "term", "any"),))
        raise _Unsupported("call to helper %s" % fn.name)


def _transform_keep_ids(s: ast.stmt, sel: Dict[int, bool]) -> ast.stmt:
    """Copy *s* with the selected IfExp nodes replaced by their chosen branch."""
    def rec(n):
        if isinstance(n, ast.IfExp) and id(n) in sel:
            return rec(n.body if sel[id(n)] else n.orelse)
        if isinstance(n, ast.AST):
            new = copy.copy(n)
            for fld, val in ast.iter_fields(n):
                if isinstance(val, list):
                    setattr(new, fld, [rec(x) for x in val])
                elif isinstance(val, ast.AST):
                    setattr(new, fld, rec(val))
            return new
        return n
    return rec(s)


_INST_CACHE: Dict[Tuple[int, str], bool] = {}


def _instantiated(idx: Index, cls: str) -> bool:
    key = (id(idx), cls)
    if key not in _INST_CACHE:
        hit = False
        for fi in idx.all_funcs("BPTK_Py/"):
            for c in ast.walk(fi.node):
                if isinstance(c, ast.Call) and isinstance(c.func, ast.Name) and c.func.id == cls:
                    hit = True
        _INST_CACHE[key] = hit
    return _INST_CACHE[key]


# ---------------------------------------------------------------------------
# rendering of templates into parseable text
# ---------------------------------------------------------------------------

OPQ_SAMPLE = {"runspec": "1.0", "number": "2", "expr": "2", "name": "f", "points": "[[0, 0], [1, 1]]"}
SIGNS = ["<", ">", "<=", ">=", "==", "!="]


def hole_keys(parts: Parts, prefix: str = "") -> List[Tuple[str, Hole]]:
    out = []
    for p in parts:
        if isinstance(p, Hole):
            out.append((prefix + p.role, p))
        elif isinstance(p, Rep):
            out += hole_keys(p.body, prefix)
    return out


def render(parts: Parts, time_text: str, names: Dict[str, str], rep_n: int = 2, sign: str = "<",
           subst: Optional[Dict[str, str]] = None, _idx: str = "") -> str:
    """Text of the template: holes become identifiers (``names[role]`` + repetition
    suffix) unless ``subst`` gives raw replacement text for that identifier."""
    out = []
    for p in parts:
        if isinstance(p, Lit):
            out.append(p.text)
        elif isinstance(p, TimeRef):
            out.append(time_text)
        elif isinstance(p, Opq):
            if p.kind == "sign":
                out.append(sign)
            elif p.kind == "const":
                out.append(p.text)
            else:
                out.append(OPQ_SAMPLE.get(p.kind, "2"))
        elif isinstance(p, Hole):
            ident = names[p.role] + _idx
            if subst and ident in subst:
                out.append(subst[ident])
            else:
                out.append(ident)
        elif isinstance(p, Rep):
            sep = p.sep
            if sep.startswith("\0opq:"):
                sep = ","
            if sep == "\0inbody":
                sep = ""
            reps = [render(p.body, time_text, names, rep_n, sign, subst, "%s_%d" % (_idx, i)) for i in range(rep_n)]
            out.append(sep.join(reps))
    return "".join(out)


def ident_list(parts: Parts, names: Dict[str, str], rep_n: int = 2, _idx: str = "") -> List[Tuple[str, Hole]]:
    out = []
    for p in parts:
        if isinstance(p, Hole):
            out.append((names[p.role] + _idx, p))
        elif isinstance(p, Rep):
            for i in range(rep_n):
                out += ident_list(p.body, names, rep_n, "%s_%d" % (_idx, i))
    return out


def role_names(parts: Parts) -> Dict[str, str]:
    names: Dict[str, str] = {}
    for role, h in hole_keys(parts):
        if role not in names:
            names[role] = "H%d" % len(names)
    return names
