"""Real-arithmetic normal form of Python expression ASTs.

``x-y`` is ``x+(-1)*y``, ``x/y`` is ``x*y**-1``; sums and products are flattened
into sorted multisets, like terms are combined, numeric factors are folded into
the coefficient, a sign distributes over a sum and an inverse over a product;
*nothing else* is distributed.  ``**``, ``%``, ``//``, comparisons (oriented:
``a>=b`` is ``b<=a``), boolean operators, conditionals, calls, subscripts,
attributes and lambdas are opaque constructors over normalised children.

Two expressions with equal normal forms have equal values over the reals
(wherever both are defined).  The converse does not hold - an unequal normal
form is reported as 'different', which is only ever used to flag templates, and
the only identities the repository's templates rely on are the ones above.
"""
from __future__ import annotations

import ast
from fractions import Fraction
from typing import List, Tuple, Union

Num = Union[Fraction, float]


def parse_expr(text: str) -> ast.AST:
    return ast.parse(text.strip(), mode="eval").body


def nf(e: Union[ast.AST, str]) -> tuple:
    if isinstance(e, str):
        e = parse_expr(e)
    return _sum(e)


def equal(a, b) -> bool:
    return nf(a) == nf(b)


def _num(v) -> Num:
    if isinstance(v, bool):
        return Fraction(int(v))
    if isinstance(v, int):
        return Fraction(v)
    if isinstance(v, float):
        if v == int(v) and abs(v) < 1e15:
            return Fraction(int(v))
        return v
    raise TypeError


def _is_num_const(e: ast.AST) -> bool:
    return isinstance(e, ast.Constant) and isinstance(e.value, (int, float)) and not isinstance(e.value, bool)


def _terms(e: ast.AST, sign: int, out: List[Tuple[Num, tuple]]) -> None:
    """Append (coefficient, factor-multiset) terms of the additive structure of e."""
    if isinstance(e, ast.BinOp) and isinstance(e.op, ast.Add):
        _terms(e.left, sign, out)
        _terms(e.right, sign, out)
    elif isinstance(e, ast.BinOp) and isinstance(e.op, ast.Sub):
        _terms(e.left, sign, out)
        _terms(e.right, -sign, out)
    elif isinstance(e, ast.UnaryOp) and isinstance(e.op, ast.USub):
        _terms(e.operand, -sign, out)
    elif isinstance(e, ast.UnaryOp) and isinstance(e.op, ast.UAdd):
        _terms(e.operand, sign, out)
    else:
        coef, factors = _product(e)
        out.append((coef * sign if not isinstance(coef, float) else coef * sign, factors))


def _factors(e: ast.AST, exp: int, acc: List[Tuple[tuple, int]], coef: List[Num]) -> None:
    if isinstance(e, ast.BinOp) and isinstance(e.op, ast.Mult):
        _factors(e.left, exp, acc, coef)
        _factors(e.right, exp, acc, coef)
    elif isinstance(e, ast.BinOp) and isinstance(e.op, ast.Div):
        _factors(e.left, exp, acc, coef)
        _factors(e.right, -exp, acc, coef)
    elif isinstance(e, ast.UnaryOp) and isinstance(e.op, ast.USub):
        coef[0] = -coef[0]
        _factors(e.operand, exp, acc, coef)
    elif isinstance(e, ast.UnaryOp) and isinstance(e.op, ast.UAdd):
        _factors(e.operand, exp, acc, coef)
    elif _is_num_const(e):
        v = _num(e.value)
        if exp > 0:
            coef[0] = coef[0] * v
        elif v != 0:
            coef[0] = coef[0] / v
        else:
            acc.append((("num", "0"), -1))
    elif isinstance(e, ast.BinOp) and isinstance(e.op, (ast.Add, ast.Sub)):
        # a sum inside a product: not distributed; a single-term sum is merged
        s = _sum(e)
        if s[0] == "sum" :
            acc.append((s, exp))
        elif s[0] == "term":
            c, fs = s[1], s[2]
            if exp > 0:
                coef[0] = coef[0] * c
            else:
                coef[0] = coef[0] / c
            for f, x in fs:
                acc.append((f, x * exp))
        else:
            acc.append((s, exp))
    else:
        acc.append((_atom(e), exp))


def _product(e: ast.AST) -> Tuple[Num, tuple]:
    acc: List[Tuple[tuple, int]] = []
    coef: List[Num] = [Fraction(1)]
    _factors(e, 1, acc, coef)
    # combine equal factors
    comb = {}
    for f, x in acc:
        comb[f] = comb.get(f, 0) + x
    fs = tuple(sorted(((f, x) for f, x in comb.items() if x != 0), key=repr))
    return coef[0], fs


def _sum(e: ast.AST) -> tuple:
    out: List[Tuple[Num, tuple]] = []
    _terms(e, 1, out)
    comb = {}
    order = []
    for c, fs in out:
        if fs not in comb:
            comb[fs] = c
            order.append(fs)
        else:
            comb[fs] = comb[fs] + c
    terms = [(comb[fs], fs) for fs in order if comb[fs] != 0]
    if not terms:
        return ("term", Fraction(0), ())
    if len(terms) == 1:
        c, fs = terms[0]
        if c == 1 and len(fs) == 1 and fs[0][1] == 1:
            return fs[0][0]                      # a bare atom
        return ("term", c, fs)
    return ("sum", tuple(sorted((("term", c, fs) for c, fs in terms), key=repr)))


_CMP_FLIP = {ast.Gt: (ast.Lt, True), ast.GtE: (ast.LtE, True), ast.Lt: (ast.Lt, False), ast.LtE: (ast.LtE, False)}


def _atom(e: ast.AST) -> tuple:
    if isinstance(e, ast.Name):
        return ("name", e.id)
    if isinstance(e, ast.Constant):
        if _is_num_const(e):
            return ("term", _num(e.value), ())
        return ("const", repr(e.value))
    if isinstance(e, ast.Attribute):
        return ("attr", _sum(e.value), e.attr)
    if isinstance(e, ast.Subscript):
        return ("sub", _sum(e.value), _sum(e.slice) if not isinstance(e.slice, ast.Slice) else ("slice", ast.dump(e.slice)))
    if isinstance(e, ast.Call):
        return ("call", _sum(e.func), tuple(_sum(a) for a in e.args),
                tuple(sorted((k.arg or "**", _sum(k.value)) for k in e.keywords)))
    if isinstance(e, ast.BinOp):
        if isinstance(e.op, ast.Pow):
            return ("pow", _sum(e.left), _sum(e.right))
        if isinstance(e.op, ast.Mod):
            return ("mod", _sum(e.left), _sum(e.right))
        if isinstance(e.op, ast.FloorDiv):
            return ("floordiv", _sum(e.left), _sum(e.right))
        if isinstance(e.op, (ast.Add, ast.Sub, ast.Mult, ast.Div)):
            return _sum(e)
        return ("binop", type(e.op).__name__, _sum(e.left), _sum(e.right))
    if isinstance(e, ast.UnaryOp):
        if isinstance(e.op, ast.Not):
            return ("not", _sum(e.operand))
        if isinstance(e.op, (ast.USub, ast.UAdd)):
            return _sum(e)
        return ("unary", type(e.op).__name__, _sum(e.operand))
    if isinstance(e, ast.Compare):
        if len(e.ops) == 1:
            op = type(e.ops[0])
            l, r = _sum(e.left), _sum(e.comparators[0])
            if op in _CMP_FLIP:
                nop, flip = _CMP_FLIP[op]
                if flip:
                    l, r = r, l
                return ("cmp", nop.__name__, l, r)
            if op in (ast.Eq, ast.NotEq):
                a, b = sorted([l, r], key=repr)
                return ("cmp", op.__name__, a, b)
            return ("cmp", op.__name__, l, r)
        return ("chain", tuple(type(o).__name__ for o in e.ops), _sum(e.left), tuple(_sum(c) for c in e.comparators))
    if isinstance(e, ast.BoolOp):
        vals = []
        for v in e.values:      # flatten same-operator nesting (and/or are associative)
            n = _sum(v)
            if n and n[0] == "bool" and n[1] == type(e.op).__name__:
                vals.extend(n[2])
            else:
                vals.append(n)
        return ("bool", type(e.op).__name__, tuple(vals))
    if isinstance(e, ast.IfExp):
        return ("ifexp", _sum(e.test), _sum(e.body), _sum(e.orelse))
    if isinstance(e, (ast.Tuple, ast.List)):
        return (type(e).__name__.lower(), tuple(_sum(x) for x in e.elts))
    if isinstance(e, ast.Lambda):
        return ("lambda", ast.dump(e.args), _sum(e.body))
    if isinstance(e, ast.Starred):
        return ("star", _sum(e.value))
    return ("raw", ast.dump(e))


# ---------------------------------------------------------------------------
# helpers used by the template rules
# ---------------------------------------------------------------------------

class _Graft(ast.NodeTransformer):
    def __init__(self, mapping):
        self.mapping = mapping

    def visit_Name(self, node: ast.Name):
        if node.id in self.mapping:
            return self.mapping[node.id]
        return node


def graft(tree: ast.AST, mapping) -> ast.AST:
    """Replace placeholder Names by sub-trees (the *intended* grouping)."""
    import copy
    return ast.fix_missing_locations(_Graft(mapping).visit(copy.deepcopy(tree)))


def root_kind(e: ast.AST) -> str:
    """Precedence class of the root operator of an expression."""
    if isinstance(e, ast.BoolOp):
        return "or" if isinstance(e.op, ast.Or) else "and"
    if isinstance(e, ast.IfExp):
        return "ifexp"
    if isinstance(e, ast.Lambda):
        return "lambda"
    if isinstance(e, ast.UnaryOp):
        return "not" if isinstance(e.op, ast.Not) else "unary"
    if isinstance(e, ast.Compare):
        return "cmp"
    if isinstance(e, ast.BinOp):
        if isinstance(e.op, (ast.Add, ast.Sub)):
            return "add"
        if isinstance(e.op, (ast.Mult, ast.Div, ast.Mod, ast.FloorDiv)):
            return "mul"
        if isinstance(e.op, ast.Pow):
            return "pow"
        return "bit"
    return "atom"
