"""Statement-level control-flow graph for the statement kinds the repository
uses, with exceptional edges, ``finally`` duplication and generator-close edges,
plus a small product-graph dataflow engine (facts x nodes) that yields witness
paths.

Node kinds
  entry, exit (normal return / fall off the end), raise (uncaught exception),
  genclose (generator closed at a yield and not caught), stmt (simple
  statement), test (if/while condition), iter (for header), with (with header),
  dispatch (exception arrives at a try), handler (except clause header),
  def (nested function/class definition: the body is *not* executed here).
Edge labels
  next, true, false, loop (for: another item), done (for: exhausted),
  exc (an exception leaves the statement *before* its effect completed),
  genclose (GeneratorExit thrown into a yield), caught, propagate, return,
  break, continue.
"""
from __future__ import annotations

import ast
from dataclasses import dataclass, field
from typing import Callable, Dict, FrozenSet, Hashable, Iterable, List, Optional, Set, Tuple

from .core import AnalysisError, src


@dataclass
class Node:
    id: int
    kind: str
    ast: Optional[ast.AST] = None
    label: str = ""

    @property
    def lineno(self) -> int:
        return getattr(self.ast, "lineno", 0) if self.ast is not None else 0

    def text(self) -> str:
        if self.ast is None:
            return self.label or self.kind
        t = " ".join(src(self.ast).split())
        if self.kind in ("test", "iter", "with", "handler"):
            t = "%s %s" % (self.kind, t)
        return t[:110]


class CFG:
    def __init__(self, name: str):
        self.name = name
        self.nodes: List[Node] = []
        self.succ: Dict[int, List[Tuple[int, str]]] = {}
        self.entry = self._new("entry").id
        self.exit = self._new("exit").id
        self.raise_exit = self._new("raise").id
        self.genclose_exit = self._new("genclose").id

    def _new(self, kind: str, node: Optional[ast.AST] = None, label: str = "") -> Node:
        n = Node(len(self.nodes), kind, node, label)
        self.nodes.append(n)
        self.succ[n.id] = []
        return n

    def edge(self, a: int, b: int, label: str = "next") -> None:
        if (b, label) not in self.succ[a]:
            self.succ[a].append((b, label))

    def preds(self) -> Dict[int, List[Tuple[int, str]]]:
        p: Dict[int, List[Tuple[int, str]]] = {n.id: [] for n in self.nodes}
        for a, outs in self.succ.items():
            for b, l in outs:
                p[b].append((a, l))
        return p

    def stmt_nodes(self) -> List[Node]:
        return [n for n in self.nodes if n.ast is not None]


_CATCH_ALL = {"BaseException"}
_CATCH_EXC = {"Exception"}


def _handler_catches(h: ast.ExceptHandler) -> str:
    """'all' (bare / BaseException: also GeneratorExit), 'exc' (Exception), 'some'."""
    if h.type is None:
        return "all"
    names = []
    t = h.type
    elts = t.elts if isinstance(t, ast.Tuple) else [t]
    for e in elts:
        names.append(src(e).split(".")[-1])
    if any(n in _CATCH_ALL for n in names):
        return "all"
    if any(n == "GeneratorExit" for n in names):
        return "genexit"
    if any(n in _CATCH_EXC for n in names):
        return "exc"
    return "some"


@dataclass
class _Ctx:
    exc: int                         # where an exception raised here goes
    genclose: int                    # where GeneratorExit thrown at a yield goes
    brk: Optional[int] = None
    cont: Optional[int] = None
    # enclosing finally bodies, innermost last: (stmts, ctx outside that try, loop depth)
    finals: Tuple = ()
    loop_depth: int = 0


class Builder:
    """Builds the CFG of one function body."""

    def __init__(self, name: str, nonraising: Optional[Callable[[ast.Call], bool]] = None):
        self.g = CFG(name)
        self.nonraising = nonraising or (lambda c: False)

    # -- which statements can raise ----------------------------------------
    def may_raise(self, node: ast.AST) -> bool:
        stack = [node]
        first = True
        while stack:
            n = stack.pop()
            if not first and isinstance(n, (ast.FunctionDef, ast.AsyncFunctionDef, ast.Lambda, ast.ClassDef)):
                continue
            first = False
            if isinstance(n, ast.Call):
                if not self.nonraising(n):
                    return True
            elif isinstance(n, (ast.Raise, ast.Assert, ast.Delete, ast.Import, ast.ImportFrom)):
                return True
            elif isinstance(n, ast.Subscript) and isinstance(n.ctx, (ast.Load, ast.Del)):
                return True
            stack.extend(ast.iter_child_nodes(n))
        return False

    @staticmethod
    def has_yield(node: ast.AST) -> bool:
        stack = [node]
        first = True
        while stack:
            n = stack.pop()
            if not first and isinstance(n, (ast.FunctionDef, ast.AsyncFunctionDef, ast.Lambda, ast.ClassDef)):
                continue
            first = False
            if isinstance(n, (ast.Yield, ast.YieldFrom)):
                return True
            stack.extend(ast.iter_child_nodes(n))
        return False

    # -- construction --------------------------------------------------------
    def build(self, fn: ast.AST) -> CFG:
        g = self.g
        ctx = _Ctx(exc=g.raise_exit, genclose=g.genclose_exit)
        body = fn.body if hasattr(fn, "body") else [fn]
        outs = self._seq(body, [(g.entry, "next")], ctx)
        for a, l in outs:
            g.edge(a, g.exit, l)
        return g

    def _link(self, ins: List[Tuple[int, str]], target: int) -> None:
        for a, l in ins:
            self.g.edge(a, target, l)

    def _seq(self, stmts: List[ast.stmt], ins: List[Tuple[int, str]], ctx: _Ctx) -> List[Tuple[int, str]]:
        for s in stmts:
            if not ins:
                break  # unreachable code after return/raise
            ins = self._stmt(s, ins, ctx)
        return ins

    def _simple(self, s: ast.AST, ins, ctx: _Ctx, kind: str = "stmt", expr: Optional[ast.AST] = None) -> Node:
        n = self.g._new(kind, s)
        self._link(ins, n.id)
        probe = expr if expr is not None else s
        if self.may_raise(probe):
            self.g.edge(n.id, ctx.exc, "exc")
        if self.has_yield(probe):
            self.g.edge(n.id, ctx.genclose, "genclose")
        return n

    def _through_finals(self, start: int, label: str, ctx: _Ctx, upto_loop_depth: Optional[int], target: int, final_label: str) -> None:
        """Route a return/break/continue through the enclosing finally bodies."""
        cur = [(start, label)]
        for (stmts, octx, depth) in reversed(ctx.finals):
            if upto_loop_depth is not None and depth < upto_loop_depth:
                break
            cur = self._seq(stmts, cur, octx)
            if not cur:
                return
        for a, l in cur:
            self.g.edge(a, target, final_label if a == start else l)

    def _stmt(self, s: ast.stmt, ins, ctx: _Ctx) -> List[Tuple[int, str]]:
        g = self.g
        if isinstance(s, (ast.FunctionDef, ast.AsyncFunctionDef, ast.ClassDef)):
            n = g._new("def", s, "def " + s.name)
            self._link(ins, n.id)
            return [(n.id, "next")]
        if isinstance(s, ast.Return):
            n = self._simple(s, ins, ctx)
            self._through_finals(n.id, "return", ctx, None, g.exit, "return")
            return []
        if isinstance(s, ast.Raise):
            n = g._new("stmt", s)
            self._link(ins, n.id)
            g.edge(n.id, ctx.exc, "exc")
            return []
        if isinstance(s, ast.Break):
            n = g._new("stmt", s)
            self._link(ins, n.id)
            if ctx.brk is None:
                raise AnalysisError("break outside loop in %s" % g.name)
            self._through_finals(n.id, "break", ctx, ctx.loop_depth, ctx.brk, "break")
            return []
        if isinstance(s, ast.Continue):
            n = g._new("stmt", s)
            self._link(ins, n.id)
            if ctx.cont is None:
                raise AnalysisError("continue outside loop in %s" % g.name)
            self._through_finals(n.id, "continue", ctx, ctx.loop_depth, ctx.cont, "continue")
            return []
        if isinstance(s, ast.If):
            t = self._simple(s.test, ins, ctx, "test")
            outs = self._seq(s.body, [(t.id, "true")], ctx)
            if s.orelse:
                outs += self._seq(s.orelse, [(t.id, "false")], ctx)
            else:
                outs.append((t.id, "false"))
            return outs
        if isinstance(s, ast.While):
            t = self._simple(s.test, ins, ctx, "test")
            after = g._new("join", None, "after-while")
            lctx = _Ctx(ctx.exc, ctx.genclose, after.id, t.id, ctx.finals, ctx.loop_depth + 1)
            outs = self._seq(s.body, [(t.id, "true")], lctx)
            self._link(outs, t.id)
            always = isinstance(s.test, ast.Constant) and bool(s.test.value)
            res = [(after.id, "next")]
            if not always:
                if s.orelse:
                    eouts = self._seq(s.orelse, [(t.id, "false")], ctx)
                    self._link(eouts, after.id)
                else:
                    g.edge(t.id, after.id, "false")
            return res
        if isinstance(s, (ast.For, ast.AsyncFor)):
            it = self._simple(s, ins, ctx, "iter", expr=s.iter)
            after = g._new("join", None, "after-for")
            lctx = _Ctx(ctx.exc, ctx.genclose, after.id, it.id, ctx.finals, ctx.loop_depth + 1)
            outs = self._seq(s.body, [(it.id, "loop")], lctx)
            self._link(outs, it.id)
            if s.orelse:
                eouts = self._seq(s.orelse, [(it.id, "done")], ctx)
                self._link(eouts, after.id)
            else:
                g.edge(it.id, after.id, "done")
            return [(after.id, "next")]
        if isinstance(s, (ast.With, ast.AsyncWith)):
            w = g._new("with", s)
            self._link(ins, w.id)
            if any(self.may_raise(i.context_expr) for i in s.items):
                g.edge(w.id, ctx.exc, "exc")
            return self._seq(s.body, [(w.id, "next")], ctx)
        if isinstance(s, ast.Try) or type(s).__name__ == "TryStar":
            return self._try(s, ins, ctx)
        if isinstance(s, ast.Match):
            raise AnalysisError("match statement not supported by the CFG builder (%s)" % g.name)
        # simple statements
        n = self._simple(s, ins, ctx)
        return [(n.id, "next")]

    def _try(self, s: ast.Try, ins, ctx: _Ctx) -> List[Tuple[int, str]]:
        g = self.g
        has_final = bool(s.finalbody)
        # context seen by code *inside* the try statement but outside the body
        # (handlers, else): exceptions go to the finally-then-outer path
        if has_final:
            fexc_entry = g._new("join", None, "finally(exc)")
            fouts = self._seq(s.finalbody, [(fexc_entry.id, "next")], ctx)
            for a, l in fouts:
                g.edge(a, ctx.exc, "propagate")    # re-raise after the finally body *completed* (its effects apply)
            fgc_entry = g._new("join", None, "finally(genclose)")
            gouts = self._seq(s.finalbody, [(fgc_entry.id, "next")], ctx)
            for a, l in gouts:
                g.edge(a, ctx.genclose, "propagate")
            finals = ctx.finals + ((s.finalbody, ctx, ctx.loop_depth),)
            hctx = _Ctx(fexc_entry.id, fgc_entry.id, ctx.brk, ctx.cont, finals, ctx.loop_depth)
        else:
            hctx = ctx
        outs: List[Tuple[int, str]] = []
        if s.handlers:
            disp = g._new("dispatch", s, "except-dispatch")
            gdisp = g._new("dispatch", s, "genclose-dispatch")
            caught_all = False
            caught_exc = False
            gen_caught = False
            for h in s.handlers:
                hn = g._new("handler", h.type if h.type is not None else None,
                            "except %s" % (src(h.type) if h.type is not None else ""))
                kind = _handler_catches(h)
                if not caught_all:
                    g.edge(disp.id, hn.id, "caught")
                if kind in ("all", "genexit") and not gen_caught:
                    g.edge(gdisp.id, hn.id, "caught")
                    gen_caught = True
                if kind == "all":
                    caught_all = True
                if kind == "exc":
                    caught_exc = True
                outs += self._seq(h.body, [(hn.id, "next")], hctx)
            if not caught_all:
                # 'except Exception' still lets BaseException through; keep the edge
                # only when no Exception-wide handler exists (precision over
                # KeyboardInterrupt-style escapes, which no property speaks about)
                if not caught_exc:
                    g.edge(disp.id, hctx.exc, "propagate")
            if not gen_caught:
                g.edge(gdisp.id, hctx.genclose, "propagate")
            bctx = _Ctx(disp.id, gdisp.id, ctx.brk, ctx.cont, hctx.finals, ctx.loop_depth)
        else:
            bctx = hctx
        bouts = self._seq(s.body, ins, bctx)
        if s.orelse:
            bouts = self._seq(s.orelse, bouts, hctx)
        outs += bouts
        if has_final:
            outs = self._seq(s.finalbody, outs, ctx)
        return outs


def build_cfg(fn: ast.AST, name: str = "", nonraising: Optional[Callable[[ast.Call], bool]] = None) -> CFG:
    return Builder(name or getattr(fn, "name", "<fn>"), nonraising).build(fn)


# --------------------------------------------------------------------------
# product-graph dataflow with witnesses
# --------------------------------------------------------------------------

Fact = Hashable
Transfer = Callable[[Node, Fact, str], Iterable[Fact]]


class Flow:
    """Forward reachability over (node, fact).  ``transfer(node, fact, label)``
    gives the facts that hold on the out-edge *label* of *node* when *fact*
    held on entry to it.  ``at[node]`` is the set of facts that may hold on
    entry to the node."""

    def __init__(self, cfg: CFG, init: Iterable[Fact], transfer: Transfer):
        self.cfg = cfg
        self.at: Dict[int, Set[Fact]] = {n.id: set() for n in cfg.nodes}
        self.pred: Dict[Tuple[int, Fact], Optional[Tuple[int, Fact, str]]] = {}
        work: List[Tuple[int, Fact]] = []
        for f in init:
            self.at[cfg.entry].add(f)
            self.pred[(cfg.entry, f)] = None
            work.append((cfg.entry, f))
        while work:
            nid, fact = work.pop()
            node = cfg.nodes[nid]
            for (b, label) in cfg.succ[nid]:
                for out in transfer(node, fact, label):
                    if out not in self.at[b]:
                        self.at[b].add(out)
                        self.pred[(b, out)] = (nid, fact, label)
                        work.append((b, out))

    def witness(self, nid: int, fact: Fact, limit: int = 40) -> List[str]:
        """One path entry -> (nid, fact), as 'line: text --label-->' strings."""
        steps = []
        cur: Optional[Tuple[int, Fact]] = (nid, fact)
        seen = set()
        while cur is not None and cur not in seen:
            seen.add(cur)
            p = self.pred.get(cur)
            n = self.cfg.nodes[cur[0]]
            steps.append((n, cur[1], p[2] if p else ""))
            cur = (p[0], p[1]) if p else None
        steps.reverse()
        out = []
        for n, f, lab in steps:
            if n.kind in ("join",):
                continue
            if isinstance(n.ast, ast.Expr) and isinstance(n.ast.value, ast.Constant) and isinstance(n.ast.value.value, str):
                continue        # docstring
            out.append("%s%s [%s]" % (("--%s--> " % lab) if lab else "", ("L%d " % n.lineno if n.lineno else "") + n.text(), f))
        if len(out) > limit:
            out = out[:limit // 2] + ["..."] + out[-limit // 2:]
        return out
