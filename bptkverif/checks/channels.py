"""C09: every way of obtaining results reports the same numbers on the same grid -
derivation of the session clock, per-step ordering, one series expression for
all formats, REST handlers that compute nothing, session_state key agreement."""
from __future__ import annotations

import ast
from typing import Dict, List, Optional, Set, Tuple

from ..cfg import Flow, Node, build_cfg
from ..core import (seq, AnalysisError, FuncInfo, Index, Result, call_name, call_recv, const_str, dotted, iter_calls,
                    norm_stmt, src, walk_no_nested)
from ..util import closure_rule, names_in, params, single_assignments

BPTK = "BPTK_Py/bptk.py"
RUNNER = "BPTK_Py/scenariorunners/sd_runner.py"
SERVER = "BPTK_Py/server/bptkServer.py"
SDSIM = "BPTK_Py/sdsimulation/sd_simulation.py"


def _depends_on(expr: ast.AST, assigns: Dict[str, List[ast.AST]], pred, depth: int = 0, seen=None) -> bool:
    """Is *expr* data-dependent (through local assignments) on an expression satisfying *pred*?"""
    seen = seen if seen is not None else set()
    for n in ast.walk(expr):
        if pred(n):
            return True
        if isinstance(n, ast.Name) and n.id in assigns and n.id not in seen and depth < 6:
            seen.add(n.id)
            for v in assigns[n.id]:
                if _depends_on(v, assigns, pred, depth + 1, seen):
                    return True
    return False


def session_grid_rules(idx: Index, res: Result, rule: str = "DERIVE"):
    """Shared by C09 and C05: the session's grid (start, stop, dt and the clock's first value) is the selected scenarios' grid."""
    bs = idx.func(BPTK, "bptk.begin_session")
    assigns = single_assignments(bs.node)
    dicts = [n for n in walk_no_nested(bs.node) if isinstance(n, ast.Dict) and {"step", "starttime", "stoptime", "dt"} <= {const_str(k) for k in n.keys if k is not None}]
    if len(dicts) != 1:
        raise AnalysisError("begin_session: session_state literal not found")
    st = {const_str(k): v for k, v in zip(dicts[0].keys, dicts[0].values) if k is not None}
    for key in ("starttime", "stoptime", "dt"):
        def pred(n, key=key):
            return isinstance(n, ast.Attribute) and n.attr == key and isinstance(n.value, ast.Name) and "scenario" in n.value.id
        ok = _depends_on(st[key], assigns, pred)
        res.check(rule, "session %s is derived from the selected scenarios" % key, ok, bs.loc(st[key]), bs.qual, '"%s": %s' % (key, src(st[key])),
                  "session_state['%s'] is %s, which does not depend on any scenario's %s: %s" % (
                      key, src(st[key]), key,
                      "the REST begin-session cannot pass dt, so a model with dt=0.1 is stepped on 0, 1, 2, ... while its batch run has 10 "
                      "rows per time unit" if key == "dt" else "the session grid differs from the batch run's"),
                  key="%s/begin_session/%s" % (rule, key))
    ok = src(st["step"]) == src(st["starttime"])
    res.check(rule, "the session clock starts at the session start time", ok, bs.loc(), bs.qual, '"step": %s' % src(st["step"]),
              "the clock starts at %s, the session start time is %s" % (src(st["step"]), src(st["starttime"])), key=rule + "/begin_session/step")
    # session settings (which may carry run specs) are applied to a scenario *before* its run specs are read into the session grid
    bcfg = build_cfg(bs.node, bs.qual)

    def reads_runspec(a_):
        return a_ is not None and any(isinstance(x, ast.Attribute) and x.attr in ("starttime", "stoptime", "dt") and isinstance(x.value, ast.Name)
                                      and "scenario" in x.value.id and isinstance(x.ctx, ast.Load) for x in ast.walk(a_))

    def tr_order(node: Node, fact, label):
        if node.kind == "iter" and label == "loop":
            return [False]
        a_ = node.ast.iter if node.kind == "iter" else node.ast
        if node.kind in ("stmt", "test") and label != "exc" and reads_runspec(a_):
            return [True]
        return [fact]
    oflow = Flow(bcfg, [False], tr_order)
    late = [nd for nd in bcfg.nodes if nd.kind == "stmt" and nd.ast is not None and any(call_name(c) == "configure_settings" for c in iter_calls(nd.ast))
            and True in oflow.at[nd.id]]
    res.check(rule, "session settings are applied before the scenario's run specs are read", not late, bs.loc(late[0].ast) if late else bs.loc(), bs.qual,
              late[0].text() if late else "configure_settings(...) ... scenario_object.starttime",
              "begin_session reads a scenario's starttime/stoptime/dt into the session grid and only afterwards applies the session settings to it: run "
              "specs given as session settings change the model but not the grid the session steps over", key=rule + "/begin_session/settings-after-grid")
    mx = [c for c in iter_calls(bs.node) if call_name(c) == "max" and any("starttime" in src(a) for a in c.args)]
    mn = [c for c in iter_calls(bs.node) if call_name(c) == "min" and any("stoptime" in src(a) for a in c.args)]
    res.check(rule, "start = max over scenarios, stop = min over scenarios", bool(mx) and bool(mn), bs.loc(), bs.qual,
              "%s / %s" % (src(mx[0]) if mx else "?", src(mn[0]) if mn else "?"), "session start/stop are not the max/min over the selected scenarios",
              key=rule + "/begin_session/max-min")

    return bs, dicts


def keyed_skip_rule(idx: Index, res: Result, rule: str = "SKIPKEY") -> int:
    """SKIPKEY (round 10): 'settings passed with a step affect exactly the steps from that step onwards'.  In SdRunner.run_scenario_step a
    setting of the step may be skipped (continue before change_equation / change_points) on the strength of a record that outlives the
    call (reached from a parameter other than the settings, or from self) only if that record is addressed by everything that identifies
    the target: the scenario manager *and* the scenario (or it hangs off the scenario object itself).  A record keyed by scenario name
    alone is shared by same-named scenarios of different managers: the second one's setting is dropped.  Returns the skips examined."""
    fi = idx.func("BPTK_Py/scenariorunners/sd_runner.py", "SdRunner.run_scenario_step")
    fn = fi.node
    ps = params(fn)
    from ..util import path_atoms
    assigns = {}
    for n in ast.walk(fn):
        if isinstance(n, ast.Assign) and len(n.targets) == 1 and isinstance(n.targets[0], ast.Name):
            assigns.setdefault(n.targets[0].id, []).append(n.value)
    def chain(name: str, seen=None):
        """(roots, keys) of the access paths a local name is bound to"""
        seen = seen or set()
        if name in seen:
            return set(), set()
        seen = seen | {name}
        if name not in assigns:
            return {name}, set()
        roots, keys = set(), set()
        for v in assigns[name]:
            for y in ast.walk(v):
                if isinstance(y, ast.Subscript):
                    keys.add(src(y.slice))
                if isinstance(y, ast.Call) and call_name(y) in ("setdefault", "get") and y.args:
                    keys.add(src(y.args[0]))
                if isinstance(y, ast.Name) and isinstance(y.ctx, ast.Load) and y.id != name:
                    r_, k_ = chain(y.id, seen)
                    roots |= r_; keys |= k_
                if isinstance(y, ast.Attribute) and isinstance(y.value, ast.Name) and y.value.id == "self":
                    roots.add("self." + y.attr)
        return roots, keys
    loops = [l for l in ast.walk(fn) if isinstance(l, ast.For) and any(isinstance(c, ast.Call) and call_name(c) in ("change_equation", "change_points")
                                                                        for b in l.body for c in ast.walk(b))
             and not any(isinstance(c, ast.Call) and call_name(c) == "start" for b in l.body for c in ast.walk(b))]
    nskips = 0
    mgr = ps[3] if len(ps) > 3 else "scenario_manager"
    for l in loops:
        for c in [x for b in l.body for x in ast.walk(b) if isinstance(x, (ast.Continue, ast.Break))]:
            nskips += 1
            names = {y.id for a_, _t in path_atoms(fn, c) for y in ast.walk(a_) if isinstance(y, ast.Name)}
            for nm in sorted(names):
                roots, keys = chain(nm)
                outliving = {r_ for r_ in roots if (r_ in ps and r_ not in ("self", ps[2], mgr, ps[1])) or r_.startswith("self.")}
                if not outliving:
                    continue
                ok = mgr in keys or any(mgr in k for k in keys)
                res.check(rule, "skip of a step setting on record '%s' (from %s) is keyed by the scenario manager" % (nm, ", ".join(sorted(outliving))),
                          ok, fi.loc(c), fi.qual, "continue on %s" % nm,
                          "run_scenario_step skips applying a setting of this step when the record %s (reached from %s, which outlives the call) "
                          "says so, but the record is addressed by %s only - not by the scenario manager: two managers with a scenario of the same "
                          "name share it, and the second one's setting is silently dropped from that step on"
                          % (nm, ", ".join(sorted(outliving)), sorted(keys)), key="%s/run_scenario_step/%s" % (rule, nm))
    res.ob(rule, "settings loops of run_scenario_step examined: %d loops, %d skip statements" % (len(loops), nskips), True)
    res.floor("settings application loops in run_scenario_step", len(loops), 2)
    return nskips


def check_c09(idx: Index, tier: str, res: Result) -> None:
    res.explanation = ("(1) each of session_state starttime/stoptime/dt is data-dependent on the corresponding attribute of the selected "
                       "scenario objects; (2) the clock advance is normalised, logs are keyed by the pre-advance step, settings are applied "
                       "before the step's start() and the SdSimulation is kept between steps; (3) a step simulates exactly [step, step]; "
                       "(4) the dataframe, dict and JSON values come from one series expression; (5) the REST handlers pass the results of "
                       "run_scenarios/run_step/session_results through a serialiser untouched; (6) every session_state key read anywhere is "
                       "written by begin_session.")
    res.rules = ["DERIVE: def-use from scenario attributes to the session run specs", "STEP: ordering in run_step / run_scenario_step",
                 "SERIES: one series expression for all formats", "PASSTHROUGH: handlers compute nothing", "KEYS: session_state reads vs writes",
                 "SKIPKEY: a step setting is skipped on a record that outlives the call only if the record is keyed by manager and scenario"]
    res.not_decided = ["value equality across channels (numeric)", "HTTP serialisation fidelity of jsonpickle/json for floats"]
    bs, dicts = session_grid_rules(idx, res)
    # the batch run sweeps the model's own grid (start, stop, dt of the model the scenario carries) - the grid the session clock is derived from
    from .sddsl_templates import _sweep
    _sweep(idx, res)
    # ... and that grid is the one the session clock walks: timerange and run_step normalise alike and cover start..stop (shared with C05)
    from .timegrid import check_normalisation
    check_normalisation(idx, res)
    # one scenario's step settings never reach another scenario of the same step (shared with C06/C07)
    from .scenarios import stale_rule
    stale_rule(idx, res, ("BPTK_Py/scenariorunners/", "BPTK_Py/bptk.py"))
    keyed_skip_rule(idx, res)
    # POST /run reports what the other channels report for the same settings: no value memoised under earlier settings survives
    from .memo import run_resource_reset_rule
    run_resource_reset_rule(idx, res, "PASSTHROUGH")
    # every channel walks the same grid: none of them counts its steps by truncating a float quotient
    from ..util import truncated_step_counts
    truncated_step_counts(idx, res, "STEP", ("BPTK_Py/bptk.py", "BPTK_Py/server/", "BPTK_Py/sdsimulation/", "BPTK_Py/scenariorunners/"))

    from .memo import selected_scenarios_without
    bad = selected_scenarios_without(bs, "reset_scenario_cache")
    res.check("DERIVE", "a session starts every selected scenario from a clean cache", not bad, bs.loc(), bs.qual, "reset_scenario_cache per selected scenario",
              "a selected scenario can enter the session with the memo and live simulation of an earlier batch run or session: the steps then "
              "report the old run's numbers and ignore step settings, while the batch channels report the registered scenario; path: %s"
              % (bad[0] if bad else ""), key="DERIVE/begin_session/clean-start")
    es = idx.func(BPTK, "bptk.end_session")
    bad = selected_scenarios_without(es, "reset_scenario_cache")
    res.check("DERIVE", "end_session leaves every session scenario with a clean cache", not bad, es.loc(), es.qual, "reset_scenario_cache per session scenario",
              "end_session leaves a scenario with the session's memo: a later batch run reports the session's per-step settings", key="DERIVE/end_session/clean-end")

    # ---- (2)/(3) the step --------------------------------------------------------------------------------------------
    rs = idx.func(BPTK, "bptk.run_step")
    cfg = build_cfg(rs.node, rs.qual)
    order: Dict[str, int] = {}
    for n in rs.node.body:
        for x in ast.walk(n):
            if isinstance(x, ast.Assign) and isinstance(x.targets[0], ast.Subscript):
                t = x.targets[0]
                if isinstance(t.value, ast.Subscript) and const_str(t.value.slice) in ("settings_log", "results_log"):
                    order[const_str(t.value.slice)] = seq(x)
                if const_str(t.slice) == "step" and "session_state" in src(t.value):
                    order["advance"] = seq(x)
            if isinstance(x, ast.Call) and call_name(x) == "run_scenario_step":
                order.setdefault("simulate", seq(x))
    for k in ("settings_log", "results_log", "advance", "simulate"):
        if k not in order:
            raise AnalysisError("run_step: %s not found" % k)
    ok = order["simulate"] < order["results_log"] < order["advance"] and order["settings_log"] < order["advance"]
    res.check("STEP", "simulate < log < advance", ok, rs.loc(), rs.qual, str(order), "run_step's phases are out of order: %s" % order, key="STEP/run_step/order")
    stepreads = [n for n in walk_no_nested(rs.node) if isinstance(n, ast.Assign) and isinstance(n.targets[0], ast.Name) and n.targets[0].id == "step"]
    ok = len(stepreads) == 1 and "session_state" in src(stepreads[0].value) and seq(stepreads[0]) < order["simulate"]
    res.check("STEP", "the step variable is the pre-advance clock", ok, rs.loc(), rs.qual, norm_stmt(stepreads[0]) if stepreads else "",
              "the step used for simulation and logging is not the clock value read before the advance", key="STEP/run_step/pre-advance")
    from ..nf import nf as _nf
    stop = [n for n in walk_no_nested(rs.node) if isinstance(n, ast.If) and isinstance(n.test, ast.Compare) and len(n.test.ops) == 1
            and {src(n.test.left), src(n.test.comparators[0])} == {"step", "stoptime"}]
    ok = len(stop) == 1 and _nf(stop[0].test) == _nf("step > stoptime") and seq(stop[0]) < order["simulate"]
    res.check("STEP", "steps are served through the stop time inclusive", ok, rs.loc(stop[0]) if stop else rs.loc(), rs.qual, src(stop[0].test) if stop else "",
              "the stop test is %s: the session must serve the stop time itself and nothing after it" % (src(stop[0].test) if stop else "missing"),
              key="STEP/run_step/stop-test")
    calls = [c for c in iter_calls(rs.node) if call_name(c) == "run_scenario_step" and isinstance(c.func, ast.Attribute)]
    sdcall = [c for c in calls if any(k.arg == "settings" for k in c.keywords)]
    ok = bool(sdcall) and all({k.arg: src(k.value) for k in c.keywords}.get("step") == "step" and
                             {k.arg: src(k.value) for k in c.keywords}.get("settings") == "settings" and
                             {k.arg: src(k.value) for k in c.keywords}.get("equations") == "equations" for c in sdcall)
    res.check("STEP", "the SD runner gets (step, settings, equations) unchanged", ok, rs.loc(), rs.qual, src(sdcall[0])[:120] if sdcall else "",
              "run_step does not hand its step/settings/equations to the SD runner unchanged", key="STEP/run_step/runner-args")
    rss = idx.func(RUNNER, "SdRunner.run_scenario_step")
    starts = [c for c in iter_calls(rss.node) if call_name(c) == "start"]
    applies = [c for c in iter_calls(rss.node) if call_name(c) in ("change_equation", "change_points", "change_runspecs")]
    ok = len(starts) == 1 and all(seq(c) < seq(starts[0]) for c in applies)
    res.check("STEP", "step settings are applied before the step is simulated", ok, rss.loc(), rss.qual, "change_* ... start()",
              "settings passed with a step are applied after the step was simulated: they take effect one step late", key="STEP/run_scenario_step/apply-before-start")
    closure_rule(idx, res, "STEP", [(RUNNER, "SdRunner.run_scenario_step"), (BPTK, "bptk.run_step"), (BPTK, "bptk.begin_session")])
    kw = {k.arg: src(k.value) for k in starts[0].keywords} if starts else {}
    ok = kw.get("start") == "step" and kw.get("until") == "step" and kw.get("equations") == "equations"
    res.check("STEP", "a step simulates exactly [step, step] for the session's equations", ok, rss.loc(starts[0]) if starts else rss.loc(), rss.qual,
              src(starts[0])[:110] if starts else "", "the step simulates [%s, %s]" % (kw.get("start"), kw.get("until")), key="STEP/run_scenario_step/range")
    # every creation of a live simulation happens only where none is live yet: nested under `<scenario>.sd_simulation is None`
    # (the if's body, or the else of `is not None`)
    from ..util import under_condition
    creates = [n for n in walk_no_nested(rss.node) if isinstance(n, ast.Assign) and (dotted(n.targets[0]) or "").endswith(".sd_simulation")]

    def none_live(owner):
        def pred(a_, t_):
            return t_ and isinstance(a_, ast.Compare) and len(a_.ops) == 1 and isinstance(a_.ops[0], ast.Is) and dotted(a_.left) == owner + ".sd_simulation" \
                and isinstance(a_.comparators[0], ast.Constant) and a_.comparators[0].value is None
        return pred
    ok = bool(creates) and all(under_condition(rss.node, c, none_live((dotted(c.targets[0]) or "").rsplit(".", 1)[0])) for c in creates)
    res.check("STEP", "the live simulation is kept between steps", ok, rss.loc(), rss.qual, "if sc.sd_simulation is None: ...",
              "a new SdSimulation is built on every step: the memoised history and the settings applied by earlier steps are lost",
              key="STEP/run_scenario_step/keep-simulation")
    ret = [n for n in walk_no_nested(rss.node) if isinstance(n, ast.Return)]
    # `return {}` where there is no scenario to step is what the comprehension over no scenarios gives as well

    stepped = {x.id for r_ in ret for c_ in ast.walk(r_) if isinstance(c_, ast.comprehension) for x in ast.walk(c_.iter) if isinstance(x, ast.Name)}

    def nothing_to_step(a_, t_):
        if isinstance(a_, ast.Compare) and len(a_.ops) == 1 and isinstance(a_.left, ast.Call) and call_name(a_.left) == "len" and a_.left.args \
                and isinstance(a_.left.args[0], ast.Name) and a_.left.args[0].id in stepped \
                and isinstance(a_.comparators[0], ast.Constant) and a_.comparators[0].value == 0:
            return (isinstance(a_.ops[0], ast.Eq) and t_) or (isinstance(a_.ops[0], (ast.Gt, ast.NotEq)) and not t_)
        return isinstance(a_, ast.Name) and a_.id in stepped and not t_
    ret = [r_ for r_ in ret if not (r_.value is not None and ((isinstance(r_.value, ast.Dict) and not r_.value.keys) or (isinstance(r_.value, ast.Call) and call_name(r_.value) == "dict" and not r_.value.args))
                                    and under_condition(rss.node, r_, nothing_to_step))]
    ok = len(ret) == 1 and "result.to_dict()" in src(ret[0].value)
    res.check("STEP", "the step result is the frame's dict", ok, rss.loc(), rss.qual, norm_stmt(ret[0])[:100] if ret else "", "the step result is not result.to_dict()",
              key="STEP/run_scenario_step/result")
    # session_results re-indexing reads what run_step logged, under the same step key
    sr = idx.func(BPTK, "bptk.session_results")
    from ..util import deref
    full = []
    ok = True
    for lp in [n for n in ast.walk(sr.node) if isinstance(n, ast.For)]:
        it = deref(sr.node, lp.iter)             # logged = ...["results_log"].items(); for step, step_result in logged
        if not (isinstance(it, ast.Call) and call_name(it) == "items" and isinstance(lp.target, ast.Tuple) and len(lp.target.elts) == 2
                and all(isinstance(x, ast.Name) for x in lp.target.elts)):
            continue
        base = deref(sr.node, it.func.value)
        if not (isinstance(base, ast.Subscript) and const_str(base.slice) == "results_log"):
            continue
        kvar, vvar = lp.target.elts[0].id, lp.target.elts[1].id
        inner = set()
        for n in ast.walk(lp):
            if isinstance(n, ast.Subscript) and isinstance(n.value, ast.Subscript):
                inner.add(id(n.value))
        for n in ast.walk(lp):
            if isinstance(n, ast.Subscript) and id(n) not in inner and src(n).startswith(vvar + "[") and src(n).count("[") == 4:
                full.append(n)
                ok = ok and src(n) == "%s[manager.name][scenario][equation][%s]" % (vvar, kvar)
    ok = ok and bool(full)
    res.check("STEP", "session_results re-indexes by (manager, scenario, equation, step)", ok, sr.loc(), sr.qual,
              src(full[0]) if full else "", "session_results reads %s" % sorted({src(n) for n in full}), key="STEP/session_results/reindex")
    lp = [n for n in ast.walk(sr.node) if isinstance(n, ast.For) and "results_log" in src(deref(sr.node, n.iter))]
    ok = len(lp) == 1 and src(lp[0].target) in ("(step, step_result)", "step, step_result")
    res.check("STEP", "session_results iterates the results log", ok, sr.loc(), sr.qual, src(lp[0].iter) if lp else "", "session_results does not iterate results_log.items()",
              key="STEP/session_results/loop")

    # ---- (4) one series expression ------------------------------------------------------------------------------------------------
    gen = idx.try_func(RUNNER, "SdRunner.__generate_df")
    if gen is None:
        raise AnalysisError("anchor vanished: SdRunner.__generate_df")
    from ..util import expand_aliases
    gexp = expand_aliases(gen.node)                 # row aliases and named intermediates (df, series) written out
    vals = []

    def alts(v):
        """the values a store can carry: both sides of a conditional expression"""
        if isinstance(v, ast.IfExp):
            return alts(v.body) + alts(v.orelse)
        return [v]
    for n in walk_no_nested(gexp):
        if isinstance(n, ast.Assign):
            t = n.targets[0]
            if isinstance(t, ast.Subscript) and src(t).replace("'", '"').endswith('["equations"][equation]'):
                vals += [(n, v_, "dict/json") for v_ in alts(n.value)]
            if isinstance(t, ast.Subscript) and src(t.value) == "plot_df":
                vals += [(n, v_, "df") for v_ in alts(n.value)]
    if len(vals) < 3:
        raise AnalysisError("__generate_df: expected three result stores (df/dict/json), found %d" % len(vals))
    SERIES = "scenarios[scenario].result[equation]"
    # by role: <an element of the scenarios handed in>.result[<the equation the loop is at>]
    gparams = params(gen.node)
    scen_p, eq_p = (gparams[3], gparams[4]) if len(gparams) >= 5 else ("scenarios", "equations")
    key_vars, elem_vars, eq_vars = set(), set(), set()
    for lp_ in [x for x in ast.walk(gexp) if isinstance(x, (ast.For, ast.comprehension))]:
        it_ = lp_.iter
        meth = call_name(it_) if isinstance(it_, ast.Call) and isinstance(it_.func, ast.Attribute) else None
        root = it_.func.value if meth in ("keys", "values", "items") else it_
        if isinstance(root, ast.Name) and root.id == scen_p:
            if meth == "values" and isinstance(lp_.target, ast.Name):
                elem_vars.add(lp_.target.id)
            elif meth == "items" and isinstance(lp_.target, ast.Tuple) and len(lp_.target.elts) == 2:
                key_vars.add(src(lp_.target.elts[0]))
                elem_vars.add(src(lp_.target.elts[1]))
            elif isinstance(lp_.target, ast.Name):
                key_vars.add(lp_.target.id)
        if isinstance(root, ast.Name) and root.id == eq_p and isinstance(lp_.target, ast.Name):
            eq_vars.add(lp_.target.id)

    def is_series(e) -> bool:
        if not (isinstance(e, ast.Subscript) and isinstance(e.slice, ast.Name) and e.slice.id in eq_vars):
            return False
        o = e.value
        if not (isinstance(o, ast.Attribute) and o.attr == "result"):
            return False
        o = o.value
        return (isinstance(o, ast.Name) and o.id in elem_vars) or (
            isinstance(o, ast.Subscript) and isinstance(o.value, ast.Name) and o.value.id == scen_p and src(o.slice) in key_vars)
    for n, v, fmt in vals:
        base = v
        if isinstance(base, ast.Call) and call_name(base) == "to_dict" and not base.args:
            base = base.func.value
        ok = is_series(base)
        res.check("SERIES", "%s result comes from the scenario frame's column" % fmt, ok, gen.loc(n), gen.qual, src(v)[:80],
                  "the %s result is filled from %s instead of the scenario frame's column %s: the formats disagree" % (fmt, src(v)[:60], SERIES),
                  key="SERIES/__generate_df/%s/%s" % (fmt, src(v)[:40]))
    # SdSimulation.start: the frame is built from the results table as is
    stf = idx.func(SDSIM, "SdSimulation.start")
    fr = [n for n in walk_no_nested(stf.node) if isinstance(n, ast.Assign) and dotted(n.targets[0]) == "self.result_frame" and isinstance(n.value, ast.Call)]
    ok = len(fr) == 1 and src(fr[0].value) == "pd.DataFrame(self.results)"
    res.check("SERIES", "the frame is DataFrame(self.results)", ok, stf.loc(), stf.qual, norm_stmt(fr[0]) if fr else "", "the result frame is %s" % (src(fr[0].value) if fr else "?"),
              key="SERIES/SdSimulation.start/frame")

    # ---- (5) REST pass-through ----------------------------------------------------------------------------------------------------------
    API = {"run_scenarios", "run_step", "session_results"}
    SERIALISERS = {"dumps", "make_response", "append", "jsonify"}
    nh = 0
    for hname in ("_run_resource", "_run_step_resource", "_run_steps_resource", "_session_results_resource"):
        fi = idx.func(SERVER, "BptkServer.%s" % hname)
        nh += _passthrough(res, fi, API, SERIALISERS)
    # the generator the streaming handler hands to Response: by role (the nested generator function), whatever it is called
    sh = idx.func(SERVER, "BptkServer._stream_steps_resource")
    gens = [f for q, f in idx.modules[SERVER].functions.items() if q.startswith(sh.qual + ".") and
            any(isinstance(y, (ast.Yield, ast.YieldFrom)) for y in walk_no_nested(f.node))]
    if len(gens) != 1:
        raise AnalysisError("anchor: the streaming handler %s has %d nested generators (expected the one it streams from)" % (sh.qual, len(gens)))
    st_ = gens[0]
    nh += _passthrough(res, st_, API, SERIALISERS | {"progress"})
    res.floor("REST handlers checked for pass-through", nh, 5)
    rr = idx.func(SERVER, "BptkServer._run_resource")
    rc = [c for c in iter_calls(rr.node) if call_name(c) == "run_scenarios"]
    kw = {k.arg: src(k.value) for k in rc[0].keywords} if rc else {}
    ok = len(rc) == 1 and all(kw.get(k) == k for k in ("scenario_managers", "scenarios", "equations"))
    res.check("PASSTHROUGH", "POST /run hands managers/scenarios/equations to run_scenarios unchanged", ok, rr.loc(), rr.qual, src(rc[0])[:100] if rc else "",
              "POST /run calls run_scenarios with %s" % kw, key="PASSTHROUGH/_run_resource/args")
    fl = idx.func(SERVER, "BptkServer._flat_session_results_resource")
    ok = any(call_name(c) == "_session_results_resource" and [src(a) for a in c.args] == ["instance_uuid", "True"] for c in iter_calls(fl.node))
    if not ok:
        # ... or the two endpoints share a body (seen written out here): it asks the session for its flat results and serves them untouched
        own = [c for c in iter_calls(fl.node) if call_name(c) == "session_results"]
        if own and all(any(k.arg == "flat" and isinstance(k.value, ast.Constant) and k.value.value is True for k in c.keywords) for c in own):
            _passthrough(res, fl, API, SERIALISERS)
            ok = True
    res.check("PASSTHROUGH", "flat session results delegate to session results", ok, fl.loc(), fl.qual, "self._session_results_resource(instance_uuid, True)",
              "the flat results endpoint does not delegate", key="PASSTHROUGH/_flat_session_results_resource")

    # ---- (6) session_state keys -----------------------------------------------------------------------------------------------------------
    written = {const_str(k) for k in dicts[0].keys if k is not None}
    for k, v in zip(dicts[0].keys, dicts[0].values):
        if k is None:      # ** unpack: keys of a module-level dict literal (possibly through deepcopy()/dict()/.copy())
            base = v
            while isinstance(base, ast.Call) and base.args:
                base = base.args[0]
            if isinstance(base, ast.Call) and isinstance(base.func, ast.Attribute):
                base = base.func.value
            if isinstance(base, ast.Name):
                for st in idx.modules[BPTK].tree.body:
                    if isinstance(st, ast.Assign) and isinstance(st.targets[0], ast.Name) and st.targets[0].id == base.id and isinstance(st.value, ast.Dict):
                        written |= {const_str(x) for x in st.value.keys if x is not None}
    # keys added later by stores
    for fi in idx.all_funcs("BPTK_Py/"):
        for n in walk_no_nested(fi.node):
            if isinstance(n, ast.Assign) and isinstance(n.targets[0], ast.Subscript) and "session_state" in src(n.targets[0].value) \
                    and const_str(n.targets[0].slice) and not isinstance(n.targets[0].value, ast.Subscript):
                written.add(const_str(n.targets[0].slice))
    nreads = 0
    for rel in (BPTK, SERVER):
        for fi in idx.modules[rel].functions.values():
            for n in walk_no_nested(fi.node):
                if isinstance(n, ast.Subscript) and isinstance(n.ctx, ast.Load) and const_str(n.slice) and \
                        (src(n.value).endswith("session_state") or src(n.value) == "state"):
                    nreads += 1
                    k = const_str(n.slice)
                    res.check("KEYS", "%s reads session_state[%r]" % (fi.qual, k), k in written, fi.loc(n), fi.qual, src(n),
                              "%s reads the session key %r, which begin_session never writes" % (fi.qual, k), key="KEYS/%s/%s" % (fi.qual, k))
    res.floor("session_state key reads", nreads, 25)


def _passthrough(res: Result, fi: FuncInfo, api: Set[str], serialisers: Set[str]) -> int:
    """Variables assigned from the bptk API are only appended, serialised, tested for None or returned."""
    def from_api(v) -> bool:
        if isinstance(v, ast.IfExp):                       # r = api(a, b) if c else api()
            return from_api(v.body) and from_api(v.orelse)
        return isinstance(v, ast.Call) and call_name(v) in api
    assigns = [n for n in walk_no_nested(fi.node) if isinstance(n, ast.Assign) and isinstance(n.targets[0], ast.Name) and from_api(n.value)]
    apps = [c for c in iter_calls(fi.node) if call_name(c) == "append" and c.args and isinstance(c.args[0], ast.Call) and call_name(c.args[0]) in api]
    names = {n.targets[0].id for n in assigns} | {c.func.value.id for c in apps if isinstance(c.func.value, ast.Name)}
    if not names:
        raise AnalysisError("%s: no result variable assigned from %s" % (fi.qual, sorted(api)))
    bad = []
    par: Dict[int, ast.AST] = {}
    for n in ast.walk(fi.node):
        for c in ast.iter_child_nodes(n):
            par[id(c)] = n
    for n in walk_no_nested(fi.node):
        if isinstance(n, ast.Name) and n.id in names and isinstance(n.ctx, ast.Load):
            p = par.get(id(n))
            if isinstance(p, ast.Call) and (call_name(p) in serialisers):
                continue
            if isinstance(p, ast.Call) and call_name(p) in ("len", "isinstance", "type") and isinstance(p.func, ast.Name):
                continue                                   # looked at (a log line, an assertion), not changed
            if isinstance(p, ast.Attribute) and p.attr == "append":
                continue
            if isinstance(p, ast.Compare) and all(isinstance(c, ast.Constant) and c.value is None for c in p.comparators):
                continue
            if isinstance(p, (ast.Return, ast.Expr, ast.Yield)):
                continue
            bad.append(p)
        if isinstance(n, (ast.Assign, ast.AugAssign)):
            t = n.targets[0] if isinstance(n, ast.Assign) else n.target
            base = t
            while isinstance(base, (ast.Subscript, ast.Attribute)):
                base = base.value
            if isinstance(base, ast.Name) and base.id in names and isinstance(t, (ast.Subscript, ast.Attribute)):
                bad.append(n)
    res.check("PASSTHROUGH", "%s serves the API result untouched" % fi.qual, not bad, fi.loc(bad[0]) if bad else fi.loc(), fi.qual,
              norm_stmt(bad[0])[:100] if bad else ", ".join(sorted(names)),
              "%s transforms the value it got from the bptk API (%s) before serving it: the REST channel no longer reports what "
              "run_step/run_scenarios/session_results report" % (fi.qual, norm_stmt(bad[0])[:80] if bad else ""),
              key="PASSTHROUGH/%s/transforms-result" % fi.qual)
    return 1
