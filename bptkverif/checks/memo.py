"""C08: memoised results are never stale or ambiguous - invalidate-on-edit
(must-call on the CFG of every definition-changing member) and a lockset rule
for the per-equation worker threads."""
from __future__ import annotations

import ast
from typing import Dict, List, Optional, Set, Tuple

from ..cfg import Flow, Node, build_cfg
from ..core import (seq, AnalysisError, FuncInfo, Index, Result, call_name, call_recv, dotted, iter_calls, norm_stmt, src,
                    walk_no_nested)
from ..util import params, single_assignments

MODEL = "BPTK_Py/modeling/model.py"
SCEN = "BPTK_Py/scenariomanager/scenario.py"
SDSIM = "BPTK_Py/sdsimulation/sd_simulation.py"
BPTK = "BPTK_Py/bptk.py"

# members that (re)compile an element's function without having to invalidate (one reason each)
EXEMPT = {
    "Element.__init__": "a new element: nothing depends on it yet and its own memo entry is created empty",
    "Element.generate_function": "the recompilation primitive itself; its callers are the obligations",
}


def _calls_in(node: ast.AST, name: str, recv_suffix: Optional[str] = None) -> List[ast.Call]:
    out = []
    for c in iter_calls(node):
        if call_name(c) == name and isinstance(c.func, ast.Attribute):
            if recv_suffix is None or (dotted(c.func.value) or "").endswith(recv_suffix):
                out.append(c)
    return out


def _own_stmt_calls(fn: ast.AST, name: str, recv_suffix: Optional[str] = None) -> List[ast.Call]:
    out = []
    for st in fn.body:
        if isinstance(st, (ast.FunctionDef, ast.ClassDef)):
            continue
        out += _calls_in(st, name, recv_suffix)
    return out


def invalidate_on_edit(idx: Index, res: Result, rule: str = "MUSTCALL") -> int:
    """Shared by C08 and C01: every member of the DSL that recompiles an element's function reaches model.reset_cache() on every
    path to its exit (product-graph dataflow) - otherwise values memoised from the old definition are reported for the new model."""
    nmembers = 0
    for fi in idx.all_funcs("BPTK_Py/sddsl/"):
        if not fi.cls or fi.node.name in ("generate_function",):
            continue
        gen = _own_stmt_calls(fi.node, "generate_function", "self")
        if not gen:
            continue
        label = "%s.%s" % (fi.cls, fi.node.name) + (".setter" if fi.qual.endswith(".setter") else "")
        if ("%s.%s" % (fi.cls, fi.node.name)) in EXEMPT and not fi.qual.endswith(".setter"):
            res.ob(rule, "%s recompiles (exempt: %s)" % (label, EXEMPT["%s.%s" % (fi.cls, fi.node.name)]), True, nontrivial=False)
            continue
        nmembers += 1
        cfg = build_cfg(fi.node, fi.qual)

        def tr(node: Node, fact, label_):
            recompiled, reset = fact
            if node.ast is not None and node.kind in ("stmt", "test", "iter") and label_ not in ("exc",):
                probe = node.ast.iter if node.kind == "iter" else node.ast
                if _calls_in(probe, "generate_function", "self"):
                    recompiled = True
                if _calls_in(probe, "reset_cache", "model"):
                    reset = True
            return [(recompiled, reset)]
        flow = Flow(cfg, [(False, False)], tr)
        bad = [f for f in flow.at[cfg.exit] if f[0] and not f[1]]
        res.check(rule, "%s resets the model cache whenever it recompiles" % label, not bad, fi.loc(), fi.qual,
                  "self.generate_function() without self.model.reset_cache()",
                  "%s changes the element's definition (recompiles its function) on a path that never calls "
                  "model.reset_cache(): values of dependent elements memoised earlier stay stale; path: %s"
                  % (label, " ".join(flow.witness(cfg.exit, bad[0], 16)) if bad else ""),
                  key="%s/%s/reset_cache" % (rule, label))
        # DROP (round 10): a definition setter may leave early without storing / recompiling only when the new definition provably
        # *is* the old one.  `new == self.<stored>` proves nothing: for an Element/Operator operand the comparison is overloaded and
        # builds an (always truthy) operator object, so the edit "constant -> number" would be dropped and every memoised value kept.
        # Accepted: identity tests, or == under a guard that pins the stored value to a plain number (isinstance / type(...) is).
        if fi.qual.endswith(".setter"):
            from ..util import path_atoms
            for ret in [n for n in ast.walk(fi.node) if isinstance(n, ast.Return)]:
                atoms = path_atoms(fi.node, ret)
                pinned = set()
                for a, truth in atoms:
                    if truth and isinstance(a, ast.Call) and isinstance(a.func, ast.Name) and a.func.id == "isinstance" and len(a.args) == 2:
                        kinds = ast.unparse(a.args[1])
                        if not any(k in kinds for k in ("Element", "Constant", "Converter", "Operator", "Stock", "Flow", "object")):
                            pinned.add(ast.unparse(a.args[0]))
                    if truth and isinstance(a, ast.Compare) and len(a.ops) == 1 and isinstance(a.ops[0], ast.Is) and isinstance(a.left, ast.Call) \
                            and isinstance(a.left.func, ast.Name) and a.left.func.id == "type" and a.left.args:
                        pinned.add(ast.unparse(a.left.args[0]))
                for a, truth in atoms:
                    if isinstance(a, ast.Compare) and len(a.ops) == 1 and ((truth and isinstance(a.ops[0], ast.Eq)) or (not truth and isinstance(a.ops[0], ast.NotEq))):
                        sides = [a.left, a.comparators[0]]
                        stored = [x for x in sides if isinstance(x, ast.Attribute) and isinstance(x.value, ast.Name) and x.value.id == "self"]
                        bad_sides = [ast.unparse(x) for x in stored if ast.unparse(x) not in pinned]
                        res.check("DROP", "%s: early return under %s keeps the old definition only when it is the new one" % (label, ast.unparse(a)),
                                  not bad_sides, fi.loc(ret), fi.qual, "return guarded by == on a stored definition",
                                  "%s returns before storing / recompiling when `%s` is truthy; %s may hold an Element (Constant, Converter) whose "
                                  "== is overloaded and always truthy, so an edit from an element to a number is silently dropped and memoised "
                                  "values of the old definition keep being reported" % (label, ast.unparse(a), ", ".join(bad_sides)),
                                  key="DROP/%s/%s" % (label, "eq-on-stored"))
    return nmembers


def run_resource_reset_rule(idx: Index, res: Result, rule: str = "MUSTCALL") -> None:
    """Shared by C08 and C09: POST /run resets a scenario's cache before it applies any setting to it."""
    # channels that re-parameterise an already-run scenario reset first
    srv = idx.func("BPTK_Py/server/bptkServer.py", "BptkServer._run_resource")
    cfg = build_cfg(srv.node, srv.qual)

    def tr2(node: Node, fact, label_):
        if node.ast is not None and node.kind in ("stmt", "test", "iter"):
            probe = node.ast.iter if node.kind == "iter" else node.ast
            if any(call_name(c) == "reset_scenario_cache" for c in iter_calls(probe)):
                fact = True
        if node.kind == "iter" and label_ == "loop" and isinstance(node.ast, ast.For) and "scenario_manager_data" in src(node.ast.iter):
            fact = False       # a new scenario: its own reset is required
        return [fact]
    flow = Flow(cfg, [False], tr2)
    nset = 0
    for nd in cfg.stmt_nodes():
        if nd.kind == "stmt" and isinstance(nd.ast, ast.Assign):
            t = nd.ast.targets[0]
            if (isinstance(t, ast.Subscript) and (dotted(t.value) or "") in ("scenario.constants", "scenario.points")) or \
                    (dotted(t) or "") in ("scenario.starttime", "scenario.stoptime", "scenario.dt"):
                nset += 1
                ok = flow.at[nd.id] <= {True}
                res.check(rule, "POST /run resets the scenario cache before %s" % norm_stmt(nd.ast)[:50], ok, srv.loc(nd.ast), srv.qual,
                          norm_stmt(nd.ast), "a REST setting is applied to a scenario whose cache was not reset: the next run returns "
                          "values memoised with the old setting", key="%s/_run_resource/%s" % (rule, src(t)))
    res.floor("settings stores in _run_resource", nset, 5)


ELEMENT_REGISTRIES = ("stocks", "flows", "biflows", "constants", "converters")


def registry_sweeps_rule(idx: Index, res: Result, rule: str) -> int:
    """ALLKINDS: a sweep over "all elements of the model" written as a literal of the model's registries
    (`for elements in (self.stocks, self.flows, ...)`) names all five - stocks, flows, biflows, constants, converters.  A sweep that
    resets or invalidates something per element and leaves one kind out keeps that kind's old values (a second cache in front of
    the memo that is not dropped for biflows).  Returns the number of such literals."""
    n = 0
    for pre in ("BPTK_Py/modeling/", "BPTK_Py/sddsl/", "BPTK_Py/scenariomanager/", "BPTK_Py/sdsimulation/", "BPTK_Py/scenariorunners/"):
        for fi in idx.all_funcs(pre):
            for lit in [x for x in walk_no_nested(fi.node) if isinstance(x, (ast.Tuple, ast.List)) and isinstance(getattr(x, "ctx", None), ast.Load)]:
                regs = [e.attr for e in lit.elts if isinstance(e, ast.Attribute) and e.attr in ELEMENT_REGISTRIES]
                if len(regs) < 3 or len(regs) != len(lit.elts):
                    continue
                n += 1
                missing = [r for r in ELEMENT_REGISTRIES if r not in regs]
                res.check(rule, "%s: sweep over the element registries names all five kinds" % fi.qual, not missing, fi.loc(lit), fi.qual, src(lit)[:100],
                          "%s walks %s as 'all elements' - %s %s missing: what the sweep resets per element keeps its old value for that kind"
                          % (fi.qual, src(lit)[:80], ", ".join(missing), "is" if len(missing) == 1 else "are"),
                          key="%s/%s/registries-without-%s" % (rule, fi.qual, "-".join(missing)))
    return n


def second_cache_rule(idx: Index, res: Result, rule: str) -> int:
    """FRONT: what Element.__call__ answers is what Model.evaluate_equation answers *now*.  A table the element keeps in front of that
    (values by raw time) is a second memo: it is accepted only when every method of Model / SimulationScenario that empties the memo
    (reset_cache) also reaches a reset of that table for every element kind (ALLKINDS) - otherwise element(t) reports a value the
    model no longer has.  Returns the number of such tables."""
    el = idx.cls("BPTK_Py/sddsl/element.py", "Element")
    calls = el.methods.get("__call__")
    if not calls:
        raise AnalysisError("anchor vanished: Element.__call__")
    fi = calls[-1]
    tables = set()
    for r in [x for x in ast.walk(fi.node) if isinstance(x, ast.Return) and x.value is not None]:
        for sub in [x for x in ast.walk(r.value) if isinstance(x, ast.Subscript) and isinstance(x.value, ast.Attribute) and dotted(x.value.value) == "self"]:
            tables.add(sub.value.attr)
    for a in [x for x in ast.walk(fi.node) if isinstance(x, ast.Assign)]:
        for t in a.targets:
            if isinstance(t, ast.Subscript) and isinstance(t.value, ast.Attribute) and dotted(t.value.value) == "self":
                tables.add(t.value.attr)
    for tb in sorted(tables):
        resets = []
        for rel, qual in ((MODEL, "Model.reset_cache"), (SCEN, "SimulationScenario.reset_cache")):
            f2 = idx.func(rel, qual)
            # through the helpers the reset calls (looked through by the view) the table must be re-initialised for every element
            hit = [a for a in ast.walk(f2.node) if isinstance(a, ast.Assign) and any(isinstance(t, ast.Attribute) and t.attr == tb for t in a.targets)]
            # ... or hands the job to a method of Model that does (called directly, or looked up by name with getattr)
            droppers = {d.name for d in idx.cls(MODEL, "Model").node.body if isinstance(d, ast.FunctionDef)
                        and any(isinstance(a, ast.Assign) and any(isinstance(t, ast.Attribute) and t.attr == tb for t in a.targets) for a in ast.walk(d))}
            hit += [x for x in ast.walk(f2.node) if (isinstance(x, ast.Attribute) and x.attr in droppers) or (isinstance(x, ast.Constant) and x.value in droppers)]
            resets.append((f2, hit))
        lacking = [f2.qual for f2, hit in resets if not hit]
        res.check(rule, "the table Element.%s kept in front of the memo is dropped wherever the memo is" % tb, not lacking, fi.loc(), fi.qual, "self.%s[...]" % tb,
                  "Element.__call__ answers from self.%s, a second cache in front of the model's memo, which %s does not drop: element(t) keeps "
                  "reporting values the model no longer has" % (tb, ", ".join(lacking)), key="%s/Element.__call__/%s-not-dropped" % (rule, tb))
    return len(tables)


def clear_rules(idx: Index, res: Result) -> None:
    """CLEAR: both reset_cache bodies empty the memo of every equation, unconditionally; the scenario's reset drops the live simulation;
    bptk.reset_scenario_cache reaches it.  Shared by C08 and C07 (settings only take effect on values computed after them)."""
    # ---- both resets clear every entry ----------------------------------------------------------------
    for rel, qual, memo_attr in ((MODEL, "Model.reset_cache", "self.memo"), (SCEN, "SimulationScenario.reset_cache", "self.model.memo")):
        fi = idx.func(rel, qual)
        loops = [n for n in walk_no_nested(fi.node) if isinstance(n, ast.For)]
        ok = False
        for lp in loops:
            it = lp.iter
            while isinstance(it, ast.Call) and call_name(it) in ("list", "tuple", "keys") :
                it = it.func.value if call_name(it) == "keys" else it.args[0]
            if dotted(it) != memo_attr or not isinstance(lp.target, ast.Name):
                continue
            for st in lp.body:
                if isinstance(st, ast.Assign) and isinstance(st.targets[0], ast.Subscript) and dotted(st.targets[0].value) == memo_attr \
                        and src(st.targets[0].slice) == lp.target.id and isinstance(st.value, ast.Dict) and not st.value.keys:
                    # not guarded by a condition inside the loop
                    ok = True
            if any(isinstance(x, ast.If) for x in lp.body):
                ok = False
        # memo.update({k: {} for k in memo}) - through named intermediates
        from ..util import deref
        for c in iter_calls(fi.node):
            if call_name(c) == "update" and len(c.args) == 1 and isinstance(c.func, ast.Attribute) and dotted(deref(fi.node, c.func.value)) == memo_attr:
                d = deref(fi.node, c.args[0])
                if isinstance(d, ast.DictComp) and isinstance(d.value, ast.Dict) and not d.value.keys and len(d.generators) == 1 \
                        and not d.generators[0].ifs and src(d.key) == src(d.generators[0].target):
                    it = d.generators[0].iter
                    while isinstance(it, ast.Call) and call_name(it) in ("list", "tuple", "keys"):
                        it = it.func.value if call_name(it) == "keys" else it.args[0]
                    if dotted(deref(fi.node, it)) == memo_attr:
                        ok = True
        # emptying the rows *in place* (row.clear()) keeps the row objects: an evaluation that is under way holds such a row (memoize's
        # local alias) and stores its pre-reset result into the live memo after the reset
        inplace = [c for c in iter_calls(fi.node) if call_name(c) == "clear" and isinstance(c.func.value, ast.Name) and any(
            isinstance(lp, ast.For) and memo_attr in src(lp.iter) and any(x is c for x in ast.walk(lp)) for lp in walk_no_nested(fi.node))]
        if inplace:
            res.find("CLEAR", "CLEAR/%s/rows-emptied-in-place" % qual, fi.loc(inplace[0]), fi.qual, src(inplace[0]),
                     "%s empties each equation's memo row in place (%s) instead of installing a new row: memoize() keeps a local reference to the "
                     "row between its miss and its store, so a value computed before the reset lands in the live memo after it" % (qual, src(inplace[0])))
            ok = True
        whole = [n for n in walk_no_nested(fi.node) if isinstance(n, ast.Assign) and dotted(n.targets[0]) == memo_attr]
        clear = [c for c in iter_calls(fi.node) if call_name(c) == "clear" and dotted(c.func.value) == memo_attr]
        if whole or clear:
            # replacing the table wholesale drops the per-equation keys memoize() creates lazily: accepted
            ok = True
        res.check("CLEAR", "%s clears every memo entry" % qual, ok, fi.loc(), fi.qual, "for k in memo: memo[k] = {}",
                  "%s does not empty the memo of *every* equation (a loop over the whole table assigning {})" % qual,
                  key="CLEAR/%s/all-entries" % qual)
        # ... on every call: no condition and no early return decides whether the memo is emptied.  ("nothing was evaluated yet" flags
        # are set on some evaluation paths only; memoize() is reachable directly)
        from ..util import nesting_atoms
        clearing = [n for n in walk_no_nested(fi.node) if (isinstance(n, ast.For) and memo_attr in src(n.iter)) or
                    (isinstance(n, ast.Assign) and dotted(n.targets[0]) == memo_attr) or
                    (isinstance(n, ast.Expr) and isinstance(n.value, ast.Call) and call_name(n.value) in ("clear", "update") and memo_attr in src(n.value.func))]
        for cst in clearing[:1]:
            # `if self.model is not None` (there is a memo at all) is the only condition accepted
            conds = [(a_, t_) for a_, t_ in nesting_atoms(fi.node, cst)
                     if not (isinstance(a_, ast.Compare) and isinstance(a_.ops[0], (ast.Is, ast.IsNot)) and "model" in src(a_.left))
                     and not (isinstance(a_, ast.Name) and a_.id == "model") and not (isinstance(a_, ast.Attribute) and a_.attr == "model")]
            early = [r for r in walk_no_nested(fi.node) if isinstance(r, ast.Return) and seq(r) < seq(cst)]
            # the emptying sits in a block whose exceptions are swallowed (with suppress(...): / try: ... except: pass) *after* other statements
            # of that block: when one of them raises, the rest of the block - the emptying - is skipped silently
            for blk in ast.walk(fi.node):
                swallow = (isinstance(blk, ast.With) and any(isinstance(i_.context_expr, ast.Call) and call_name(i_.context_expr) == "suppress" for i_ in blk.items)) or \
                    (isinstance(blk, ast.Try) and blk.handlers and not any(isinstance(x, ast.Raise) for h in blk.handlers for x in ast.walk(h)))
                if swallow:
                    pos = [i_ for i_, st_ in enumerate(blk.body) if any(x is cst for x in ast.walk(st_))]
                    if pos and pos[0] > 0:
                        first = blk.body[0]
                        conds.append((ast.Name(id="no_exception_in(%s)" % norm_stmt(first)[:40], ctx=ast.Load()), True))
            # a "nothing was memoised since the last reset" shortcut is sound when the flag it reads is raised by memoize() itself - the one
            # place every memoised value passes through
            gtests = [a_ for a_, _t in conds] + [g.test for g in walk_no_nested(fi.node) if isinstance(g, ast.If) and any(r is x for r in early for b in g.body for x in ast.walk(b))]
            gattrs = {x.attr for t_ in gtests for x in ast.walk(t_) if isinstance(x, ast.Attribute) and isinstance(x.value, ast.Name) and x.value.id == "self" and x.attr != "memo" and not x.attr.startswith("__")}
            gattrs |= {c_.value for t_ in gtests for c_ in ast.walk(t_) if isinstance(c_, ast.Constant) and isinstance(c_.value, str) and c_.value.startswith("_")}
            if (conds or early) and gattrs and qual == "Model.reset_cache":
                mz = idx.func(MODEL, "Model.memoize")
                raised = {dotted(t_).split(".", 1)[1] for n_ in walk_no_nested(mz.node) if isinstance(n_, ast.Assign) for t_ in n_.targets if (dotted(t_) or "").startswith("self.")}
                if gattrs <= raised:
                    conds, early = [], []
                    res.ob("CLEAR", "reset shortcut over %s is raised by memoize() itself" % sorted(gattrs), True)
            res.check("CLEAR", "%s empties the memo unconditionally" % qual, not conds and not early, fi.loc(early[0] if early else cst), fi.qual,
                      norm_stmt(early[0])[:60] if early else "; ".join(src(a_)[:40] for a_, _t in conds),
                      "%s empties the memo only when %s: values memoised on a path that does not set that condition survive the reset"
                      % (qual, ("it does not return early (`%s`)" % norm_stmt(early[0])[:50]) if early else " and ".join(src(a_)[:50] for a_, _t in conds)),
                      key="CLEAR/%s/conditional" % qual)
    # Model.reset_cache: nothing that can evaluate equations runs after the memo was emptied (the agents' reset hooks may read SD
    # elements; setters call reset_cache *before* installing the new function, so a hook that runs after the clearing re-memoises values of
    # the old definition)
    mrc = idx.func(MODEL, "Model.reset_cache")
    clears = [n for n in walk_no_nested(mrc.node) if (isinstance(n, ast.Assign) and isinstance(n.targets[0], ast.Subscript) and dotted(n.targets[0].value) == "self.memo")
              or (isinstance(n, ast.Assign) and dotted(n.targets[0]) == "self.memo")
              or (isinstance(n, ast.Expr) and isinstance(n.value, ast.Call) and call_name(n.value) in ("clear", "update") and "memo" in src(n.value.func))]
    hooks = [c for c in iter_calls(mrc.node) if call_name(c) in ("reset_cache", "reset") and (call_recv(c) or "") not in ("self",)]
    late = [c for c in hooks if clears and seq(c) > min(seq(x) for x in clears)]
    res.check("CLEAR", "Model.reset_cache empties the memo after the reset hooks ran", not late, mrc.loc(late[0]) if late else mrc.loc(), mrc.qual,
              src(late[0]) if late else "hooks ... memo = {}", "Model.reset_cache calls %s after the memo was emptied: a hook that evaluates an SD element "
              "fills the memo again before the edit that triggered the reset is installed, and dependents stay stale" % (src(late[0]) if late else ""),
              key="CLEAR/Model.reset_cache/hook-after-clear")
    sres = idx.func(SCEN, "SimulationScenario.reset_cache")
    drop = [n for n in walk_no_nested(sres.node) if isinstance(n, ast.Assign) and dotted(n.targets[0]) == "self.sd_simulation"
            and isinstance(n.value, ast.Constant) and n.value.value is None]
    res.check("CLEAR", "scenario reset drops the live simulation", len(drop) == 1, sres.loc(), sres.qual, norm_stmt(drop[0]) if drop else "",
              "SimulationScenario.reset_cache keeps the live SdSimulation: settings applied to it in a previous session survive the reset",
              key="CLEAR/SimulationScenario.reset_cache/sd_simulation")
    # bptk.reset_scenario_cache reaches the scenario's reset
    brc = idx.func(BPTK, "bptk.reset_scenario_cache")
    ok = bool(_own_stmt_calls(brc.node, "reset_cache"))
    res.check("CLEAR", "bptk.reset_scenario_cache delegates to the scenario's reset_cache", ok, brc.loc(), brc.qual, "reset_cache()",
              "bptk.reset_scenario_cache does not call reset_cache()", key="CLEAR/bptk.reset_scenario_cache")


def through_memo_rule(idx: Index, res: Result, rule: str = "LOOKUP") -> int:
    """Every evaluation of an equation goes through the memo: the raw function table (``<model>.equations[name](t)``) is called by
    Model.memoize only.  An evaluation that bypasses it computes a value of its own - for a stochastic equation a different sample
    than the one every dependant read from the memo - and leaves nothing for later readers."""
    n = 0
    for fi in idx.all_funcs("BPTK_Py/"):
        if fi.file.startswith("BPTK_Py/sdcompiler/"):
            continue
        for c in iter_calls(fi.node):
            f = c.func
            if isinstance(f, ast.Subscript) and isinstance(f.value, ast.Attribute) and f.value.attr == "equations":
                n += 1
                ok = fi.qual == "Model.memoize" or fi.qual.startswith("Model.memoize.")
                res.check(rule, "%s evaluates %s through the memo" % (fi.qual, src(f)[:40]), ok, fi.loc(c), fi.qual, src(c)[:90],
                          "%s calls the raw equation function %s instead of Model.equation()/memoize(): the value is computed outside the memo, "
                          "so it is not the value dependants saw and it is not remembered" % (fi.qual, src(c)[:60]), key="%s/%s/bypasses-memo" % (rule, fi.qual))
    return n


def check_c08(idx: Index, tier: str, res: Result) -> None:
    res.explanation = ("(1) invalidate-on-edit: every member of the SD-DSL element classes that recompiles an element's function "
                       "(calls generate_function) calls model.reset_cache() on every path, and both cache resets clear *every* memo "
                       "entry; the scenario reset also drops the live simulation; every settings channel that re-parameterises an "
                       "already-run scenario resets first. (2) lockset: a table that is probed and later written by code reachable "
                       "from a Thread target started in a loop over one shared object must be accessed under a lock.")
    res.rules = ["MUSTCALL: product-graph dataflow 'reset_cache called' to every exit that recompiled",
                 "CLEAR: shape of the two reset_cache bodies", "LOCKSET: check-then-act on shared tables under worker threads"]
    res.not_decided = ["actual interleavings (that is model checking)", "equality of results with a freshly built model (numeric)",
                       "user code that edits model.equations directly"]
    # one value per (element, time): the memo is probed, evaluated and filled under one normalised key
    from .timegrid import check_normalisation
    deferred = None
    try:
        check_normalisation(idx, res)
    except AnalysisError as e:          # the remaining rules of this property do not depend on it: run them, then fail closed
        deferred = e
    # ---- (1) invalidate on edit --------------------------------------------------------------------
    res.floor("definition-changing members of sddsl", invalidate_on_edit(idx, res), 5)
    # generate_function clears the element's own memo entry
    gf = idx.func("BPTK_Py/sddsl/element.py", "Element.generate_function")
    own = [n for n in walk_no_nested(gf.node) if isinstance(n, ast.Assign) and isinstance(n.targets[0], ast.Subscript)
           and (dotted(n.targets[0].value) or "").endswith("model.memo") and isinstance(n.value, ast.Dict) and not n.value.keys]
    res.check("CLEAR", "generate_function empties the element's own memo entry", len(own) == 1, gf.loc(), gf.qual,
              norm_stmt(own[0]) if own else "", "recompiling an element does not clear its own memo", key="CLEAR/Element.generate_function")

    clear_rules(idx, res)
    res.ob("ALLKINDS", "literal sweeps over the element registries: %d" % registry_sweeps_rule(idx, res, "ALLKINDS"), True, nontrivial=False)
    res.ob("FRONT", "tables Element.__call__ keeps in front of the memo: %d" % second_cache_rule(idx, res, "FRONT"), True, nontrivial=False)
    res.floor("raw equation-table calls examined", through_memo_rule(idx, res), 1)
    # what a generated function string refers to is looked up when the function runs, never copied in when the string is built
    from .sddsl_templates import _shape_stock
    _shape_stock(idx, res)
    run_resource_reset_rule(idx, res)
    bs = idx.func(BPTK, "bptk.begin_session")
    conf = [c for c in iter_calls(bs.node) if call_name(c) == "configure_settings"]
    rst = [c for c in iter_calls(bs.node) if call_name(c) == "reset_scenario_cache"]
    ok = bool(conf) and bool(rst) and all(seq(r) > seq(c) for c in conf for r in rst) and \
        _same_loop(bs.node, conf[0], rst[0])
    res.check("MUSTCALL", "begin_session resets every selected scenario after configuring it", ok, bs.loc(), bs.qual,
              "configure_settings ... reset_scenario_cache", "begin_session does not reset the cache of the scenarios it configures",
              key="MUSTCALL/begin_session/reset")
    bad = selected_scenarios_without(bs, "reset_scenario_cache")
    res.check("MUSTCALL", "begin_session resets the cache of *every* selected scenario", not bad, bs.loc(), bs.qual, "if scenario in scenarios: ...",
              "a selected scenario can enter the session without reset_scenario_cache(): its memo and live simulation from an earlier run "
              "or session survive, so steps replay stale values and step settings are ignored; path: %s" % (bad[0] if bad else ""),
              key="MUSTCALL/begin_session/reset-every-selected")

    # ---- (2) lockset -----------------------------------------------------------------------------------------
    nthreads = 0
    for fi in idx.all_funcs("BPTK_Py/"):
        # one Thread per iteration: a for/while loop or a comprehension
        for lp in [n for n in walk_no_nested(fi.node) if isinstance(n, (ast.For, ast.While, ast.ListComp, ast.GeneratorExp, ast.SetComp))]:
            if any(isinstance(o, (ast.For, ast.While, ast.ListComp, ast.GeneratorExp, ast.SetComp)) and o is not lp and any(x is lp for x in ast.walk(o))
                   for o in walk_no_nested(fi.node)):
                continue       # counted with the outermost loop
            for c in iter_calls(lp):
                if call_name(c) == "Thread":
                    tgt = [k.value for k in c.keywords if k.arg == "target"]
                    if not tgt:
                        continue
                    nthreads += 1
                    tname = dotted(tgt[0]) or src(tgt[0])
                    if not tname.startswith("self."):
                        res.note("thread target %s in %s: one thread per distinct object (%s), no shared receiver" % (tname, fi.qual, src(lp.iter) if isinstance(lp, ast.For) else src(lp)[:60]))
                        continue
                    cls = idx.find_class(fi.cls) if fi.cls else None
                    meth = tname.split(".")[-1]
                    target = None
                    if cls:
                        for cand in (meth, "_%s%s" % (cls.name, meth) if meth.startswith("__") else meth):
                            target = idx.resolve_method(cls, cand) or target
                        if target is None and meth.startswith("_" + cls.name):
                            target = idx.resolve_method(cls, meth[len(cls.name) + 1:])
                    if target is None:
                        raise AnalysisError("cannot resolve thread target %s in %s" % (tname, fi.qual))
                    _lockset(idx, res, fi, target)
    res.floor("Thread(target=...) sites started in a loop", nthreads, 2)
    if deferred is not None:
        raise deferred


def selected_scenarios_without(fi: FuncInfo, event: str) -> List[str]:
    """Iterations of the per-scenario loop in which the scenario is selected (`scenario in <...scenarios...>` holds on the path, be it
    a nested if or a `continue` guard) and that reach the next iteration / the end of the loop without calling *event*."""
    from ..util import implied
    loops = [lp for lp in ast.walk(fi.node) if isinstance(lp, ast.For) and isinstance(lp.target, (ast.Tuple, ast.Name))
             and "scenario" in {x.id for x in ast.walk(lp.target) if isinstance(x, ast.Name)}]

    def is_sel_atom(a):
        return isinstance(a, ast.Compare) and len(a.ops) == 1 and isinstance(a.ops[0], ast.In) and src(a.left) == "scenario" \
            and "scenarios" in src(a.comparators[0])
    loops = [lp for lp in loops if any(is_sel_atom(a) for t in ast.walk(lp) if isinstance(t, (ast.If, ast.IfExp)) for a, _ in implied(t.test, True) + implied(t.test, False))]
    if not loops:
        raise AnalysisError("%s: per-scenario selection 'scenario in scenarios' not found" % fi.qual)
    cfg = build_cfg(fi.node, fi.qual)
    out: List[str] = []
    for lp in loops:
        head = next(n for n in cfg.nodes if n.kind == "iter" and n.ast is lp)
        inner_ids = {id(x) for x in ast.walk(lp)}

        def tr(node: Node, fact, label, head=head):
            sel, called = fact
            if node is head:
                return [(None, False)] if label == "loop" else [("out", False)]
            if sel == "out":
                return [fact]
            if node.kind == "test" and label in ("true", "false"):
                for a, truth in implied(node.ast, label == "true"):
                    if is_sel_atom(a):
                        sel = truth
            if node.ast is not None and node.kind in ("stmt", "test", "iter") and label != "exc":
                probe = node.ast.iter if node.kind == "iter" else node.ast
                if any(call_name(c) == event for c in iter_calls(probe)):
                    called = True
            return [(sel, called)]
        flow = Flow(cfg, [("out", False)], tr)
        bad = [f for f in flow.at[head.id] if f[0] is True and not f[1]]
        for f in bad:
            out.append(" ".join(flow.witness(head.id, f, 12)))
    return out


def _same_loop(fn: ast.AST, a: ast.AST, b: ast.AST) -> bool:
    for lp in ast.walk(fn):
        if isinstance(lp, ast.For):
            inside = list(ast.walk(lp))
            if any(x is a for x in inside) and any(x is b for x in inside):
                return True
    return False


def _lockset(idx: Index, res: Result, starter: FuncInfo, target: FuncInfo) -> None:
    """Follow self.<attr>.<method> calls from the thread target (depth 3) and look for
    check-then-act on an attribute table without an enclosing `with <lock>`."""
    seen: Set[str] = set()
    work: List[Tuple[FuncInfo, int]] = [(target, 0)]
    RECV_TYPES = {"self.mod": ("BPTK_Py/modeling/model.py", "Model")}
    while work:
        fi, depth = work.pop()
        if fi.qual in seen:
            continue
        seen.add(fi.qual)
        _check_then_act(res, starter, target, fi)
        if depth >= 3:
            continue
        for c in iter_calls(fi.node):
            if not isinstance(c.func, ast.Attribute):
                continue
            recv = dotted(c.func.value) or ""
            cls = None
            if recv == "self" and fi.cls:
                cls = idx.find_class(fi.cls)
            elif recv in RECV_TYPES:
                cls = idx.cls(*RECV_TYPES[recv])
            if cls is not None:
                m = idx.resolve_method(cls, c.func.attr)
                if m is not None:
                    work.append((m, depth + 1))


def _check_then_act(res: Result, starter: FuncInfo, target: FuncInfo, fi: FuncInfo) -> None:
    assigns = single_assignments(fi.node)
    # plain attributes of the shared object written by a worker and read back by the same code: every worker writes the same slot,
    # so between one worker's write and its read another worker's value can be there
    for n in walk_no_nested(fi.node):
        tgs = n.targets if isinstance(n, ast.Assign) else ([n.target] if isinstance(n, ast.AugAssign) else [])
        for t in tgs:
            d = dotted(t) if isinstance(t, ast.Attribute) else None
            if not d or not d.startswith("self.") or d.count(".") != 1:
                continue
            locked = any(isinstance(w, ast.With) and any(x is n for x in ast.walk(w)) for w in ast.walk(fi.node))
            readback = [x for x in walk_no_nested(fi.node) if isinstance(x, ast.Attribute) and isinstance(x.ctx, ast.Load) and dotted(x) == d]
            # the snapshot idiom is safe without a lock: the attribute only ever holds an immutable tuple (keys and value published in one
            # store) and is only ever copied into a local before use - whatever thread wrote it, the tuple read is consistent in itself
            stores_ = [m_ for m_ in walk_no_nested(fi.node) if isinstance(m_, ast.Assign) and any(dotted(t_) == d for t_ in m_.targets)]
            parents_ = {id(c_): p_ for p_ in ast.walk(fi.node) for c_ in ast.iter_child_nodes(p_)}
            if isinstance(n, ast.Assign) and all(isinstance(m_.value, ast.Tuple) or (isinstance(m_.value, ast.Constant) and m_.value.value is None) for m_ in stores_) \
                    and all(isinstance(parents_.get(id(x)), ast.Assign) and parents_[id(x)].value is x and isinstance(parents_[id(x)].targets[0], ast.Name) for x in readback):
                res.ob("LOCKSET", "%s: %s is an immutable snapshot, copied before use" % (fi.qual, d), True)
                continue
            res.check("LOCKSET", "%s: worker-written attribute %s is not read back unlocked" % (fi.qual, d), locked or not readback, fi.loc(n), fi.qual,
                      norm_stmt(n)[:80],
                      "%s stores into %s and reads it back (%s) without a lock, while %s starts one thread per requested equation over this one "
                      "object: a second thread's store can land between the two, so the value read belongs to another thread's argument - "
                      "the wrong time step is looked up and memoised" % (fi.qual, d, "line %d" % readback[0].lineno if readback else "", starter.qual),
                      key="LOCKSET/%s/attr=%s/threads=%s" % (fi.qual, d.split(".")[-1], target.qual))
    # local aliases of attribute tables: mymemo = self.memo[equation]
    alias: Dict[str, str] = {}
    own_params = set(params(fi.node)[1:]) if fi is target else set()
    for name, vals in assigns.items():
        for v in vals:
            base = v
            first_key = None
            while isinstance(base, ast.Subscript):
                first_key = base.slice
                base = base.value
            d = dotted(base)
            if d and d.startswith("self.") and d.count(".") == 1:
                if isinstance(first_key, ast.Name) and first_key.id in own_params:
                    continue       # the thread's own row of the table (keyed by its own argument): not shared
                alias[name] = d

    def table_of(e: ast.AST) -> Optional[str]:
        base = e
        while isinstance(base, (ast.Subscript,)):
            base = base.value
        if isinstance(base, ast.Call) and call_name(base) == "keys":
            base = base.func.value
            while isinstance(base, ast.Subscript):
                base = base.value
        if isinstance(base, ast.Name) and base.id in alias:
            return alias[base.id]
        d = dotted(base)
        if d and d.startswith("self.") and d.count(".") == 1:
            return d
        return None
    probes: Dict[str, ast.AST] = {}
    for n in walk_no_nested(fi.node):
        if isinstance(n, ast.Compare) and len(n.ops) == 1 and isinstance(n.ops[0], (ast.In, ast.NotIn)):
            t = table_of(n.comparators[0])
            if t:
                probes.setdefault(t, n)
    for n in walk_no_nested(fi.node):
        if isinstance(n, ast.Assign) and isinstance(n.targets[0], ast.Subscript):
            t = table_of(n.targets[0].value) or table_of(n.targets[0])
            if t and t in probes and seq(n) > seq(probes[t]):
                # value computed between probe and store?
                computed = isinstance(n.value, ast.Name) or isinstance(n.value, ast.Call)
                locked = any(isinstance(w, ast.With) and any(x is n for x in ast.walk(w)) for w in ast.walk(fi.node))
                if not computed:
                    continue
                per_thread = _keyed_by_thread_arg(fi, target, n) or _own_row(fi, target, n.targets[0])
                if per_thread:
                    res.ob("LOCKSET", "%s: %s (key is the thread's own argument)" % (fi.qual, norm_stmt(n)[:50]), True, nontrivial=False)
                    continue
                res.check("LOCKSET", "%s probes and fills %s under a lock" % (fi.qual, t), locked, fi.loc(n), fi.qual,
                          "%s ... %s" % (src(probes[t])[:50], norm_stmt(n)[:50]),
                          "%s tests '%s' and later stores into the same table %s without a lock, while %s starts one thread per "
                          "requested equation over one shared object: two threads can both miss and both compute - for a "
                          "stochastic equation two different values exist for one (element, time)"
                          % (fi.qual, src(probes[t])[:60], t, starter.qual),
                          key="LOCKSET/%s/%s/threads=%s" % (fi.qual, t.split(".")[-1], target.qual))


def _keyed_by_thread_arg(fi: FuncInfo, target: FuncInfo, store: ast.Assign) -> bool:
    """results[equation] = {} inside the thread target itself, keyed by the thread's own parameter."""
    if fi is not target:
        return False
    ps = set(params(fi.node)[1:])
    sl = store.targets[0].slice
    return isinstance(sl, ast.Name) and sl.id in ps and isinstance(store.value, ast.Dict)


def _own_row(fi: FuncInfo, target: FuncInfo, tgt: ast.AST) -> bool:
    """T[own_param][...] = v inside the thread target: the row keyed by the thread's own argument belongs to that thread."""
    if fi is not target:
        return False
    ps = set(params(fi.node)[1:])
    first = None
    e = tgt
    while isinstance(e, ast.Subscript):
        first = e.slice
        e = e.value
    if isinstance(e, ast.Call) and isinstance(e.func, ast.Attribute) and e.func.attr == "setdefault" and e.args:
        first = e.args[0]
    return isinstance(first, ast.Name) and first.id in ps and isinstance(tgt, ast.Subscript) and isinstance(tgt.value, (ast.Subscript, ast.Call))
