"""C06 (scenario isolation: alias/ownership analysis) and C07 (settings reach the
integrator: key-table and attribute def-use agreement)."""
from __future__ import annotations

import ast
from typing import Dict, List, Optional, Set, Tuple

from ..core import (seq, AnalysisError, FuncInfo, Index, Result, call_name, call_recv, const_str, dotted, iter_calls,
                    norm_stmt, src, walk_no_nested)
from ..templates import Opq, parts_text
from ..util import closure_rule, params, single_assignments, stale_loop_reads

SM_SD = "BPTK_Py/scenariomanager/scenario_manager_sd.py"
SM_HY = "BPTK_Py/scenariomanager/scenario_manager_hybrid.py"
SM_FAC = "BPTK_Py/scenariomanager/scenario_manager_factory.py"
SCEN = "BPTK_Py/scenariomanager/scenario.py"
RUNNER = "BPTK_Py/scenariorunners/sd_runner.py"
SDSIM = "BPTK_Py/sdsimulation/sd_simulation.py"
MODEL = "BPTK_Py/modeling/model.py"
SERVER = "BPTK_Py/server/bptkServer.py"
BPTK = "BPTK_Py/bptk.py"

# result-relevant state of a scenario's model (A.5)
MODEL_STATE = {"equations", "memo", "points", "constants", "stocks", "flows", "biflows", "converters", "functions", "fn"}
# scenario operations (A.5): functions reachable from register / run / step / change-settings / reset-cache
SCENARIO_OPS = [
    (SDSIM, "SdSimulation.change_equation"), (SDSIM, "SdSimulation.change_points"), (SDSIM, "SdSimulation.change_runspecs"),
    (SDSIM, "SdSimulation.start"), (SCEN, "SimulationScenario.setup_constants"), (SCEN, "SimulationScenario.setup_points"),
    (SCEN, "SimulationScenario.configure_settings"), (SCEN, "SimulationScenario.reset_cache"),
    (SCEN, "SimulationScenario.__init__"), (RUNNER, "SdRunner._run_scenarios"), (RUNNER, "SdRunner.run_scenario_step"),
    (SERVER, "BptkServer._run_resource"), (MODEL, "Model.memoize"), (MODEL, "Model.reset_cache"),
    (MODEL, "Model.configure_properties"), (MODEL, "Model.__setattr__"),
]
FRESH_CALLS = {"deepcopy", "copy", "dict", "list", "Model"}
MUTATORS = {"update", "append", "pop", "clear", "extend", "setdefault", "popitem", "remove", "insert"}


def _inplace_mutators(idx: Index, field: str) -> List[Tuple[FuncInfo, ast.AST]]:
    """Scenario operations that write *into* <model>.<field> (subscript store, del, mutating method)."""
    out = []
    for rel, qual in SCENARIO_OPS:
        fi = idx.try_func(rel, qual)
        if fi is None:
            raise AnalysisError("anchor vanished: scenario operation %s" % qual)
        for n in walk_no_nested(fi.node):
            tgts = []
            if isinstance(n, ast.Assign):
                tgts = n.targets
            elif isinstance(n, ast.AugAssign):
                tgts = [n.target]
            elif isinstance(n, ast.Delete):
                tgts = n.targets
            for t in tgts:
                if isinstance(t, ast.Subscript) and isinstance(t.value, ast.Attribute) and t.value.attr == field:
                    base = dotted(t.value.value) or ""
                    if base.split(".")[-1] in ("mod", "model", "self") or base == "self":
                        out.append((fi, n))
            if isinstance(n, ast.Call) and isinstance(n.func, ast.Attribute) and n.func.attr in MUTATORS and \
                    isinstance(n.func.value, ast.Attribute) and n.func.value.attr == field:
                out.append((fi, n))
    return out


def _is_fresh(v: ast.AST) -> bool:
    if isinstance(v, (ast.Dict, ast.List, ast.Constant, ast.DictComp, ast.ListComp, ast.Tuple)):
        return True
    if isinstance(v, ast.Call) and call_name(v) in FRESH_CALLS:
        return True
    return False



def scenario_dict_alias_rule(idx: Index, res: Result, rule: str) -> None:
    """A scenario's own constants/points dictionaries never alias manager-level tables (shared by C06 and C07)."""
    # ---- SCENDICT: a scenario's own constants/points dicts never alias manager-level tables -----------------------
    # (configure_settings, the REST settings handler and set_property_value write into scenario.constants/points in place)
    nsd = 0
    for qual in ("ScenarioManagerSd.add_scenarios", "ScenarioManagerSd.load_scenarios"):
        fi = idx.func(SM_SD, qual)
        for n in walk_no_nested(fi.node):
            cand = []
            if isinstance(n, ast.Assign) and isinstance(n.targets[0], ast.Subscript) and const_str(n.targets[0].slice) in ("constants", "points"):
                cand.append((const_str(n.targets[0].slice), n.value, n))
            if isinstance(n, ast.Call) and call_name(n) == "setdefault" and len(n.args) == 2 and const_str(n.args[0]) in ("constants", "points"):
                cand.append((const_str(n.args[0]), n.args[1], n))
            if isinstance(n, ast.Call) and call_name(n) == "get" and len(n.args) == 2 and const_str(n.args[0]) in ("constants", "points") \
                    and isinstance(n.args[1], ast.Attribute):
                cand.append((const_str(n.args[0]), n.args[1], n))
            for kind, v, node in cand:
                nsd += 1
                shared = isinstance(v, (ast.Attribute, ast.Name)) and not _is_fresh(v)
                if isinstance(v, ast.Name):
                    shared = v.id not in ("value",) and not any(
                        isinstance(a, ast.Assign) and isinstance(a.targets[0], ast.Name) and a.targets[0].id == v.id and _is_fresh(a.value)
                        for a in walk_no_nested(fi.node))
                res.check(rule, "%s: scenario['%s'] starts from a fresh dict" % (qual, kind), not shared, fi.loc(node), fi.qual, src(node)[:100],
                          "%s makes a scenario's '%s' dictionary the manager-level object %s: SimulationScenario keeps it as its own "
                          "settings table and configure_settings / the REST settings / set_property_value write into it in place, so one "
                          "scenario's re-parameterisation changes the base settings and every other scenario that inherited them"
                          % (qual, kind, src(v)), key="%s/%s/scenario[%s]<-%s" % (rule, qual, kind, src(v)))
    res.floor("scenario settings-dict initialisations", nsd, 4)



def model_per_scenario_rule(idx: Index, res: Result, rule: str = "FRESH") -> None:
    """Shared by C06, C07 and C04: a file-based manager constructs one model object per scenario."""
    # file-based managers: every scenario is given a model object made for it inside the loop over the scenarios
    inst = idx.func(SM_SD, "ScenarioManagerSd.instantiate_model")
    nmod = 0
    for lp in [n for n in walk_no_nested(inst.node) if isinstance(n, ast.For)]:
        for st in ast.walk(lp):
            if isinstance(st, ast.Assign) and isinstance(st.targets[0], ast.Attribute) and st.targets[0].attr == "model" \
                    and isinstance(st.targets[0].value, ast.Name) and st.targets[0].value.id in {x.id for x in ast.walk(lp.target) if isinstance(x, ast.Name)}:
                nmod += 1
                v = st.value
                if isinstance(v, ast.Name):
                    defs = [a for a in ast.walk(lp) if isinstance(a, ast.Assign) and isinstance(a.targets[0], ast.Name) and a.targets[0].id == v.id]
                    v = defs[0].value if len(defs) == 1 else v
                ok = isinstance(v, ast.Call) and call_name(v) not in ("get", "setdefault", "pop")
                res.check(rule, "instantiate_model builds a model object per scenario", ok, inst.loc(st), inst.qual, norm_stmt(st)[:90],
                          "instantiate_model gives a scenario the model %s, which is not an object constructed for this scenario in this iteration: "
                          "scenarios that receive the same object share its memo and its equations, so one scenario's run specs and settings "
                          "show up in the other's results" % src(st.value)[:60], key=rule + "/instantiate_model/model-per-scenario")
    res.floor("model installations in instantiate_model", nmod, 1)



def clone_is_new_model_rule(idx: Index, res: Result, rule: str = "FRESH") -> None:
    """Shared by C06 and C16: get_cloned_model builds a new Model on every path - it never hands the registered object back."""
    clone = idx.func(SM_SD, "ScenarioManagerSd.get_cloned_model")
    # every table of MODEL_STATE is either built fresh by the Model constructor / element constructors or copied
    rets = [n for n in walk_no_nested(clone.node) if isinstance(n, ast.Return) and n.value is not None and not (isinstance(n.value, ast.Constant))]
    newm = [n for n in walk_no_nested(clone.node) if isinstance(n, ast.Assign) and isinstance(n.value, ast.Call) and call_name(n.value) == "Model"]
    res.check(rule, "the clone is a new Model object", len(newm) == 1 and all(src(r.value) == src(newm[0].targets[0]) for r in rets),
              clone.loc(), clone.qual, norm_stmt(newm[0])[:90] if newm else "", "get_cloned_model does not build and return a new Model",
              key=rule + "/get_cloned_model/new-model")


def check_c06(idx: Index, tier: str, res: Result) -> None:
    res.explanation = ("Alias/ownership analysis of scenario construction: nothing in the result-relevant state of a scenario's "
                       "model (Model.{equations, memo, points, constants, stocks, flows, biflows, converters, functions, fn}) may be "
                       "shared by reference with the source model or another scenario *and* be written in place by a scenario "
                       "operation; scenario settings are merged into the model's tables, never substituted for them; hybrid "
                       "managers build each scenario's model by deepcopy or by the constructor; every in-package construction of a "
                       "manager passes its mutable-default arguments explicitly.")
    res.rules = ["ALIAS: field-sensitive, flow-insensitive sharing x in-place mutators among the scenario operations",
                 "REBIND: whole-table stores to <model>.points/constants outside construction",
                 "FRESH: per-scenario model objects", "DEFAULTS: mutable default arguments stored and mutated",
                 "STALE: no local carried from one scenario's loop iteration into the next"]
    res.not_decided = ["equality of results with a freshly built model (numeric)",
                       "aliasing introduced by a caller passing one dict object for two scenarios",
                       "sharing of the arrayed-element tables (_elements): written only by the modelling API, not by a scenario operation"]
    clone = idx.func(SM_SD, "ScenarioManagerSd.get_cloned_model")
    mparam = params(clone.node)[1]
    nassign = 0
    for n in walk_no_nested(clone.node):
        if not isinstance(n, ast.Assign) or len(n.targets) != 1:
            continue
        t = n.targets[0]
        if not isinstance(t, ast.Attribute):
            continue
        v = n.value
        nassign += 1
        field = t.attr
        shared_src = None
        if isinstance(v, ast.Attribute) and not _is_fresh(v):
            shared_src = src(v)
        elif isinstance(v, ast.IfExp) or isinstance(v, ast.Name):
            shared_src = None
        if shared_src is None:
            res.ob("ALIAS", "clone: %s (fresh or immutable)" % norm_stmt(n)[:70], True, nontrivial=False)
            continue
        is_model_level = (dotted(t.value) or "").startswith("new_mod") or dotted(t.value) == "new_mod"
        if is_model_level and field in MODEL_STATE:
            muts = _inplace_mutators(idx, field)
            ok = not muts
            res.check("ALIAS", "clone: %s" % norm_stmt(n), ok, clone.loc(n), clone.qual, norm_stmt(n),
                      "the cloned model's '%s' table is the source model's own object (%s) and %s writes into it in place (%s): "
                      "a setting applied to one scenario changes every other scenario of the manager and the base model"
                      % (field, shared_src, muts[0][0].qual if muts else "", norm_stmt(muts[0][1])[:70] if muts else ""),
                      key="ALIAS/ScenarioManagerSd.get_cloned_model/%s<-%s/mutator=%s" % (field, shared_src, muts[0][0].qual if muts else ""))
        else:
            # element-level sharing (_elements, function strings): strings are immutable; _elements is written only by
            # Element.__setitem__/setup_* (modelling API)
            if field in ("function_string", "equation", "_function_string"):
                res.ob("ALIAS", "clone: %s (immutable string / definition object)" % norm_stmt(n)[:60], True, nontrivial=False)
            elif field == "_elements":
                writers = [f.qual for rel, q in SCENARIO_OPS for f in [idx.func(rel, q)]
                           if any(isinstance(x, ast.Attribute) and x.attr == "_elements" and isinstance(x.ctx, ast.Store) for x in ast.walk(f.node))]
                res.check("ALIAS", "clone: %s (no scenario operation writes it)" % norm_stmt(n)[:60], not writers, clone.loc(n), clone.qual,
                          norm_stmt(n), "the shared arrayed-element table is written by %s" % writers, key="ALIAS/get_cloned_model/_elements")
            else:
                res.note("clone shares %s by reference (not result-relevant state by table A.5)" % norm_stmt(n)[:80])
    res.floor("attribute assignments in get_cloned_model", nassign, 5)
    clone_is_new_model_rule(idx, res)
    add = idx.func(SM_SD, "ScenarioManagerSd.add_scenarios")
    cons = [c for c in iter_calls(add.node) if call_name(c) == "SimulationScenario"]
    ok = bool(cons) and all(any(k.arg == "model" and isinstance(k.value, ast.Call) and call_name(k.value) == "get_cloned_model" for k in c.keywords) for c in cons)
    res.check("FRESH", "every registered scenario gets its own cloned model", ok, add.loc(), add.qual, src(cons[0])[:120] if cons else "",
              "add_scenarios hands the manager's base model (or a shared clone) to a scenario", key="FRESH/add_scenarios/clone-per-scenario")
    in_loop = any(isinstance(lp, ast.For) and any(x is c for x in ast.walk(lp)) for lp in ast.walk(add.node) for c in cons)
    res.check("FRESH", "the clone is made inside the per-scenario loop", in_loop, add.loc(), add.qual, "for name, scenario in ...",
              "the model is cloned once for all scenarios", key="FRESH/add_scenarios/loop")

    model_per_scenario_rule(idx, res, "FRESH")

    scenario_dict_alias_rule(idx, res, "ALIAS")

    # ---- REBIND: settings are merged, never substituted ---------------------------------------------------------
    nreb = 0
    for rel, qual in SCENARIO_OPS:
        fi = idx.func(rel, qual)
        for n in walk_no_nested(fi.node):
            if isinstance(n, ast.Assign):
                for t in n.targets:
                    if isinstance(t, ast.Attribute) and t.attr in ("points", "constants", "equations", "memo") and \
                            (dotted(t.value) or "").split(".")[-1] in ("model", "mod"):
                        nreb += 1
                        res.check("REBIND", "%s: %s" % (fi.qual, norm_stmt(n)), False, fi.loc(n), fi.qual, norm_stmt(n),
                                  "%s replaces the model's whole '%s' table by %s: entries of the model that the scenario does not "
                                  "override are dropped, and the model now aliases the scenario's own dict" % (fi.qual, t.attr, src(n.value)),
                                  key="REBIND/%s/%s" % (fi.qual, t.attr))
    res.ob("REBIND", "whole-table stores to model tables in scenario operations: %d" % nreb, nreb == 0)
    # ---- INPLACE: the *entries* of those tables are replaced, never edited: a clone copies the table, not the lists and dicts in it,
    # so an entry a scenario did not override is still the source model's own object (and every sibling's)
    nip = 0
    MUT = ("append", "extend", "insert", "clear", "sort", "reverse", "remove", "pop", "update", "setdefault")
    for pre in ("BPTK_Py/sdsimulation/", "BPTK_Py/scenariomanager/", "BPTK_Py/scenariorunners/", "BPTK_Py/modeling/model.py", "BPTK_Py/bptk.py"):
        for fi in idx.all_funcs(pre):
            for n in walk_no_nested(fi.node):
                entry = None
                if isinstance(n, (ast.Assign, ast.AugAssign, ast.Delete)):
                    tg = n.targets if isinstance(n, (ast.Assign, ast.Delete)) else [n.target]
                    for t in tg:
                        if isinstance(t, ast.Subscript) and isinstance(t.value, ast.Subscript) and isinstance(t.value.value, ast.Attribute) \
                                and t.value.value.attr in ("points", "constants") and (dotted(t.value.value.value) or "").split(".")[-1] in ("model", "mod", "self", "sc", "scenario"):
                            entry = t.value
                elif isinstance(n, ast.Call) and isinstance(n.func, ast.Attribute) and n.func.attr in MUT and isinstance(n.func.value, ast.Subscript) \
                        and isinstance(n.func.value.value, ast.Attribute) and n.func.value.value.attr in ("points",) \
                        and (dotted(n.func.value.value.value) or "").split(".")[-1] in ("model", "mod", "self", "sc", "scenario"):
                    entry = n.func.value
                if entry is not None:
                    nip += 1
                    res.check("INPLACE", "%s: %s" % (fi.qual, norm_stmt(n)[:70]), False, fi.loc(n), fi.qual, norm_stmt(n)[:110],
                              "%s edits the entry %s in place instead of replacing it: a cloned model shares the entries it did not override with the "
                              "model it was cloned from and with its sibling scenarios, so the edit shows up in all of them" % (fi.qual, src(entry)),
                              key="INPLACE/%s/%s" % (fi.qual, src(entry.value)))
    res.ob("INPLACE", "entries of points/constants tables edited in place: %d" % nip, nip == 0)
    # ---- the compiled XMILE model class (Jinja template): every instance builds its own tables.  Scenarios of one manager are
    # instances of the same generated class; a table taken from a module-level name is one object for all of them
    from .xmile import jinja_methods, JINJA
    methods, _failed = jinja_methods(idx)
    ginit = methods.get("__init__")
    if ginit is None:
        raise AnalysisError("generated __init__ not found in the Jinja template")
    gparams = {a.arg for a in ginit.args.args + ginit.args.kwonlyargs}
    ngen = 0
    for n in ast.walk(ginit):
        if isinstance(n, ast.Assign) and len(n.targets) == 1 and isinstance(n.targets[0], ast.Attribute) and isinstance(n.targets[0].value, ast.Name) \
                and n.targets[0].value.id == "self" and n.targets[0].attr in ("points", "memo", "equations", "constants", "stocks", "flows", "converters"):
            ngen += 1
            from ..util import deref as _deref_g
            v = _deref_g(ginit, n.value)          # memo = {...}; self.memo = memo: a local built here is not a shared object
            shared = (isinstance(v, ast.Name) and v.id not in gparams and v.id != "JINJA") or (isinstance(v, ast.Attribute) and not isinstance(v.value, ast.Call))
            res.check("FRESH", "generated model: self.%s is built per instance" % n.targets[0].attr, not shared, "%s (template)" % JINJA, "jinja:simulation_model.__init__",
                      norm_stmt(n)[:90], "every instance of the generated model class takes its '%s' table from %s: one object for all scenarios "
                      "compiled from the same file, so a points / constants override of one scenario changes its siblings" % (n.targets[0].attr, src(v)),
                      key="FRESH/jinja:simulation_model.__init__/%s" % n.targets[0].attr)
    res.floor("tables built in the generated model's __init__", ngen, 2)
    # scenario constants/points dicts: configure_settings and the REST channel write into the scenario's own dicts
    init = idx.func(SCEN, "SimulationScenario.__init__")

    hybrid_fresh_rule(idx, res)
    _c06_rest(idx, res)


def hybrid_fresh_rule(idx: Index, res: Result) -> None:
    """FRESH (hybrid managers): every scenario gets a model of its own - a deep copy or a new instance - and nothing of the base model
    (data collector, scheduler, tables) is put back into it by reference.  Shared by C06 and C13 (statistics are per scenario)."""
    # ---- hybrid: per-scenario model ----------------------------------------------------------------------------------
    hy = idx.func(SM_HY, "ScenarioManagerHybrid.instantiate_model")
    stores = [n for n in walk_no_nested(hy.node) if isinstance(n, ast.Assign) and isinstance(n.targets[0], ast.Subscript)
              and dotted(n.targets[0].value) == "self.scenarios"]
    if len(stores) < 2:
        raise AnalysisError("hybrid instantiate_model: scenario stores not found")
    assigns = {}
    for n in walk_no_nested(hy.node):
        if isinstance(n, ast.Assign) and isinstance(n.targets[0], ast.Name):
            assigns.setdefault(n.targets[0].id, []).append(n.value)
    for st in stores:
        v = st.value
        srcs = assigns.get(v.id, []) if isinstance(v, ast.Name) else [v]
        ok = bool(srcs) and all(isinstance(s, ast.Call) and (call_name(s) == "deepcopy" or call_name(s) == "scenario_class") for s in srcs)
        res.check("FRESH", "hybrid scenario model is a deep copy or a new instance", ok, hy.loc(st), hy.qual,
                  "; ".join(src(s)[:60] for s in srcs), "a hybrid scenario is registered with a model that is neither deepcopy(self.model) nor "
                  "a new instance: scenarios of the manager share agents, events and statistics", key="FRESH/ScenarioManagerHybrid.instantiate_model")
    dcs = [n for n in walk_no_nested(hy.node) if isinstance(n, ast.Assign) and isinstance(n.value, ast.Call) and call_name(n.value) == "deepcopy"]
    in_loop = bool(dcs) and all(any(isinstance(lp, ast.For) and any(x is d for x in ast.walk(lp)) for lp in ast.walk(hy.node)) for d in dcs)
    # after the deep copy nothing of the base model is put back into the copy by reference (collector, scheduler, tables)
    for st in ast.walk(hy.node):
        if isinstance(st, ast.Assign) and isinstance(st.targets[0], ast.Attribute) and isinstance(st.targets[0].value, ast.Name) \
                and st.targets[0].value.id == "scenario":
            def leaves(e):
                return leaves(e.body) + leaves(e.orelse) if isinstance(e, ast.IfExp) else [e]
            shared = [e for e in leaves(st.value) if isinstance(e, ast.Attribute) and (dotted(e) or "").startswith("self.model.")]
            res.check("FRESH", "hybrid: scenario.%s is the scenario's own object" % st.targets[0].attr, not shared, hy.loc(st), hy.qual, norm_stmt(st)[:100],
                      "scenario.%s is set to %s, an object of the manager's base model: every scenario of the manager (and the registered model) then "
                      "works on that one object" % (st.targets[0].attr, src(shared[0]) if shared else ""),
                      key="FRESH/ScenarioManagerHybrid.instantiate_model/shared-%s" % st.targets[0].attr)
    res.check("FRESH", "hybrid deep copy is made per scenario", in_loop, hy.loc(), hy.qual, "deepcopy(self.model)",
              "the hybrid model is copied once for all scenarios", key="FRESH/ScenarioManagerHybrid.instantiate_model/loop")



def _c06_rest(idx: Index, res: Result) -> None:
    # ---- mutable defaults -------------------------------------------------------------------------------------------------
    for rel, cname in ((SM_SD, "ScenarioManagerSd"), (SM_HY, "ScenarioManagerHybrid")):
        ci = idx.cls(rel, cname)
        ctor = ci.methods["__init__"][-1]
        a = ctor.node.args
        defaults = dict(zip([x.arg for x in a.args[len(a.args) - len(a.defaults):]], a.defaults))
        mut = {p: d for p, d in defaults.items() if isinstance(d, (ast.Dict, ast.List))}
        stored = {}
        for n in walk_no_nested(ctor.node):
            if isinstance(n, ast.Assign) and isinstance(n.value, ast.Name) and n.value.id in mut and isinstance(n.targets[0], ast.Attribute):
                stored[n.value.id] = n.targets[0].attr
        for p, attr in stored.items():
            # mutated in place anywhere in the package?
            writers = []
            for fi in idx.all_funcs("BPTK_Py/scenariomanager/"):
                for n in walk_no_nested(fi.node):
                    if isinstance(n, ast.Assign) and isinstance(n.targets[0], ast.Subscript) and isinstance(n.targets[0].value, ast.Attribute) \
                            and n.targets[0].value.attr == attr and (dotted(n.targets[0].value.value) or "") in ("self", "manager"):
                        writers.append(fi.qual)
                    if isinstance(n, ast.Call) and isinstance(n.func, ast.Attribute) and n.func.attr in MUTATORS and \
                            isinstance(n.func.value, ast.Attribute) and n.func.value.attr == attr and (dotted(n.func.value.value) or "") == "self":
                        writers.append(fi.qual)
            if not writers:
                res.ob("DEFAULTS", "%s(%s=%s) stored but never written in place" % (cname, p, src(mut[p])), True, nontrivial=False)
                continue
            if attr == "filenames":
                res.note("%s.filenames default list is shared and appended to; it carries no result-relevant state" % cname)
                continue
            # every in-package construction must pass the argument
            sites = [(fi, c) for fi in idx.all_funcs("BPTK_Py/") for c in iter_calls(fi.node) if call_name(c) == cname and isinstance(c.func, ast.Name)]
            for fi, c in sites:
                passed = any(k.arg == p for k in c.keywords)
                res.check("DEFAULTS", "%s: %s(...) passes %s explicitly" % (fi.qual, cname, p), passed, fi.loc(c), fi.qual, src(c)[:120],
                          "%s is constructed without '%s': its mutable default %s is stored and written in place by %s, so all managers "
                          "built this way share one table" % (cname, p, src(mut[p]), sorted(set(writers))[:2]),
                          key="DEFAULTS/%s/%s/%s" % (cname, p, fi.qual))

    res.floor("per-scenario / per-manager loops examined for stale locals", stale_rule(idx, res, ("BPTK_Py/scenariorunners/", "BPTK_Py/scenariomanager/", "BPTK_Py/bptk.py")), 60)


def stale_rule(idx: Index, res: Result, prefixes) -> int:
    """STALE: what one scenario's (agent's, instance's) loop iteration reads was bound in that iteration.  Shared by C06, C07, C09."""
    nloops = 0
    if True:
      for pre in prefixes:
        for fi in idx.all_funcs(pre):
            for lp in [x for x in walk_no_nested(fi.node) if isinstance(x, ast.For)]:
                nloops += 1
                hits = stale_loop_reads(fi.node, fi.qual, lp)
                var, nd, wit = hits[0] if hits else ("", None, [])
                res.check("STALE", "%s: loop over %s reads only what the iteration bound" % (fi.qual, src(lp.iter)[:40]), not hits,
                          fi.loc(nd.ast) if nd is not None else fi.loc(lp), fi.qual, nd.text() if nd is not None else norm_stmt(lp)[:60],
                          "inside the loop over %s the local '%s' is read on a path on which this iteration has not assigned it: it still holds what "
                          "the previous iteration (another scenario) left there, so that scenario's settings are applied to this one. Path: %s"
                          % (src(lp.iter)[:40], var, " ; ".join(wit[-5:])), key="STALE/%s/%s" % (fi.qual, var))
    return nloops


# ---------------------------------------------------------------------------
# C07
# ---------------------------------------------------------------------------

KINDS = ("constants", "points")
RUNSPECS = ("starttime", "stoptime", "dt")


def _dict_reads(e: ast.AST) -> List[str]:
    """String keys read from nested subscripts: D["runspecs"]["dt"] -> ["runspecs", "dt"]."""
    keys = []
    while isinstance(e, ast.Subscript):
        k = const_str(e.slice)
        if k is not None:
            keys.append(k)
        e = e.value
    return list(reversed(keys))


def _channel_wiring(res: Result, fi: FuncInfo, obj_names: Set[str], label: str) -> int:
    """Every store <obj>.<F> = <...>["K"] and every loop filling <obj>.<F>[k] from <...>["K"].items() has F == K."""
    n_inst = 0
    for n in walk_no_nested(fi.node):
        if isinstance(n, ast.Assign) and len(n.targets) == 1:
            t = n.targets[0]
            if isinstance(t, ast.Attribute) and (dotted(t.value) or "") in obj_names:
                v_ = n.value
                # value = d.get("k"); if value: X = value  -  the same decision by truthiness, spelt with a local (or a walrus)
                if isinstance(v_, ast.Name):
                    from ..util import _block_binding, nesting_atoms
                    bound = _block_binding(fi.node, n, v_.id)
                    if bound is not None and any(isinstance(a_, ast.Name) and a_.id == v_.id and t_ for a_, t_ in nesting_atoms(fi.node, n)):
                        pk0 = bound
                        if isinstance(pk0, ast.Call) and call_name(pk0) == "get" and pk0.args and const_str(pk0.args[0]) is not None:
                            pk0 = ast.Subscript(value=pk0.func.value, slice=pk0.args[0], ctx=ast.Load())
                        pk0s = _dict_reads(pk0)
                        if pk0s and pk0s[-1] in KINDS + RUNSPECS:
                            n_inst += 1
                            res.check("WIRING", "%s: %s.%s takes the setting whatever its value" % (label, src(t.value), t.attr), False, fi.loc(n), fi.qual, norm_stmt(n)[:110],
                                      "the %s channel stores the setting '%s' only when it is truthy (`%s = %s; if %s: ...`): a value of 0 given for it is "
                                      "ignored and the previous value stays in force" % (label, pk0s[-1], v_.id, src(bound)[:50], v_.id),
                                      key="WIRING/%s/%s-falsy-setting-ignored" % (fi.qual, t.attr))
                            continue
                    if bound is not None:
                        v_ = bound
                # X = d.get("k") or <current> / X = d["k"] if d["k"] else <current>: the setting is taken only when it is *truthy* - a start
                # time, stop time or constant of 0 given in the settings is silently replaced by the fallback
                probe = None
                if isinstance(v_, ast.BoolOp) and isinstance(v_.op, ast.Or) and len(v_.values) >= 2:
                    probe = v_.values[0]
                elif isinstance(v_, ast.IfExp) and not isinstance(v_.test, ast.Compare) and not (isinstance(v_.test, ast.UnaryOp) and isinstance(v_.test.operand, ast.Compare)):
                    probe = v_.test
                if probe is not None:
                    pk = probe
                    if isinstance(pk, ast.Call) and call_name(pk) == "get" and pk.args and const_str(pk.args[0]) is not None:
                        pk = ast.Subscript(value=pk.func.value, slice=pk.args[0], ctx=ast.Load())
                    pkeys = _dict_reads(pk)
                    if pkeys and pkeys[-1] in KINDS + RUNSPECS:
                        n_inst += 1
                        res.check("WIRING", "%s: %s.%s takes the setting whatever its value" % (label, src(t.value), t.attr), False, fi.loc(n), fi.qual, norm_stmt(n)[:110],
                                  "the %s channel stores the setting '%s' only when it is truthy (`%s`): a value of 0 given for it is ignored and the "
                                  "previous value stays in force" % (label, pkeys[-1], src(v_)[:70]), key="WIRING/%s/%s-falsy-setting-ignored" % (fi.qual, t.attr))
                        continue
                if isinstance(v_, ast.IfExp):        # X = d["k"] if "k" in d else <default>
                    v_ = v_.body if _dict_reads(v_.body) else v_.orelse
                if isinstance(v_, ast.Call) and call_name(v_) == "get" and v_.args and const_str(v_.args[0]) is not None:      # d.get("k", default)
                    v_ = ast.Subscript(value=v_.func.value, slice=v_.args[0], ctx=ast.Load())
                keys = _dict_reads(v_)
                if keys and keys[-1] in KINDS + RUNSPECS + ("runspecs",):
                    n_inst += 1
                    res.check("WIRING", "%s: %s.%s <- [%s]" % (label, src(t.value), t.attr, "][".join(keys)), keys[-1] == t.attr, fi.loc(n), fi.qual,
                              norm_stmt(n), "the %s channel stores the setting '%s' into the field '%s'" % (label, keys[-1], t.attr),
                              key="WIRING/%s/%s<-%s" % (fi.qual, t.attr, keys[-1]))
        if isinstance(n, ast.Call) and call_name(n) == "update" and isinstance(n.func.value, ast.Attribute) and len(n.args) == 1 \
                and (dotted(n.func.value.value) or "") in obj_names:
            keys = _dict_reads(n.args[0])
            if keys and keys[-1] in KINDS:
                n_inst += 1
                f = n.func.value.attr
                res.check("WIRING", "%s: %s.update(...[%s])" % (label, src(n.func.value), keys[-1]), f == keys[-1], fi.loc(n), fi.qual, src(n)[:100],
                          "the %s channel merges '%s' settings into '%s'" % (label, keys[-1], f), key="WIRING/%s/%s<-%s(update)" % (fi.qual, f, keys[-1]))
        if isinstance(n, ast.For) and isinstance(n.iter, ast.Call) and call_name(n.iter) == "items":
            srckeys = _dict_reads(n.iter.func.value)
            src_attr = n.iter.func.value.attr if isinstance(n.iter.func.value, ast.Attribute) else None
            origin = srckeys[-1] if srckeys else src_attr
            # local alias: constants = settings[...]["constants"]
            if origin is None and isinstance(n.iter.func.value, ast.Name):
                for a in walk_no_nested(fi.node):
                    if isinstance(a, ast.Assign) and isinstance(a.targets[0], ast.Name) and a.targets[0].id == n.iter.func.value.id:
                        ks = _dict_reads(a.value)
                        if ks:
                            origin = ks[-1]
            if origin not in KINDS:
                continue
            for st in ast.walk(n):
                if isinstance(st, ast.Assign) and isinstance(st.targets[0], ast.Subscript) and isinstance(st.targets[0].value, ast.Attribute) \
                        and (dotted(st.targets[0].value.value) or "") in obj_names:
                    n_inst += 1
                    f = st.targets[0].value.attr
                    res.check("WIRING", "%s: %s[...] filled from %s" % (label, src(st.targets[0].value), origin), f == origin, fi.loc(st), fi.qual,
                              norm_stmt(st), "the %s channel copies '%s' settings into '%s'" % (label, origin, f),
                              key="WIRING/%s/%s<-%s(loop)" % (fi.qual, f, origin))
                if isinstance(st, ast.Call) and call_name(st) in ("change_equation", "change_points"):
                    n_inst += 1
                    want = "constants" if call_name(st) == "change_equation" else "points"
                    res.check("WIRING", "%s: %s fed from %s" % (label, call_name(st), origin), origin == want, fi.loc(st), fi.qual, src(st)[:100],
                              "the %s channel feeds '%s' settings to %s" % (label, origin, call_name(st)),
                              key="WIRING/%s/%s<-%s" % (fi.qual, call_name(st), origin))
    return n_inst


def parsed_cache_rule(idx: Index, res: Result, rule: str) -> int:
    """A table in which the scenario-manager factory keeps *parsed scenario files* (what create_model() answered) hands out deep
    copies only.  The readers merge base constants / base points into the nested scenario dictionaries in place
    (ScenarioManagerSd.load_scenarios): an entry that is handed out as it is, or through dict(...) / .copy() (one level deep), takes
    those merges back into the table - the next read of an unchanged file carries the previous load's base values as if they were the
    scenario's own settings.  Returns the number of such tables (0 on the pinned tree: every read parses the file again)."""
    FACT = "BPTK_Py/scenariomanager/scenario_manager_factory.py"
    ci = idx.cls(FACT, "ScenarioManagerFactory")
    tables: Dict[str, Tuple[FuncInfo, ast.AST, str]] = {}
    for name, defs in ci.methods.items():
        fi = defs[-1]
        parsed = set()
        for a in walk_no_nested(fi.node):
            if isinstance(a, ast.Assign) and any(call_name(c) == "create_model" for c in iter_calls(a.value)):
                for t in a.targets:
                    parsed |= {x.id for x in ast.walk(t) if isinstance(x, ast.Name)}
        for a in walk_no_nested(fi.node):
            if isinstance(a, ast.Assign) and isinstance(a.targets[0], ast.Subscript) and (dotted(a.targets[0].value) or "").startswith("self."):
                # the parsed object itself, or a tuple / list it is put into (next to a signature) - not an object built from it
                direct = [a.value] + (list(a.value.elts) if isinstance(a.value, (ast.Tuple, ast.List)) else [])
                kept = [x.id for x in direct if isinstance(x, ast.Name) and x.id in parsed]
                if kept and not any(isinstance(c, ast.Call) and call_name(c) == "deepcopy" for c in ast.walk(a.value)):
                    tables[dotted(a.targets[0].value)] = (fi, a, kept[0])
    def escapes(fn_node, name, skip_stmt=None):
        """loads of *name* that hand the object (or part of it) on: not the store into the table, not a test, not under deepcopy"""
        out = []
        par = {}
        for p_ in ast.walk(fn_node):
            for c_ in ast.iter_child_nodes(p_):
                par[id(c_)] = p_
        for st in walk_no_nested(fn_node):
            if not isinstance(st, ast.stmt) or st is skip_stmt or isinstance(st, (ast.If, ast.For, ast.While, ast.With, ast.Try, ast.FunctionDef)):
                continue
            for nm in [x for x in ast.walk(st) if isinstance(x, ast.Name) and x.id == name and isinstance(x.ctx, ast.Load)]:
                up = par.get(id(nm))
                top = nm
                while up is not None and up is not st and isinstance(up, (ast.Subscript, ast.Attribute)):
                    top, up = up, par.get(id(up))
                if isinstance(up, ast.Compare) or (isinstance(up, ast.Call) and call_name(up) in ("len", "isinstance", "type")):
                    continue
                if _under_deepcopy(st, nm):
                    continue
                out.append(st)
        return out
    for attr, (fi, store, kept) in sorted(tables.items()):
        bad = []
        bad += [(fi, st) for st in escapes(fi.node, kept, store) if seq(st) > seq(store)]
        for name, defs in ci.methods.items():
            g = defs[-1]
            for a in walk_no_nested(g.node):
                if isinstance(a, ast.Assign) and isinstance(a.targets[0], ast.Name) and any(
                        (isinstance(x, ast.Call) and call_name(x) == "get" and isinstance(x.func, ast.Attribute) and dotted(x.func.value) == attr) or
                        (isinstance(x, ast.Subscript) and isinstance(x.ctx, ast.Load) and dotted(x.value) == attr) for x in ast.walk(a.value)):
                    bad += [(g, st) for st in escapes(g.node, a.targets[0].id, a)]
        res.check(rule, "entries of %s leave the factory as deep copies" % attr, not bad, bad[0][0].loc(bad[0][1]) if bad else fi.loc(store), (bad[0][0] if bad else fi).qual,
                  norm_stmt(bad[0][1])[:90] if bad else norm_stmt(store)[:90],
                  "%s keeps parsed scenario files and hands an entry out %s: load_scenarios merges base constants and base points into the nested "
                  "scenario dictionaries in place, so the table takes them back and the next read of an unchanged file treats the previous load's "
                  "base values as the scenario's own settings" % (attr, "through `%s`" % norm_stmt(bad[0][1])[:60] if bad else ""),
                  key="%s/ScenarioManagerFactory/%s-entries-shared" % (rule, attr.replace("self.", "")))
    return len(tables)


def _under_deepcopy(root: ast.AST, target: ast.AST) -> bool:
    for c in ast.walk(root):
        if isinstance(c, ast.Call) and call_name(c) == "deepcopy" and any(x is target for x in ast.walk(c)):
            return True
    return False


def check_c07(idx: Index, tier: str, res: Result) -> None:
    res.explanation = ("Def-use agreement for every (setting kind x delivery channel): each channel reads a key and stores it into the "
                       "same-named scenario field; both runners (siblings) apply constants, points and run specs to the simulation with "
                       "same-named wiring; change_runspecs writes attributes that have a reader in the integrator; add_scenarios and "
                       "load_scenarios (siblings) merge base constants/points with scenario overrides winning; run specs read from a "
                       "scenario file survive model instantiation (no kill before use); run-spec values are referenced late "
                       "(model.dt in the emitted text), not spliced as numbers when the equation is built.")
    res.rules = ["WIRING: key read == field written, per channel", "APPLY: runner siblings apply all three kinds",
                 "DEFUSE: attributes written by change_runspecs have readers", "MERGE: base values merged identically, overrides win",
                 "KILL: scenario-file run specs not overwritten unconditionally", "BIND: no run-spec number spliced at term() time",
                 "OLDSPEC: no condition of a settings channel reads a run spec the channel is about to replace"]
    res.not_decided = ["numeric equality with a directly built model", "XMILE-sourced models' own run-spec handling (the statement limits "
                       "run-spec overrides to SD DSL models)"]
    n = 0
    n += _channel_wiring(res, idx.func(SCEN, "SimulationScenario.__init__"), {"self"}, "registration")
    n += _channel_wiring(res, idx.func(SCEN, "SimulationScenario.configure_settings"), {"self"}, "session settings")
    n += _channel_wiring(res, idx.func(SERVER, "BptkServer._run_resource"), {"scenario"}, "REST settings")
    n += _channel_wiring(res, idx.func(RUNNER, "SdRunner.run_scenario_step"), {"sc"}, "per-step settings")
    n += _channel_wiring(res, idx.func(RUNNER, "SdRunner._run_scenarios"), {"sc"}, "batch run")
    res.floor("channel wiring instances", n, 14)
    # OLDSPEC (round 10): the settings determine the run specs - while a channel applies a settings dictionary, no *condition* reads a
    # run-spec attribute of the scenario that the same channel stores later on: that is the value of the previous settings (a stoptime
    # "validated" against the old starttime is dropped or kept depending on history, not on the settings that carry both).
    for rel, qual, recvs in ((SCEN, "SimulationScenario.configure_settings", {"self"}), (SERVER, "BptkServer._run_resource", {"scenario"})):
        fi = idx.func(rel, qual)
        def _spec_attr(x) -> Optional[str]:
            return x.attr if isinstance(x, ast.Attribute) and isinstance(x.value, ast.Name) and x.value.id in recvs and x.attr in RUNSPECS else None
        spec_stores = [(seq(t), _spec_attr(t)) for a_ in ast.walk(fi.node) if isinstance(a_, (ast.Assign, ast.AugAssign))
                       for t in (a_.targets if isinstance(a_, ast.Assign) else [a_.target]) if _spec_attr(t)]
        tests = [t_.test for t_ in ast.walk(fi.node) if isinstance(t_, (ast.If, ast.IfExp, ast.While))]
        stale = [(t_, y) for t_ in tests for y in ast.walk(t_) if _spec_attr(y) and isinstance(y.ctx, ast.Load)
                 and any(k == y.attr and sq > seq(t_) for sq, k in spec_stores)]
        res.check("OLDSPEC", "%s: no condition reads a run spec it is about to replace (%d tests, %d stores)" % (qual, len(tests), len(spec_stores)),
                  not stale, fi.loc(stale[0][0]) if stale else fi.loc(), fi.qual, src(stale[0][0])[:100] if stale else "",
                  "%s decides what to do with the new settings by `%s`, which reads %s - the value left by the previous settings, replaced "
                  "further down by the same call: whether a run spec of the new settings takes effect depends on the scenario's history"
                  % (qual, src(stale[0][0])[:80] if stale else "", src(stale[0][1]) if stale else ""),
                  key="OLDSPEC/%s/%s" % (qual, stale[0][1].attr if stale else ""))
    # each channel covers each kind
    for rel, qual, label, kinds in ((SCEN, "SimulationScenario.__init__", "registration", KINDS + RUNSPECS),
                                    (SCEN, "SimulationScenario.configure_settings", "session settings", KINDS + RUNSPECS),
                                    (SERVER, "BptkServer._run_resource", "REST settings", KINDS + RUNSPECS),
                                    (RUNNER, "SdRunner.run_scenario_step", "per-step settings", KINDS)):
        fi = idx.func(rel, qual)
        text_keys = {c.value for c in ast.walk(fi.node) if isinstance(c, ast.Constant) and isinstance(c.value, str)}
        for k in kinds:
            res.check("WIRING", "%s channel handles '%s'" % (label, k), k in text_keys, fi.loc(), fi.qual, k,
                      "the %s channel never reads the setting '%s'" % (label, k), key="WIRING/%s/missing-%s" % (fi.qual, k))

    # ---- APPLY: both runners ------------------------------------------------------------------------------------------
    for qual in ("SdRunner._run_scenarios", "SdRunner.run_scenario_step"):
        fi = idx.func(RUNNER, qual)
        calls = {nme: [c for c in iter_calls(fi.node) if call_name(c) == nme] for nme in ("change_equation", "change_points", "change_runspecs")}
        for nme, cs in calls.items():
            res.check("APPLY", "%s applies %s" % (qual, nme), bool(cs), fi.loc(), fi.qual, nme, "%s never calls %s: that setting kind does not "
                      "reach the simulated model through this runner" % (qual, nme), key="APPLY/%s/%s" % (qual, nme))
        crp = params(idx.func(SDSIM, "SdSimulation.change_runspecs").node)[1:]
        for c in calls["change_runspecs"]:
            kw = dict(zip(crp, [src(a) for a in c.args]))
            kw.update({k.arg: src(k.value) for k in c.keywords})
            ok = all(kw.get(r, "").endswith("." + r) for r in RUNSPECS)
            res.check("APPLY", "%s: change_runspecs wired name to name" % qual, ok, fi.loc(c), fi.qual, src(c), "change_runspecs is called with %s" % kw,
                      key="APPLY/%s/change_runspecs-wiring" % qual)
        # settings are applied before the simulation starts
        starts = [c for c in iter_calls(fi.node) if call_name(c) == "start"]
        ok = bool(starts) and all(seq(c) < seq(starts[-1]) for cs in calls.values() for c in cs)
        res.check("APPLY", "%s applies settings before start()" % qual, ok, fi.loc(), fi.qual, "start()", "settings are applied after the simulation ran",
                  key="APPLY/%s/order" % qual)

    closure_rule(idx, res, "APPLY", [(RUNNER, "SdRunner._run_scenarios"), (RUNNER, "SdRunner.run_scenario_step"),
                                     (SCEN, "SimulationScenario.configure_settings"), (SERVER, "BptkServer._run_resource")])
    # settings take effect on every value reported afterwards: the caches the settings paths reset are emptied completely and unconditionally
    res.ob("FRESH", "tables of parsed scenario files kept by the factory: %d" % parsed_cache_rule(idx, res, "FRESH"), True, nontrivial=False)
    from .memo import clear_rules, run_resource_reset_rule
    clear_rules(idx, res)
    # a setting sent with POST /run (run specs included) takes effect on the values reported next: the cache is reset before it is applied
    run_resource_reset_rule(idx, res, "FRESH")
    # the settings applied to one scenario are those given for it: nothing is carried over from the scenario handled before it
    stale_rule(idx, res, ("BPTK_Py/scenariorunners/", "BPTK_Py/scenariomanager/", "BPTK_Py/bptk.py"))

    # ---- DEFUSE: change_runspecs ------------------------------------------------------------------------------------------
    cr = idx.func(SDSIM, "SdSimulation.change_runspecs")
    written = {}
    for nd in walk_no_nested(cr.node):
        if isinstance(nd, ast.Assign) and isinstance(nd.targets[0], ast.Attribute) and dotted(nd.targets[0].value) == "self.mod":
            written[nd.targets[0].attr] = (nd, src(nd.value))
    loads: Dict[str, int] = {}
    for fi in idx.all_funcs("BPTK_Py/"):
        for a in ast.walk(fi.node):
            if isinstance(a, ast.Attribute) and isinstance(a.ctx, ast.Load):
                loads[a.attr] = loads.get(a.attr, 0) + 1
    # mentions in generated text count as reads (model.dt / model.starttime inside function strings)
    gen_text = " ".join(c.value for m in idx.modules.values() if m.rel.startswith("BPTK_Py/sddsl/") for c in ast.walk(m.tree)
                        if isinstance(c, ast.Constant) and isinstance(c.value, str))
    for attr, (nd, val) in written.items():
        readers = loads.get(attr, 0) + gen_text.count("model." + attr)
        res.check("DEFUSE", "change_runspecs: mod.%s has readers" % attr, readers > 0, cr.loc(nd), cr.qual, norm_stmt(nd),
                  "change_runspecs stores %s into self.mod.%s, an attribute nothing in the package reads: the setting never reaches the "
                  "integrator" % (val, attr), key="DEFUSE/SdSimulation.change_runspecs/writes=%s/readers=0" % attr)
        res.check("DEFUSE", "change_runspecs: mod.%s <- %s" % (attr, val), attr == val, cr.loc(nd), cr.qual, norm_stmt(nd),
                  "change_runspecs stores the parameter %s into mod.%s" % (val, attr), key="DEFUSE/SdSimulation.change_runspecs/%s<-%s" % (attr, val))
    for r in RUNSPECS:
        res.check("DEFUSE", "change_runspecs writes mod.%s" % r, r in written, cr.loc(), cr.qual, str(sorted(written)),
                  "change_runspecs never writes mod.%s (it writes %s): a scenario's %s does not reach the model the integrator reads"
                  % (r, sorted(written), r), key="DEFUSE/SdSimulation.change_runspecs/missing-%s" % r)
    # the integrator reads them from the model at run time
    st = idx.func(SDSIM, "SdSimulation.start")
    txt = src(st.node)
    res.check("DEFUSE", "start() takes start/stop from the model when not given", "self.mod.starttime" in txt and "self.mod.stoptime" in txt, st.loc(), st.qual,
              "start = self.mod.starttime / until = self.mod.stoptime", "SdSimulation.start does not default to the model's run specs", key="DEFUSE/SdSimulation.start")

    # a scenario's settings tables are its own: otherwise another scenario's settings determine this scenario's results
    scenario_dict_alias_rule(idx, res, "OWN")
    model_per_scenario_rule(idx, res, "OWN")
    # the session channel: run specs given as session settings reach the grid the session steps over
    from .channels import session_grid_rules
    session_grid_rules(idx, res, "SESSION")

    # ---- MERGE: siblings --------------------------------------------------------------------------------------------------------
    for qual in ("ScenarioManagerSd.add_scenarios", "ScenarioManagerSd.load_scenarios"):
        fi = idx.func(SM_SD, qual)
        for kind, base in (("constants", "base_constants"), ("points", "base_points")):
            loops = [lp for lp in walk_no_nested(fi.node) if isinstance(lp, ast.For) and src(lp.iter) == "self.%s.items()" % base]
            ok = False
            # form 2: for k, v in base.items(): <scenario's kind dict>.setdefault(k, v)
            for lp in loops:
                tv = [e.id for e in lp.target.elts] if isinstance(lp.target, ast.Tuple) else []
                for c in iter_calls(lp):
                    if call_name(c) == "setdefault" and [src(a) for a in c.args] == tv:
                        recv = c.func.value
                        rtxt = src(recv).replace("'", '"')
                        if ('["%s"]' % kind) in rtxt:
                            ok = True
                        elif isinstance(recv, ast.Name):
                            for a in walk_no_nested(fi.node):
                                if isinstance(a, ast.Assign) and isinstance(a.targets[0], ast.Name) and a.targets[0].id == recv.id and \
                                        ('"%s"' % kind) in src(a.value).replace("'", '"'):
                                    ok = True
            # form 3: {**self.base, **scenario.get(kind, {})}
            for dct in [d for d in walk_no_nested(fi.node) if isinstance(d, ast.Dict) and None in d.keys]:
                stars = [src(v) for k, v in zip(dct.keys, dct.values) if k is None]
                if len(stars) == 2 and stars[0] == "self.%s" % base and ('"%s"' % kind) in stars[1].replace("'", '"'):
                    ok = True
            # local aliases of the scenario's kind table:  constants = scenario.setdefault("constants", ...) / scenario["constants"]
            kind_alias = set()
            for a in walk_no_nested(fi.node):
                if isinstance(a, ast.Assign) and isinstance(a.targets[0], ast.Name) and ('"%s"' % kind) in src(a.value).replace("'", '"'):
                    kind_alias.add(a.targets[0].id)
            for lp in loops:
                for g in ast.walk(lp):
                    if isinstance(g, ast.If) and isinstance(g.test, ast.UnaryOp) and isinstance(g.test.op, ast.Not) or \
                            (isinstance(g, ast.If) and isinstance(g.test, ast.Compare) and isinstance(g.test.ops[0], ast.NotIn)):
                        tsrc = src(g.test)
                        stores = [s for s in g.body if isinstance(s, ast.Assign) and isinstance(s.targets[0], ast.Subscript)
                                  and (_dict_reads(s.targets[0].value)[-1:] == [kind] or
                                       (isinstance(s.targets[0].value, ast.Name) and s.targets[0].value.id in kind_alias))]
                        tnames = {x.id for x in ast.walk(g.test) if isinstance(x, ast.Name)}
                        if (('"%s"' % kind in tsrc.replace("'", '"')) or (tnames & kind_alias)) and stores:
                            ok = True
            res.check("MERGE", "%s merges %s, overrides win" % (qual, base), ok, fi.loc(), fi.qual, "for k, v in self.%s.items(): if not k in ...[%r]" % (base, kind),
                      "%s does not copy %s into a scenario's '%s' only where the scenario has no value of its own" % (qual, base, kind),
                      key="MERGE/%s/%s" % (qual, base))
    fac = idx.func(SM_FAC, "ScenarioManagerFactory.__readScenario") if idx.try_func(SM_FAC, "ScenarioManagerFactory.__readScenario") else None
    if fac is None:
        raise AnalysisError("anchor vanished: ScenarioManagerFactory.__readScenario")
    for base in ("base_constants", "base_points"):
        st_ = [nd for nd in walk_no_nested(fac.node) if isinstance(nd, ast.Assign) and dotted(nd.targets[0]) == "manager.%s" % base]
        ok = len(st_) == 1 and isinstance(st_[0].value, ast.Call) and (call_name(st_[0].value) or "").endswith("get_all_" + base)
        res.check("MERGE", "factory collects %s across files into manager.%s" % (base, base), ok, fac.loc(), fac.qual, norm_stmt(st_[0])[:100] if st_ else "",
                  "the factory fills manager.%s from %s" % (base, src(st_[0].value)[:60] if st_ else "nothing"), key="MERGE/__readScenario/%s" % base)
        # the files searched are the complete set: a list that __readScenario itself is still growing (one file per call) holds, when an
        # earlier file's scenarios are loaded, only the files read so far - base values defined in a later file never reach them
        if ok and len(st_[0].value.args) >= 2:
            files = st_[0].value.args[1]
            if isinstance(files, ast.Name):         # local alias of the list
                al = single_assignments(fac.node).get(files.id, [])
                if len(al) == 1 and isinstance(al[0], (ast.Attribute, ast.Name)):
                    files = al[0]
            grown = [nd for nd in walk_no_nested(fac.node)
                     if (isinstance(nd, ast.AugAssign) and src(nd.target) == src(files))
                     or (isinstance(nd, ast.Call) and call_name(nd) in ("append", "extend", "insert") and src(nd.func.value) == src(files))]
            res.check("MERGE", "factory searches the complete file set for %s" % base, not grown, fac.loc(st_[0]), fac.qual, src(st_[0].value)[:100],
                      "manager.%s is collected from %s, a list __readScenario extends by one file per call (%s): scenarios loaded from an earlier "
                      "file never see base values defined in a later one" % (base, src(files), norm_stmt(grown[0])[:60] if grown else ""),
                      key="MERGE/__readScenario/%s/partial-file-list" % base)

    # ---- KILL: run specs from a scenario file survive instantiate_model -----------------------------------------------------------
    inst = idx.func(SM_SD, "ScenarioManagerSd.instantiate_model")
    nk = 0
    for nd in walk_no_nested(inst.node):
        if isinstance(nd, ast.Assign) and isinstance(nd.targets[0], ast.Attribute) and dotted(nd.targets[0].value) == "scenario" \
                and nd.targets[0].attr in RUNSPECS:
            nk += 1
            r = nd.targets[0].attr
            guards = [g for g in ast.walk(inst.node) if isinstance(g, ast.If) and any(x is nd for b in g.body for x in ast.walk(b))]
            guarded = any(("runspecs" in src(g.test) or ("'%s'" % r) in src(g.test) or ('"%s"' % r) in src(g.test)) for g in guards)
            res.check("KILL", "instantiate_model keeps a scenario's own %s" % r, guarded, inst.loc(nd), inst.qual, norm_stmt(nd),
                      "load_scenarios builds the scenario from the file's dictionary (run specs included, model=None); instantiate_model then "
                      "stores the model's %s over it unconditionally: run specs given in a scenario file never take effect" % r,
                      key="KILL/ScenarioManagerSd.instantiate_model/%s" % r)
    res.floor("run-spec stores in instantiate_model", nk, 3)

    # ---- BIND: no run-spec number spliced into generated text ---------------------------------------------------------------------------
    from .sddsl_templates import dsl_renderers
    renderers, _ = dsl_renderers(idx)
    seen = set()
    nb = 0
    for r in renderers:
        spl = [p for p in _all_parts(r.parts) if isinstance(p, Opq) and p.kind == "runspec"]
        if r.cls in seen:
            continue
        nb += 1
        if spl:
            seen.add(r.cls)
        res.check("BIND", "%s.term refers to run specs late" % r.cls, not spl, r.fi.loc(), r.fi.qual, r.text[:120],
                  "%s.term splices the *current number* of model.%s into the equation text when the equation is built; the clone copies "
                  "the text, so a scenario's %s override leaves this element at the base model's value"
                  % (r.cls, spl[0].text if spl else "", spl[0].text if spl else ""),
                  key="BIND/%s.term/runspec=%s" % (r.cls, spl[0].text if spl else ""))
    res.floor("renderers examined for binding time", nb, 60)


def _all_parts(parts):
    from ..templates import Hole, Rep
    for p in parts:
        yield p
        if isinstance(p, Hole) and p.time:
            yield from _all_parts(p.time)
        if isinstance(p, Rep):
            yield from _all_parts(p.body)
