"""C15 (token gate), C16 (instance isolation), C17 (timeouts), C18 (step lock):
path and who-may-call rules over BPTK_Py/server/bptkServer.py and bptk.py."""
from __future__ import annotations

import ast
from dataclasses import dataclass
from typing import Dict, List, Optional, Set, Tuple

from ..cfg import CFG, Flow, Node, build_cfg
from ..core import (seq, AnalysisError, ClassInfo, FuncInfo, Index, Result, call_name, call_recv,
                    const_str, dotted, iter_calls, norm_stmt, src, walk_no_nested)
from ..util import (const_int, implied, is_none_or_false, make_response_status, params,
                    single_assignments, str_consts_in)

SERVER = "BPTK_Py/server/bptkServer.py"
BPTK = "BPTK_Py/bptk.py"
PUBLIC_PATHS = {"/", "/healthy", "/metrics", "/full-metrics"}   # from the property statement, by path
REGISTRATION_CALLS = {"route", "add_url_rule", "register_blueprint", "before_request", "after_request",
                      "before_first_request", "teardown_request", "errorhandler", "endpoint"}
HTTP_SHORTCUTS = {"get", "post", "put", "delete", "patch"}


@dataclass
class Route:
    path: str
    methods: List[str]
    handler: str        # method name on BptkServer
    node: ast.AST
    func: FuncInfo


def server_class(idx: Index) -> ClassInfo:
    return idx.cls(SERVER, "BptkServer")


def _last_def(idx: Index, ci: ClassInfo, name: str) -> Optional[FuncInfo]:
    for c in idx.mro(ci):
        defs = [f for f in c.methods.get(name, []) if not f.qual.endswith((".setter", ".deleter"))]
        if defs:
            return defs[-1]      # a later def in the class body rebinds the name
    return None


def collect_routes(idx: Index, res: Result) -> List[Route]:
    """Every URL rule registered anywhere in the package.  Recognised idioms:
    ``self.route(PATH, ...)(self.HANDLER)`` as a statement, the same inside a
    ``for`` over a literal table, and ``self.add_url_rule(PATH, view_func=self.HANDLER)``.
    Any other registration mechanism is an unknown idiom -> ANALYSIS-ERROR."""
    ci = server_class(idx)
    routes: List[Route] = []
    handled_calls: Set[int] = set()

    def handler_of(expr: ast.AST, fi: FuncInfo, env: Dict[str, ast.AST]) -> str:
        if isinstance(expr, ast.Name) and expr.id in env:
            expr = env[expr.id]
        d = dotted(expr)
        if d and d.startswith("self.") and d.count(".") == 1:
            return d.split(".")[1]
        raise AnalysisError("route handler %r at %s is not a plain self.<method> reference"
                            % (src(expr), fi.loc(expr)))

    def path_of(expr: ast.AST, fi: FuncInfo, env: Dict[str, ast.AST]) -> str:
        if isinstance(expr, ast.Name) and expr.id in env:
            expr = env[expr.id]
        s = const_str(expr)
        if s is None:
            raise AnalysisError("route path %r at %s is not a string constant" % (src(expr), fi.loc(expr)))
        return s

    def methods_of(call: ast.Call, env) -> List[str]:
        for k in call.keywords:
            if k.arg == "methods":
                v = k.value
                if isinstance(v, ast.Name) and v.id in env:
                    v = env[v.id]
                if isinstance(v, (ast.List, ast.Tuple)):
                    return [const_str(e) or "?" for e in v.elts]
                return ["?"]
        return ["GET"]

    def visit_stmt(stmt: ast.stmt, fi: FuncInfo, env: Dict[str, ast.AST]) -> None:
        if isinstance(stmt, ast.Expr) and isinstance(stmt.value, ast.Call):
            outer = stmt.value
            # self.route(PATH, ...)(self.HANDLER)
            if isinstance(outer.func, ast.Call) and call_name(outer.func) == "route":
                inner = outer.func
                if not inner.args or len(outer.args) != 1:
                    raise AnalysisError("unrecognised route() form at %s" % fi.loc(stmt))
                hname = handler_of(outer.args[0], fi, env)
                routes.append(Route(path_of(inner.args[0], fi, env), methods_of(inner, env), hname, stmt, fi))
                handled_calls.add(id(inner))
                return
            if call_name(outer) == "add_url_rule":
                vf = [k.value for k in outer.keywords if k.arg == "view_func"]
                if not outer.args or not vf:
                    raise AnalysisError("unrecognised add_url_rule() form at %s" % fi.loc(stmt))
                routes.append(Route(path_of(outer.args[0], fi, env), methods_of(outer, env),
                                    handler_of(vf[0], fi, env), stmt, fi))
                handled_calls.add(id(outer))
                return

    in_table_loop: Set[int] = set()
    for fi in idx.all_funcs("BPTK_Py/"):
        stmts = sorted([n for n in walk_no_nested(fi.node) if isinstance(n, ast.stmt)], key=seq)
        for stmt in stmts:
            if isinstance(stmt, ast.For) and isinstance(stmt.iter, (ast.List, ast.Tuple)):
                # for path, methods, handler in [ (..), ... ]: self.route(path, methods=methods)(handler)
                tgt = stmt.target
                names = [e.id for e in tgt.elts] if isinstance(tgt, ast.Tuple) and all(
                    isinstance(e, ast.Name) for e in tgt.elts) else None
                has_reg = any(call_name(c) in ("route", "add_url_rule") for c in iter_calls(stmt))
                if has_reg:
                    if names is None:
                        raise AnalysisError("route table loop with unrecognised target at %s" % fi.loc(stmt))
                    for row in stmt.iter.elts:
                        if not isinstance(row, (ast.Tuple, ast.List)) or len(row.elts) != len(names):
                            raise AnalysisError("route table row of unexpected shape at %s" % fi.loc(row))
                        env = dict(zip(names, row.elts))
                        for b in stmt.body:
                            visit_stmt(b, fi, env)
                    for c in iter_calls(stmt):
                        handled_calls.add(id(c))
                    for b in ast.walk(stmt):
                        in_table_loop.add(id(b))
            elif isinstance(stmt, ast.Expr) and id(stmt) not in in_table_loop:
                visit_stmt(stmt, fi, {})
    # anything else that looks like registration is an unknown idiom
    for fi in idx.all_funcs("BPTK_Py/"):
        in_server = fi.file.startswith("BPTK_Py/server/")
        for c in iter_calls(fi.node):
            n = call_name(c)
            if id(c) in handled_calls:
                continue
            if n in ("route", "add_url_rule", "register_blueprint") and (in_server or call_recv(c) in ("self", "app")):
                if in_server or n != "route":
                    raise AnalysisError("unrecognised route registration %r at %s" % (src(c)[:80], fi.loc(c)))
            if in_server and n in REGISTRATION_CALLS:
                raise AnalysisError("unrecognised registration mechanism %r at %s" % (src(c)[:80], fi.loc(c)))
            if in_server and n in HTTP_SHORTCUTS and call_recv(c) == "self":
                raise AnalysisError("Flask shortcut registration %r at %s" % (src(c)[:80], fi.loc(c)))
        if in_server:
            for n in walk_no_nested(fi.node):
                if isinstance(n, (ast.Assign, ast.AugAssign)):
                    tg = n.targets if isinstance(n, ast.Assign) else [n.target]
                    for t in tg:
                        if "view_functions" in src(t) or "url_map" in src(t):
                            raise AnalysisError("direct write to the URL map at %s" % fi.loc(n))
    # decorators that register (module-level @app.route) in server modules
    for rel, m in idx.modules.items():
        if rel.startswith("BPTK_Py/server/"):
            for f in m.functions.values():
                for d in f.decorators:
                    if ".route(" in d or d.startswith("route("):
                        raise AnalysisError("decorator-style route registration %s on %s" % (d, f.qual))
    if not routes:
        raise AnalysisError("no route registrations found")
    return routes


def gate_aliases(idx: Index, ci: ClassInfo) -> Set[str]:
    """Names under which the token gate is known in the class body."""
    names = {"token_required"}
    for n in ci.node.body:
        if isinstance(n, ast.Assign) and isinstance(n.value, ast.Name) and n.value.id in names:
            for t in n.targets:
                if isinstance(t, ast.Name):
                    names.add(t.id)
    return names


# ---------------------------------------------------------------------------
# C15
# ---------------------------------------------------------------------------

GATE_ALLOWED_CALLS = {"split", "strip", "lower", "upper", "get", "make_response", "len", "startswith",
                      "partition", "removeprefix", "compare_digest", "isinstance", "str", "encode",
                      "jsonify", "abort", "dumps", "format",
                      # pure string searches, type tests, an empty container, constant-time comparison
                      "find", "rfind", "count", "type", "dict", "endswith", "bool"}
# writing a log line touches no session and no instance: not an effect the property speaks about
GATE_LOG_CALLS = {"debug", "info", "warning", "error", "exception", "log"}


def _is_token_attr(e: ast.AST) -> bool:
    return dotted(e) == "self._bearer_token"


def _token_compare(atom: ast.AST) -> Optional[ast.AST]:
    """If *atom* is an equality test against self._bearer_token return the other side."""
    if isinstance(atom, ast.Compare) and len(atom.ops) == 1 and isinstance(atom.ops[0], ast.Eq):
        l, r = atom.left, atom.comparators[0]
        if _is_token_attr(l) or _mentions_token(l):
            return r if _mentions_token(l) and not _mentions_token(r) else None
        if _mentions_token(r):
            return l
    if isinstance(atom, ast.Call) and call_name(atom) == "compare_digest" and len(atom.args) == 2:
        a, b = atom.args
        if _mentions_token(a) and not _mentions_token(b):
            return b
        if _mentions_token(b) and not _mentions_token(a):
            return a
    return None


def _token_equality(e: ast.AST) -> Optional[ast.AST]:
    """The other side when the *value* of e is true exactly when something equals the configured token:
    x == token, not (x != token), compare_digest(x[.encode(..)], token[.encode(..)])."""
    if isinstance(e, ast.UnaryOp) and isinstance(e.op, ast.Not) and isinstance(e.operand, ast.Compare) and len(e.operand.ops) == 1 \
            and isinstance(e.operand.ops[0], ast.NotEq):
        return _token_compare(ast.Compare(left=e.operand.left, ops=[ast.Eq()], comparators=e.operand.comparators))
    other = _token_compare(e)
    if other is not None and isinstance(other, ast.Call) and call_name(other) == "encode" and isinstance(other.func, ast.Attribute):
        other = other.func.value               # the bytes of the credential stand for the credential
    return other


def _mentions_token(e: ast.AST) -> bool:
    return any(_is_token_attr(n) for n in ast.walk(e))


def check_c15(idx: Index, tier: str, res: Result) -> None:
    res.explanation = ("Static decision of three structural clauses of C15 over BPTK_Py/server: (1) every URL rule "
                       "registered on the app whose path is not one of the four public paths is bound to a method "
                       "carrying the token gate; (2) inside the gate, with a configured token, the wrapped handler is "
                       "reachable only through the equality branch of the token comparison and nothing before it has "
                       "an effect, every refusal returns a status >= 400; (3) the compared value covers the scheme and "
                       "the whole credential.")
    res.rules = ["ROUTE: route table x decorator (who-must-be-gated)",
                 "GATE: product-graph dataflow on the CFG of token_required.decorated (configured x checked)",
                 "CRED: def-use shape of the compared credential", "EFFECT: call/stores allow-list before the check"]
    res.not_decided = ["Flask's automatic OPTIONS/HEAD answers (framework code, no handler runs)",
                       "timing side channels", "behaviour of user-supplied bptk factories"]
    res.assumptions = ["Flask dispatches a request only to the view function registered for the matched rule",
                       "functools.wraps does not alter control flow"]
    ci = server_class(idx)
    routes = collect_routes(idx, res)
    aliases = gate_aliases(idx, ci)
    protected = 0
    public = 0
    for r in routes:
        fi = _last_def(idx, ci, r.handler)
        if fi is None:
            raise AnalysisError("route %s is bound to self.%s which is not a method of BptkServer" % (r.path, r.handler))
        if r.path in PUBLIC_PATHS:
            public += 1
            res.ob("ROUTE", "%s -> %s (public by the property statement)" % (r.path, r.handler), True, nontrivial=False)
            continue
        protected += 1
        decos = [d.split("(")[0].split(".")[-1] for d in fi.decorators]
        gated = any(d in aliases for d in decos)
        res.check("ROUTE", "%s %s -> %s" % (",".join(r.methods), r.path, r.handler), gated,
                  fi.loc(), "BptkServer." + r.handler, "route %s" % r.path,
                  "protected route %s is bound to BptkServer.%s, which is not wrapped by the token gate (decorators: %s)"
                  % (r.path, r.handler, fi.decorators or "none"),
                  key="ROUTE/%s/ungated" % r.path)
        unknown = [d for d in decos if d not in aliases and d not in ("wraps", "staticmethod", "classmethod")]
        if unknown:
            res.note("handler %s carries other decorators %s (not analysed)" % (r.handler, unknown))
    res.floor("protected routes", protected, 17)
    res.floor("public routes", public, 4)
    res.samples.append({"routes": ["%s %s -> %s" % (",".join(r.methods), r.path, r.handler) for r in routes]})

    # nobody un-wraps a gated handler
    for fi in idx.all_funcs("BPTK_Py/server/"):
        for n in walk_no_nested(fi.node):
            if isinstance(n, ast.Attribute) and n.attr == "__wrapped__":
                res.find("ROUTE", "ROUTE/%s/__wrapped__" % fi.qual, fi.loc(n), fi.qual, src(n),
                         "a gated handler is un-wrapped through __wrapped__")
    # a gated handler re-bound in the class body after its definition loses the gate
    for n in ci.node.body:
        if isinstance(n, ast.Assign):
            for t in n.targets:
                if isinstance(t, ast.Name) and t.id in {r.handler for r in routes}:
                    res.find("ROUTE", "ROUTE/%s/rebound" % t.id, "%s:%d" % (SERVER, n.lineno), "BptkServer",
                             norm_stmt(n), "handler name re-bound in the class body")

    _c15_gate(idx, res)
    _c15_hooks(idx, res)


def _read_only_table(idx: Index, name: str) -> bool:
    """Is every use of the attribute *name* in the package a plain read of an entry (X.name[k], k in X.name, X.name.get(k), iteration,
    a copy)?  Then a class-level dict/list of that name is a constant table, not shared state.  Any other use - a store through it,
    a mutator call, the object itself handed on (assigned, passed, returned) - makes it state."""
    uses = 0
    for m in idx.modules.values():
        parents = {}
        for p_ in ast.walk(m.tree):
            for c_ in ast.iter_child_nodes(p_):
                parents[id(c_)] = p_
        for n in ast.walk(m.tree):
            if isinstance(n, ast.Attribute) and n.attr == name:
                uses += 1
                par = parents.get(id(n))
                if isinstance(n.ctx, (ast.Store, ast.Del)):
                    return False
                if isinstance(par, ast.Subscript) and par.value is n and isinstance(par.ctx, ast.Load):
                    # an entry that is itself a mutable object may be edited through the read: X.name[k].append(...) / X.name[k][j] = v
                    gp = parents.get(id(par))
                    if isinstance(gp, ast.Subscript) and gp.value is par and not isinstance(gp.ctx, ast.Load):
                        return False
                    if isinstance(gp, ast.Attribute) and gp.attr in ("append", "extend", "update", "pop", "clear", "insert", "remove", "setdefault", "sort", "add"):
                        return False
                    continue
                if isinstance(par, ast.Compare) and n in par.comparators and all(isinstance(o, (ast.In, ast.NotIn)) for o in par.ops):
                    continue
                if isinstance(par, ast.Attribute) and par.value is n and par.attr in ("get", "keys", "values", "items", "copy", "index", "count"):
                    continue
                if isinstance(par, (ast.For, ast.comprehension)) and par.iter is n:
                    continue
                if isinstance(par, ast.Call) and n in par.args and call_name(par) in ("deepcopy", "len", "sorted", "list", "tuple", "dict", "set", "frozenset"):
                    continue
                return False
    return uses > 0


PRE_VIEW_HOOKS = ("before_request", "before_first_request", "url_value_preprocessor", "before_app_request", "url_defaults")


def _c15_hooks(idx: Index, res: Result) -> None:
    """HOOK: Flask runs request hooks (before_request, url_value_preprocessor, ...) before the view function, that is before the token
    gate that wraps the view.  A hook registered by the server must not touch the instance manager, the adapter or the bptk object:
    whatever it does is done for requests without the token as well."""
    ci = idx.cls(SERVER, "BptkServer")
    regs = []
    for fi in idx.all_funcs("BPTK_Py/server/"):
        for c in iter_calls(fi.node):
            if call_name(c) in PRE_VIEW_HOOKS and c.args and (call_recv(c) or "") in ("self", "app"):
                regs.append((fi, c, c.args[0]))
        for d in fi.decorators:
            if any(("." + h) in d for h in PRE_VIEW_HOOKS):
                regs.append((fi, fi.node, ast.Attribute(value=ast.Name(id="self", ctx=ast.Load()), attr=fi.node.name, ctx=ast.Load())))
    res.ob("HOOK", "request hooks registered by the server: %d" % len(regs), True, nontrivial=False)
    for fi, site, target in regs:
        name = target.attr if isinstance(target, ast.Attribute) else (target.id if isinstance(target, ast.Name) else None)
        seen, todo, touched = set(), [name], []
        while todo:
            nm = todo.pop()
            if nm is None or nm in seen or nm not in ci.methods:
                continue
            seen.add(nm)
            f2 = ci.methods[nm][-1]
            for c in iter_calls(f2.node):
                recv = call_recv(c) or ""
                if recv.startswith("self._instance_manager") or recv.startswith("self._external_state_adapter") or recv.startswith("self._bptk"):
                    touched.append(src(c)[:60])
                if recv == "self":
                    todo.append(call_name(c))
            for n in walk_no_nested(f2.node):
                if isinstance(n, ast.Assign) and any((dotted(t) or "").startswith("self.") for t in n.targets):
                    touched.append(norm_stmt(n)[:60])
        res.check("HOOK", "hook %s has no effect on server state" % (name or src(target)), not touched, fi.loc(site), fi.qual, src(site)[:90] if not isinstance(site, ast.FunctionDef) else name,
                  "%s is registered as a Flask %s hook: it runs before the view and therefore before the token check, and it does %s - a request "
                  "without the token changes the server's state even though it is answered with 401" % (name or src(target), call_name(site) if isinstance(site, ast.Call) else "request", "; ".join(touched[:3])),
                  key="HOOK/%s/pre-view-effect" % (name or "?"))


_RESTORERS_CACHE: Dict[int, Set[str]] = {}


def _restorers(ci) -> Set[str]:
    """Methods of the server class that restore an instance on demand: they call reconstruct_instance on the instance manager, or they
    hand back what such a method answers (`return self.<restorer>(...)`).  The pinned name is _ensure_instance_exists."""
    if id(ci) in _RESTORERS_CACHE:
        return _RESTORERS_CACHE[id(ci)]
    # (load_instance = the state of the one requested instance; the bulk loaders - start-up, POST /load-state - use load_state)
    out = {m for m, defs in ci.methods.items() if any(call_name(c) == "reconstruct_instance" and (call_recv(c) or "").endswith("_instance_manager")
                                                      for c in iter_calls(defs[-1].node))
           and any(call_name(c) == "load_instance" for c in iter_calls(defs[-1].node))}
    for _ in range(4):
        for m, defs in ci.methods.items():
            if m in out:
                continue
            rets = [r for r in walk_no_nested(defs[-1].node) if isinstance(r, ast.Return)]
            if rets and all(isinstance(r.value, ast.Call) and call_recv(r.value) == "self" and call_name(r.value) in out for r in rets):
                out.add(m)
    out.add("_ensure_instance_exists")
    _RESTORERS_CACHE[id(ci)] = out
    return out


def _pure_value_memo(ci, attr: str) -> bool:
    """Is the class-level table *attr* a memo of a pure function: every read of it in the class is a validated keyed-memo read
    (util._keyed_memo_read: one key expression, the remembered expression determined by the key, only pure callees) and what is stored
    is immutable (tuple(...) / a number / a string)?  Sharing such a table between instances shares no state."""
    from ..util import _keyed_memo_read, _table_attr
    reads = stores = 0
    for f2 in [x for x in ast.walk(ci.node) if isinstance(x, (ast.FunctionDef, ast.AsyncFunctionDef))]:
        for n in ast.walk(f2):
            if isinstance(n, ast.Assign):
                for t in n.targets:
                    if isinstance(t, ast.Subscript) and _table_attr(f2, t.value) == attr:
                        stores += 1
            v = None
            if isinstance(n, ast.Call) and isinstance(n.func, ast.Attribute) and n.func.attr == "get" and _table_attr(f2, n.func.value) == attr:
                v = n
            elif isinstance(n, ast.Subscript) and isinstance(n.ctx, ast.Load) and _table_attr(f2, n.value) == attr:
                v = n
            if v is not None:
                reads += 1
                got = _keyed_memo_read(ci.node, f2, v)
                if got is None:
                    return False
                inner = got
                if not ((isinstance(inner, ast.Call) and isinstance(inner.func, ast.Name) and inner.func.id in ("tuple", "round", "int", "float", "str", "len", "frozenset"))
                        or isinstance(inner, ast.Constant)):
                    return False
    return reads > 0 and stores > 0


def instance_records_rule(idx: Index, res: Result, rule: str) -> None:
    """Every record put into the instance table carries a bptk object the factory made *for that record* (shared by C16 and C20: a
    batch restore that copies one template object gives every restored instance the same scenarios, simulations and memo)."""
    nrec = 0
    # (wherever the record is built: a method of the manager, or a batch helper of it that the view shows inside its callers)
    for fi in [f_ for f_ in idx.all_funcs("BPTK_Py/server/") if not getattr(f_.node, "_absorbed", False)]:
        assigns = single_assignments(fi.node)
        for d in [n for n in walk_no_nested(fi.node) if isinstance(n, ast.Dict) and {"instance", "time"} <= {const_str(k) for k in n.keys}]:
            nrec += 1
            v = d.values[[const_str(k) for k in d.keys].index("instance")]
            vals = assigns.get(v.id, []) if isinstance(v, ast.Name) else [v]
            ok = bool(vals) and all(isinstance(x, ast.Call) and call_name(x) == "_make_bptk" for x in vals)
            res.check(rule, "%s: record['instance'] is a factory product made here" % fi.qual, ok, fi.loc(d), fi.qual, src(v),
                      "%s stores %s as an instance: not a bptk object created by the factory for this record"
                      % (fi.qual, "; ".join(src(x)[:40] for x in vals) or src(v)), key="%s/%s/record" % (rule, fi.qual))
    res.floor("instance records built", nrec, 2)


def restore_function(idx: Index) -> FuncInfo:
    """The method of the server class that carries out the on-demand restore (the one that calls reconstruct_instance): pinned
    _ensure_instance_exists, or the helper it hands the work to."""
    ci = server_class(idx)
    direct = [m for m in sorted(_restorers(ci)) if m in ci.methods and any(call_name(c) == "reconstruct_instance" for c in iter_calls(ci.methods[m][-1].node))
              and any(call_name(c) == "load_instance" for c in iter_calls(ci.methods[m][-1].node))]
    pinned = "_ensure_instance_exists"
    if pinned in direct or not direct:
        return idx.func(SERVER, "BptkServer.%s" % pinned)
    if len(direct) != 1:
        raise AnalysisError("on-demand restore: %d methods call reconstruct_instance (%s)" % (len(direct), direct))
    return ci.methods[direct[0]][-1]


def _verdict_tables(ci, fn: ast.AST) -> Dict[str, Tuple[str, str]]:
    """Locals of the gate that are a *verdict memo*: table name -> (key text, attribute).  The shape that is accepted:

        M = self.A
        if M is None or M[0] is not self._bearer_token:      # entries were made while the token was this very object
            M = (self._bearer_token, dict());  self.A = M
        T = M[1]
        ... T.get(K) / T[K] ... T[K] = <verdict> ...           # one key expression K, a local bound once

    and self.A is touched by nothing else in the class (None at construction apart).  An entry under K then records how the gate
    decided an earlier request with the same K under the same token; the gate decides from K and the token alone."""
    out: Dict[str, Tuple[str, str]] = {}
    assigns = single_assignments(fn)
    for tname, vals in assigns.items():
        if len(vals) != 1 or not (isinstance(vals[0], ast.Subscript) and isinstance(vals[0].value, ast.Name) and const_int(vals[0].slice) == 1):
            continue
        mname = vals[0].value.id
        mvals = assigns.get(mname, [])
        attrs = [v for v in mvals if isinstance(v, ast.Attribute) and isinstance(v.value, ast.Name) and v.value.id == "self"]
        fresh = [v for v in mvals if isinstance(v, ast.Tuple) and len(v.elts) == 2 and _is_token_attr(v.elts[0])
                 and ((isinstance(v.elts[1], ast.Call) and call_name(v.elts[1]) == "dict" and not v.elts[1].args and not v.elts[1].keywords)
                      or (isinstance(v.elts[1], ast.Dict) and not v.elts[1].keys))]
        if len(attrs) != 1 or len(fresh) != 1 or len(mvals) != 2:
            continue
        attr = attrs[0].attr
        # the guard under which the kept memo is used as it is
        guard = None
        for g in walk_no_nested(fn):
            if isinstance(g, ast.If) and any(isinstance(x, ast.Assign) and x.value is fresh[0] for x in g.body):
                kept = implied(g.test, False)
                if any(isinstance(a, ast.Compare) and len(a.ops) == 1 and src(a.left) == "%s[0]" % mname and _is_token_attr(a.comparators[0])
                       and ((isinstance(a.ops[0], ast.IsNot) and not t) or (isinstance(a.ops[0], ast.Is) and t)) for a, t in kept):
                    guard = g
        if guard is None:
            continue
        # the attribute belongs to the gate: nothing else in the class reads or writes it (None at construction apart)
        foreign = False
        for f2 in [x for x in ast.walk(ci.node) if isinstance(x, (ast.FunctionDef, ast.AsyncFunctionDef)) and x is not fn and not getattr(x, "_absorbed", False)]:
            if any(x is fn for x in ast.walk(f2)):
                continue
            for x in ast.walk(f2):
                if isinstance(x, ast.Attribute) and x.attr == attr:
                    par_ok = False
                    for a_ in ast.walk(f2):
                        if isinstance(a_, ast.Assign) and any(t is x for t in a_.targets) and isinstance(a_.value, ast.Constant) and a_.value.value is None:
                            par_ok = True
                    if not par_ok:
                        foreign = True
        for st in ci.node.body:
            if isinstance(st, ast.Assign) and any(isinstance(t, ast.Name) and t.id == attr for t in st.targets) and not (isinstance(st.value, ast.Constant) and st.value.value is None):
                foreign = True
        if foreign:
            continue
        # one key expression for every read and every store
        keys = set()
        okk = True
        for x in walk_no_nested(fn):
            if isinstance(x, ast.Subscript) and isinstance(x.value, ast.Name) and x.value.id == tname:
                keys.add(src(x.slice))
            if isinstance(x, ast.Call) and isinstance(x.func, ast.Attribute) and isinstance(x.func.value, ast.Name) and x.func.value.id == tname:
                if x.func.attr == "get" and len(x.args) == 1:
                    keys.add(src(x.args[0]))
                elif x.func.attr not in ("clear",):
                    okk = False
        if not okk or len(keys) != 1:
            continue
        key = keys.pop()
        if len(assigns.get(key, [])) != 1:
            continue
        out[tname] = (key, attr)
    return out


def _c15_gate(idx: Index, res: Result) -> None:
    gate = idx.func(SERVER, "BptkServer.token_required")
    inner = idx.func(SERVER, "BptkServer.token_required.decorated")
    fparam = params(gate.node)[0] if params(gate.node) else None
    if fparam is None:
        raise AnalysisError("token_required has no parameter")
    # the gate returns the wrapper
    rets = [n for n in walk_no_nested(gate.node) if isinstance(n, ast.Return)]
    if not rets or not all(isinstance(r.value, ast.Name) and r.value.id == inner.node.name for r in rets):
        res.find("GATE", "GATE/token_required/returns-unwrapped", gate.loc(), gate.qual,
                 "; ".join(norm_stmt(r) for r in rets),
                 "token_required does not return the checking wrapper on every path")
    res.ob("GATE", "token_required returns the wrapper", True)

    gate_cls = idx.cls(SERVER, "BptkServer")
    cfg = build_cfg(inner.node, inner.qual)
    fcalls = [n for n in cfg.stmt_nodes()
              if any(isinstance(c.func, ast.Name) and c.func.id == fparam for c in iter_calls(n.ast))]
    if not fcalls:
        raise AnalysisError("the gate never calls the wrapped handler")

    assigns = single_assignments(inner.node)
    # verdict memos (see _verdict_tables): what is found under the key is what an earlier, identical request stored there
    vtables = _verdict_tables(gate_cls, inner.node)
    remembered: List[tuple] = []          # (checked, scheme, whole, verdict text or None) at the stores, from the first pass
    second_pass = [False]

    def _memo_read_of(v):
        if isinstance(v, ast.Call) and isinstance(v.func, ast.Attribute) and v.func.attr == "get" and isinstance(v.func.value, ast.Name) \
                and v.func.value.id in vtables and len(v.args) == 1:
            return v.func.value.id
        if isinstance(v, ast.Subscript) and isinstance(v.value, ast.Name) and v.value.id in vtables and isinstance(v.ctx, ast.Load):
            return v.value.id
        return None

    # facts: (configured: 'yes'|'no'|'?', checked: bool, scheme: bool, whole: bool, names known to be None)
    def transfer(node: Node, fact, label: str):
        conf, checked, scheme, whole, nones = fact
        if node.kind == "stmt" and label != "exc" and isinstance(node.ast, ast.Assign) and len(node.ast.targets) == 1 \
                and isinstance(node.ast.targets[0], ast.Name) and _memo_read_of(node.ast.value) is not None:
            tid = node.ast.targets[0].id
            base = frozenset(x for x in nones if x not in (tid, "+" + tid, "~" + tid) and not x.startswith("=%s=" % tid))
            outs = [(conf, checked, scheme, whole, base | {tid})]                      # nothing remembered under the key
            if second_pass[0]:
                for ck, sc, wh, val in remembered:                                     # ... or what a store left there
                    outs.append((conf, ck, sc, wh, base | ({"=%s=%s" % (tid, val)} if val is not None else {"+" + tid})))
            return outs
        # names known to be None are recorded as "x", names known to hold an object (a response that was just built) as "+x",
        # names holding a string constant (a verdict such as "missing" / "wrong") as "=x=<value>"
        if node.kind == "stmt" and label != "exc" and isinstance(node.ast, ast.Assign):
            for t in node.ast.targets:
                if isinstance(t, ast.Name):
                    v = node.ast.value
                    nones = frozenset(x for x in nones if x not in (t.id, "+" + t.id) and not x.startswith("=%s=" % t.id))
                    nones = frozenset(x for x in nones if x != "~" + t.id)
                    if _token_equality(v) is not None:
                        nones = nones | {"~" + t.id}      # the name is true exactly when the credential equals the token
                    if isinstance(v, ast.Constant) and isinstance(v.value, str):
                        nones = nones | {"=%s=%s" % (t.id, v.value)}
                    if is_none_or_false(v) and v is not None:
                        nones = nones | {t.id}
                    elif (isinstance(v, ast.Call) and call_name(v) in ("make_response", "Response", "jsonify")) or \
                            (isinstance(v, ast.Name) and "+" + v.id in nones) or (isinstance(v, ast.Constant) and v.value not in (None, False)):
                        nones = nones | {"+" + t.id}
                    elif isinstance(v, ast.Name) and v.id in nones:
                        nones = nones | {t.id}
                    if isinstance(v, ast.Name):
                        for x in list(nones):
                            if x.startswith("=%s=" % v.id):
                                nones = nones | {"=%s=%s" % (t.id, x.split("=", 2)[2])}
        if node.kind == "test" and label in ("true", "false"):
            for atom, truth in implied(node.ast, label == "true"):
                # <verdict> in TABLE / <verdict> == "text": decided where the verdict is known on this path
                if isinstance(atom, ast.Compare) and len(atom.ops) == 1 and isinstance(atom.ops[0], (ast.In, ast.Eq)) and isinstance(atom.left, ast.Name):
                    keys = _const_keys(gate_cls, atom.comparators[0]) if isinstance(atom.ops[0], ast.In) else (
                        {atom.comparators[0].value} if isinstance(atom.comparators[0], ast.Constant) and isinstance(atom.comparators[0].value, str) else None)
                    if keys is not None:
                        val = next((x.split("=", 2)[2] for x in nones if x.startswith("=%s=" % atom.left.id)), None)
                        known = val is not None or atom.left.id in nones
                        if known:
                            holds = val is not None and val in keys
                            if holds != truth:
                                return []      # infeasible on this path
                            continue
                if isinstance(atom, ast.Compare) and len(atom.ops) == 1 and isinstance(atom.ops[0], ast.Is) \
                        and isinstance(atom.left, ast.Name) and is_none_or_false(atom.comparators[0]):
                    if atom.left.id in nones and not truth:
                        return []          # infeasible: the name is None on this path
                    if any(x.startswith("=%s=" % atom.left.id) for x in nones) and truth:
                        return []          # infeasible: the name holds a string on this path
                    if "+" + atom.left.id in nones and truth:
                        return []          # infeasible: the name holds an object on this path
                    if truth:
                        nones = nones | {atom.left.id}
                    continue
                # configured?
                if isinstance(atom, ast.Compare) and len(atom.ops) == 1 and isinstance(atom.ops[0], ast.Is) \
                        and _is_token_attr(atom.left) and is_none_or_false(atom.comparators[0]):
                    conf = "no" if truth else "yes"
                elif _is_token_attr(atom):
                    conf = "yes" if truth else "no"
                else:
                    other = _token_compare(atom)
                    if other is not None and truth:
                        checked = True
                    if isinstance(atom, ast.Name) and "~" + atom.id in nones and truth:
                        checked = True
                    if _is_scheme_test(atom, assigns) and truth:
                        scheme = True
                    if _is_len2_test(atom, assigns) and truth:
                        whole = True
                    if _is_prefix_test(atom) and truth:
                        scheme = True
        return [(conf, checked, scheme, whole, nones)]

    flow = Flow(cfg, [("?", False, False, False, frozenset())], transfer)
    if vtables:
        for n in cfg.stmt_nodes():
            if n.kind == "stmt" and isinstance(n.ast, ast.Assign) and len(n.ast.targets) == 1 and isinstance(n.ast.targets[0], ast.Subscript) \
                    and isinstance(n.ast.targets[0].value, ast.Name) and n.ast.targets[0].value.id in vtables:
                for f in flow.at[n.id]:
                    val = None
                    if isinstance(n.ast.value, ast.Constant) and isinstance(n.ast.value.value, str):
                        val = n.ast.value.value
                    elif isinstance(n.ast.value, ast.Name):
                        val = next((x.split("=", 2)[2] for x in f[4] if x.startswith("=%s=" % n.ast.value.id)), None)
                    rec = (f[1], f[2], f[3], val)
                    if rec not in remembered:
                        remembered.append(rec)
        second_pass[0] = True
        flow = Flow(cfg, [("?", False, False, False, frozenset())], transfer)
        res.ob("GATE", "verdict memo %s: %d remembered decisions modelled at the read" % (sorted(vtables), len(remembered)), True)

    # (2) dominance: the handler call is reached only checked (when a token may be configured)
    for n in fcalls:
        bad = [f for f in flow.at[n.id] if f[0] != "no" and not f[1]]
        ok = not bad
        res.check("GATE", "wrapped call L-independent: %s" % norm_stmt(n.ast)[:60], ok,
                  inner.loc(n.ast), inner.qual, norm_stmt(n.ast),
                  "with a token configured the wrapped handler is reachable without passing the equality branch of "
                  "the token comparison; path: " + (" ".join(flow.witness(n.id, bad[0])) if bad else ""),
                  key="GATE/decorated/handler-reachable-unchecked")
    # handler call only as the returned value of the wrapper (no call in the decorator body itself)
    for c in iter_calls(gate.node):
        if isinstance(c.func, ast.Name) and c.func.id == fparam:
            res.find("GATE", "GATE/token_required/calls-handler-at-decoration", gate.loc(c), gate.qual, src(c),
                     "the handler is called outside the checking wrapper")

    # refusals carry a non-success status
    resp_status: Dict[str, Set[Optional[int]]] = {}
    for name, vals in assigns.items():
        for v in vals:
            st = make_response_status(v)
            if st is not None or (isinstance(v, ast.Call) and call_name(v) in ("make_response", "Response")):
                resp_status.setdefault(name, set()).add(st)
    nrefuse = 0
    for n in cfg.stmt_nodes():
        if isinstance(n.ast, ast.Return):
            if any(isinstance(c.func, ast.Name) and c.func.id == fparam for c in iter_calls(n.ast)):
                continue
            reach = [f for f in flow.at[n.id] if f[0] != "no"]
            if not reach:
                continue
            nrefuse += 1
            v = n.ast.value
            sts: Set[Optional[int]] = set()
            if v is None:
                sts = {None}
            else:
                # the returned name may be a copy of the response built on the refusal branch (refusal = resp)
                for val in (_resolve(v, assigns) or [v]):
                    if isinstance(val, ast.Name) and val.id in resp_status:
                        sts |= resp_status[val.id]
                    else:
                        sts.add(make_response_status(val))
            ok = all(s is not None and s >= 400 for s in sts)
            res.check("GATE", "refusal %s" % norm_stmt(n.ast), ok, inner.loc(n.ast), inner.qual, norm_stmt(n.ast),
                      "a refusal path of the gate does not return a constant non-success status (statuses seen: %s)" % sorted(map(str, sts)),
                      key="GATE/decorated/refusal-status/%s" % norm_stmt(n.ast))
    res.floor("refusal returns in the gate", nrefuse, 1)

    # no effect before the check: calls from an allow-list, stores to locals only
    for c in [c for st in inner.node.body for c in iter_calls(st)]:
        if isinstance(c.func, ast.Name) and c.func.id == fparam:
            continue
        nme = call_name(c)
        recv_ = call_recv(c) or ""
        ok = nme in GATE_ALLOWED_CALLS and not (recv_.startswith("self._") and recv_ != "self._bearer_token")
        if nme == "clear" and recv_ in vtables:
            ok = True                 # emptying the gate's own verdict memo
        if nme in GATE_LOG_CALLS and (recv_ in ("logger", "logging", "log", "_logger", "_log") or (nme == "log" and isinstance(c.func, ast.Name))):
            ok = True
        res.check("EFFECT", "call %s" % src(c.func), ok, inner.loc(c), inner.qual, src(c)[:100],
                  "the gate calls %s, which is not in the effect-free allow-list (header access, string "
                  "operations, make_response)" % src(c.func), key="EFFECT/decorated/call/%s" % src(c.func))
    for n in walk_no_nested(inner.node):
        tgts = []
        if isinstance(n, ast.Assign):
            tgts = n.targets
        elif isinstance(n, (ast.AugAssign, ast.AnnAssign)):
            tgts = [n.target]
        tgts = [x for t in tgts for x in (t.elts if isinstance(t, (ast.Tuple, ast.List)) else [t])]
        tgts = [t.value if isinstance(t, ast.Starred) else t for t in tgts]
        for t in tgts:
            root = t
            while isinstance(root, (ast.Attribute, ast.Subscript)):
                root = root.value
            ok = isinstance(root, ast.Name) and root.id != "self" and not (
                isinstance(t, (ast.Attribute, ast.Subscript)) and root.id in ("request",))
            if isinstance(t, ast.Attribute) and dotted(t.value) == "self" and t.attr in {a for _, a in vtables.values()}:
                ok = True             # the gate's own verdict memo (touched by nothing else in the class)
            res.check("EFFECT", "store %s" % src(t), ok, inner.loc(n), inner.qual, norm_stmt(n),
                      "the gate stores to %s before deciding" % src(t), key="EFFECT/decorated/store/%s" % src(t))

    # (3) credential shape
    _c15_credential(idx, res, inner, cfg, flow, fcalls, assigns)


def _const_keys(ci, e: ast.AST) -> Optional[Set[str]]:
    """The constant members of a literal collection: a tuple / list / set / dict literal, or a class-level table self.NAME of the
    server class bound to such a literal."""
    if isinstance(e, ast.Attribute) and isinstance(e.value, ast.Name) and e.value.id in ("self", "cls", ci.name):
        for st in ci.node.body:
            if isinstance(st, ast.Assign) and len(st.targets) == 1 and isinstance(st.targets[0], ast.Name) and st.targets[0].id == e.attr:
                e = st.value
                break
    if isinstance(e, ast.Dict) and all(isinstance(k, ast.Constant) for k in e.keys):
        return {k.value for k in e.keys}
    if isinstance(e, (ast.Tuple, ast.List, ast.Set)) and all(isinstance(k, ast.Constant) for k in e.elts):
        return {k.value for k in e.elts}
    return None


def _header_expr(e: ast.AST, assigns=None) -> bool:
    """request.headers["Authorization"] / request.headers.get("Authorization"...)  (request.headers possibly through a local name)"""
    def is_headers(b):
        if dotted(b) == "request.headers":
            return True
        return isinstance(b, ast.Name) and assigns is not None and bool(assigns.get(b.id)) and all(dotted(v) == "request.headers" for v in assigns[b.id])
    if isinstance(e, ast.Subscript) and is_headers(e.value) and const_str(e.slice) == "Authorization":
        return True
    if isinstance(e, ast.Call) and call_name(e) == "get" and isinstance(e.func, ast.Attribute) and is_headers(e.func.value) and e.args \
            and const_str(e.args[0]) == "Authorization":
        return True
    return False


def _resolve(e: ast.AST, assigns: Dict[str, List[ast.AST]], depth: int = 0) -> List[ast.AST]:
    """Values a local name may hold (through single-name copies)."""
    if isinstance(e, ast.Name) and e.id in assigns and depth < 4:
        out = []
        for v in assigns[e.id]:
            if isinstance(v, ast.Constant) and v.value is None:
                continue
            out += _resolve(v, assigns, depth + 1)
        return out
    if isinstance(e, ast.IfExp) and depth < 4:            # header = H if "Authorization" in headers else <sentinel>
        return _resolve(e.body, assigns, depth + 1) + _resolve(e.orelse, assigns, depth + 1)
    return [e]


def _is_scheme_test(atom: ast.AST, assigns) -> bool:
    """parts[0] == "Bearer" (possibly .lower() == "bearer")."""
    if isinstance(atom, ast.Compare) and len(atom.ops) == 1 and isinstance(atom.ops[0], ast.Eq):
        for a, b in ((atom.left, atom.comparators[0]), (atom.comparators[0], atom.left)):
            s = const_str(b)
            if s is not None and s.strip().lower() == "bearer":
                return True
    return False


def _is_len2_test(atom: ast.AST, assigns=None) -> bool:
    """len(parts) == 2, or len(rest) == 1 with rest = parts[1:]"""
    if isinstance(atom, ast.Compare) and len(atom.ops) == 1 and isinstance(atom.ops[0], ast.Eq):
        for a, b in ((atom.left, atom.comparators[0]), (atom.comparators[0], atom.left)):
            if isinstance(a, ast.Call) and call_name(a) == "len" and len(a.args) == 1:
                if const_int(b) == 2 and not _tail_of(a.args[0], assigns):
                    return True
                if const_int(b) == 1 and _tail_of(a.args[0], assigns):
                    return True
    return False


def _tail_of(e: ast.AST, assigns) -> Optional[ast.AST]:
    """X when *e* is X[1:] (directly or through a local)"""
    for v in (_resolve(e, assigns) if assigns is not None else [e]):
        if isinstance(v, ast.Subscript) and isinstance(v.slice, ast.Slice) and const_int(v.slice.lower) == 1 and v.slice.upper is None and v.slice.step is None:
            return v.value
    return None


def _is_prefix_test(atom: ast.AST) -> bool:
    if isinstance(atom, ast.Call) and call_name(atom) == "startswith" and atom.args:
        s = const_str(atom.args[0])
        return s is not None and s.lower() == "bearer "
    return False


def _c15_credential(idx, res, inner, cfg, flow, fcalls, assigns) -> None:
    """What is compared with the configured token?  Accepted shapes
       A  whole header == "Bearer " + token            (nothing ignored)
       B  H.split(sep)[1] with len(parts)==2 and parts[0]=="Bearer" on the path
       C  H.split(sep, 1)[1] / H.partition(sep)[2] with the scheme test on the path
       D  H[len("Bearer "):] / H.removeprefix("Bearer ") with startswith on the path
    """
    compared: List[Tuple[ast.AST, ast.AST]] = []
    for n in cfg.stmt_nodes():
        if n.kind != "test":
            continue
        for outcome in (True, False):
            for atom, truth in implied(n.ast, outcome):
                other = _token_compare(atom)
                if other is not None and truth:
                    compared.append((other, atom))
    # ... or the comparison's result is kept in a local that is tested later (same = compare_digest(...); if not same: refuse)
    for n in cfg.stmt_nodes():
        if n.kind == "stmt" and isinstance(n.ast, ast.Assign) and _token_equality(n.ast.value) is not None:
            compared.append((_token_equality(n.ast.value), n.ast.value))
    if not compared:
        raise AnalysisError("no comparison against self._bearer_token found in the gate")
    seen = set()
    for other, atom in compared:
        if src(atom) in seen:
            continue
        seen.add(src(atom))
        shapes = []
        for v in _resolve(other, assigns):
            shapes.append(_cred_shape(v, atom, assigns))
        for shape, need in shapes:
            if shape == "unknown":
                raise AnalysisError("credential expression %r compared with the token has a shape the analyser "
                                    "does not recognise" % src(other))
            ok = True
            why = ""
            for n in fcalls:
                for f in flow.at[n.id]:
                    if f[0] == "no" or not f[1]:
                        continue
                    if "scheme" in need and not f[2]:
                        ok, why = False, "the authentication scheme word is never compared"
                    if "whole" in need and not f[3]:
                        ok, why = False, "words after the credential are ignored (no len(parts) == 2 test on the path)"
            res.check("CRED", "compared value %s shape=%s" % (src(other), shape), ok,
                      inner.loc(atom), inner.qual, src(atom),
                      "the token comparison looks only at %s of the Authorization header: %s"
                      % (src(_resolve(other, assigns)[0])[:80], why),
                      key="CRED/decorated/partial-header")


def _cred_shape(v: ast.AST, atom: ast.AST, assigns) -> Tuple[str, Set[str]]:
    # A: whole header against "Bearer " + token
    if _header_expr(v, assigns):
        other_side = [x for x in (atom.left, atom.comparators[0])] if isinstance(atom, ast.Compare) else list(atom.args)
        for o in other_side:
            if _mentions_token(o) and any("bearer" in s.lower() for s in str_consts_in(o)):
                return "whole-header", set()
        return "whole-header-no-scheme", {"scheme"}
    # B/C: subscript of split / partition
    if isinstance(v, ast.Subscript):
        base = v.value
        k = const_int(v.slice)
        tail = _tail_of(base, assigns)
        if tail is not None and k is not None and k >= 0:
            base, k = tail, k + 1                     # rest[0] with rest = parts[1:] is parts[1]
        bases = _resolve(base, assigns)
        for b in bases:
            if isinstance(b, ast.Call) and call_name(b) == "split" and isinstance(b.func, ast.Attribute):
                recv = _resolve(b.func.value, assigns)
                if any(_header_expr(r, assigns) or (isinstance(r, ast.Call) and call_name(r) == "strip") for r in recv):
                    maxsplit = const_int(b.args[1]) if len(b.args) >= 2 else None
                    for kw in b.keywords:
                        if kw.arg == "maxsplit":
                            maxsplit = const_int(kw.value)
                    if k == 1 and maxsplit == 1:
                        return "split-maxsplit", {"scheme"}
                    if k == 1:
                        return "split-word", {"scheme", "whole"}
                    return "unknown", set()
            if isinstance(b, ast.Call) and call_name(b) == "partition":
                if k == 2:
                    return "partition", {"scheme"}
        # D: slice
        if isinstance(v.slice, ast.Slice) and any(_header_expr(r, assigns) for r in _resolve(base, assigns)):
            return "slice", {"scheme"}
    if isinstance(v, ast.Call) and call_name(v) == "removeprefix":
        return "removeprefix", {"scheme"}
    return "unknown", set()


# ---------------------------------------------------------------------------
# C18 - step lock typestate
# ---------------------------------------------------------------------------

LOCK_API = ("lock", "unlock", "is_locked")


def _trivially_total(fi: FuncInfo) -> bool:
    """Body is guarded dict stores/returns only: cannot raise once the receiver exists."""
    for n in walk_no_nested(fi.node):
        if isinstance(n, (ast.Raise, ast.Assert, ast.Delete, ast.For, ast.While, ast.With, ast.Try)):
            return False
        if isinstance(n, ast.Call) and call_name(n) not in ("keys", "get", "setdefault"):
            return False
    return True


def _has_call(node: ast.AST, name: str) -> bool:
    return any(call_name(c) == name and isinstance(c.func, ast.Attribute) for c in iter_calls(node))


def _is_logging_call(c: ast.Call) -> bool:
    """logger.debug(...) and friends: the standard library's logging reports its own failures (Handler.handleError) and does not raise
    them into the caller"""
    return isinstance(c.func, ast.Attribute) and c.func.attr in ("debug", "info", "warning", "error", "exception", "critical") \
        and (dotted(c.func.value) or "") in ("logger", "_logger", "logging", "log", "_log", "LOGGER", "LOG")


def _lock_cfg(fi: FuncInfo, total: bool) -> CFG:
    sa_ = single_assignments(fi.node)
    sized = {n_ for n_, vs_ in sa_.items() if vs_ and all(isinstance(v_, (ast.List, ast.Dict, ast.Tuple, ast.Set, ast.ListComp, ast.DictComp)) for v_ in vs_)}

    def nonraising(c):
        if _is_logging_call(c):
            return True
        if isinstance(c.func, ast.Name) and c.func.id == "len" and len(c.args) == 1 and isinstance(c.args[0], ast.Name) and c.args[0].id in sized:
            return True               # len() of a local that only ever holds a list/dict/tuple built here
        return total and call_name(c) in LOCK_API and isinstance(c.func, ast.Attribute)
    return build_cfg(fi.node, fi.qual, nonraising)


def _lock_transfer(node: Node, fact, label: str):
    if node.ast is not None and node.kind in ("stmt", "test", "iter", "with") and label not in ("exc", "genclose"):
        probe = node.ast.iter if node.kind == "iter" else node.ast
        if node.kind == "with":
            probe = ast.Tuple(elts=[i.context_expr for i in node.ast.items], ctx=ast.Load())
        if _has_call(probe, "lock"):
            fact = "L"
        if _has_call(probe, "unlock"):
            fact = "U"
    return [fact]


_BENIGN_RESTORERS: Set[str] = set()      # filled by check_c18 from _restorers() of the server class


def _owner_transfer(node: Node, fact, label: str):
    """Whose lock is it?  '?' nothing known (another request may hold it), 'F' is_locked() was seen false on this path, 'M' this
    request called lock()."""
    if label == "exc" and node.ast is not None and node.kind in ("stmt", "test"):
        # statements that cannot fail on what the client sent (building a constant response, reading request.is_json, fetching the
        # instance - if that failed the receiver of unlock() would not even be bound) do not lead into the handler
        calls_ = {call_name(c) for c in ast.walk(node.ast) if isinstance(c, ast.Call)}
        subs_ = [x for x in ast.walk(node.ast) if isinstance(x, ast.Subscript) and isinstance(x.ctx, ast.Load) and not isinstance(x.value, ast.Attribute)]
        if calls_ <= ({"make_response", "is_locked", "lock", "unlock", "get_instance", "_ensure_instance_exists", "log"} | _BENIGN_RESTORERS) and not subs_:
            return []
    if node.ast is not None and node.kind in ("stmt", "test", "iter", "with") and label not in ("exc", "genclose"):
        probe = node.ast.iter if node.kind == "iter" else node.ast
        if node.kind == "with":
            probe = ast.Tuple(elts=[i.context_expr for i in node.ast.items], ctx=ast.Load())
        if node.kind == "test" and label in ("true", "false") and _has_call(probe, "is_locked"):
            for atom, truth in implied(node.ast, label == "true"):
                if isinstance(atom, ast.Call) and call_name(atom) == "is_locked" and not truth:
                    fact = "F"
        if _has_call(probe, "lock"):
            fact = "M"
        if _has_call(probe, "unlock"):
            fact = "F"
    return [fact]


def check_c18(idx: Index, tier: str, res: Result) -> None:
    res.explanation = ("Typestate analysis of the advisory step lock on the statement CFG (exceptional, finally and "
                       "generator-close edges) of every server function that takes the lock or calls run_step: "
                       "(1) lock() is followed by unlock() on every exit, (2) acquisition is not a check-then-act pair, "
                       "(3) every run_step call in a handler is made with the lock held, (4) a persisted copy of the "
                       "session state has lock=False and is a copy.")
    res.rules = ["TYPESTATE: may-analysis {U,L} to every exit kind", "HELD: must-hold at run_step call sites",
                 "ATOMIC: is_locked()...lock() on one receiver is check-then-act",
                 "PERSIST: InstanceState built from a scrubbed deep copy; the live lock flag is written by lock()/unlock() only",
                 "CLOCK: the session clock is normalised with the digits of start and dt"]
    res.not_decided = ["exhaustive thread schedules (model checking)",
                       "that the session clock advances by exactly the number of steps returned for every schedule"]
    res.assumptions = ["bptk.lock/unlock/is_locked are guarded dict accesses and cannot raise (checked structurally)",
                       "werkzeug closes a streamed generator when the client goes away (GeneratorExit at a yield)"]
    ci = server_class(idx)
    _BENIGN_RESTORERS.clear()
    _BENIGN_RESTORERS.update(_restorers(ci))
    bcls = idx.cls(BPTK, "bptk")
    api = {}
    for n in LOCK_API:
        f = _last_def(idx, bcls, n)
        if f is None:
            raise AnalysisError("anchor vanished: bptk.%s" % n)
        api[n] = f
    total = all(_trivially_total(f) for f in api.values())
    res.ob("TYPESTATE", "bptk.lock/unlock/is_locked are total (cannot raise)", total)
    if not total:
        res.note("lock API is not trivially total: its calls are treated as raising")
    # lock() sets, unlock() clears the same flag
    for nme, val in (("lock", True), ("unlock", False)):
        sets = [n for n in walk_no_nested(api[nme].node) if isinstance(n, ast.Assign)
                and any(isinstance(t, ast.Subscript) and const_str(t.slice) == "lock" for t in n.targets)
                and isinstance(n.value, ast.Constant) and n.value.value is val]
        res.check("TYPESTATE", "bptk.%s stores %s into session_state['lock']" % (nme, val), bool(sets),
                  api[nme].loc(), "bptk." + nme, "session_state['lock']",
                  "bptk.%s does not store %s into the lock flag" % (nme, val), key="API/bptk.%s/flag" % nme)
    rd = [n for n in walk_no_nested(api["is_locked"].node) if isinstance(n, ast.Return)
          and ((isinstance(n.value, ast.Subscript) and const_str(n.value.slice) == "lock") or
               (isinstance(n.value, ast.Call) and call_name(n.value) == "get" and n.value.args and const_str(n.value.args[0]) == "lock"
                and (len(n.value.args) == 1 or is_none_or_false(n.value.args[1]))))]
    res.check("TYPESTATE", "bptk.is_locked returns session_state['lock']", bool(rd), api["is_locked"].loc(),
              "bptk.is_locked", "return", "is_locked does not return the lock flag", key="API/bptk.is_locked/flag")

    funcs = [f for f in idx.all_funcs("BPTK_Py/server/")]
    lock_sites = islocked_sites = runstep_sites = 0
    for fi in funcs:
        own = _own_calls(fi.node)
        nl = sum(1 for c in own if call_name(c) == "lock" and isinstance(c.func, ast.Attribute))
        nu = sum(1 for c in own if call_name(c) == "unlock" and isinstance(c.func, ast.Attribute))
        ns = sum(1 for c in own if call_name(c) == "run_step" and isinstance(c.func, ast.Attribute))
        has_lock = bool(nl or nu)
        has_step = bool(ns)
        lock_sites += nl
        islocked_sites += sum(1 for c in own if call_name(c) == "is_locked")
        runstep_sites += ns
        if not (has_lock or has_step):
            continue
        cfg = _lock_cfg(fi, total)
        flow = Flow(cfg, ["U"], _lock_transfer)
        if has_lock:
            for ex, kind in ((cfg.exit, "normal"), (cfg.raise_exit, "exception"), (cfg.genclose_exit, "generator-close")):
                reach = flow.at[ex]
                if not reach:
                    res.ob("TYPESTATE", "%s exit=%s unreachable" % (fi.qual, kind), True, nontrivial=False)
                    continue
                ok = "L" not in reach
                res.check("TYPESTATE", "%s exit=%s" % (fi.qual, kind), ok, fi.loc(), fi.qual,
                          "exit=%s" % kind,
                          "the lock is still held when %s ends by %s; path: %s"
                          % (fi.qual, kind, " ".join(flow.witness(ex, "L")) if not ok else ""),
                          key="TYPESTATE/%s/exit=%s/holds=lock" % (fi.qual, kind))
        if nu:
            # unlock() only releases what this request holds (or what it has just seen to be free): a failure before the is_locked()
            # test must not end in the handler that unlocks - it would release the lock of the request that is running
            oflow = Flow(cfg, ["?"], _owner_transfer)
            for n in cfg.stmt_nodes():
                probe = n.ast.iter if n.kind == "iter" else n.ast
                if n.kind in ("def", "handler", "dispatch") or n.ast is None or not _has_call(probe, "unlock"):
                    continue
                bad = "?" in oflow.at[n.id]
                res.check("TYPESTATE", "%s: %s releases only its own lock" % (fi.qual, norm_stmt(probe)[:40]), not bad, fi.loc(n.ast), fi.qual, norm_stmt(probe)[:80],
                          "unlock() is reachable before this request has either taken the lock or seen it free; path: %s - a request that fails "
                          "that early releases the lock another request holds" % (" ".join(oflow.witness(n.id, "?", 12)) if bad else ""),
                          key="TYPESTATE/%s/unlock-not-held" % fi.qual)
        if has_step:
            for n in cfg.stmt_nodes():
                probe = n.ast.iter if n.kind == "iter" else n.ast
                if n.kind in ("def", "handler", "dispatch") or not _has_call(probe, "run_step"):
                    continue
                ok = flow.at[n.id] <= {"L"}
                res.check("HELD", "%s: %s" % (fi.qual, norm_stmt(probe)[:70]), ok, fi.loc(n.ast), fi.qual,
                          norm_stmt(probe)[:120],
                          "run_step is called without the step lock held (a concurrent stepping request can interleave)",
                          key="HELD/%s/run_step-unlocked" % fi.qual)
    res.floor("lock() call sites in the server", lock_sites, 2)
    res.floor("is_locked() call sites in the server", islocked_sites, 3)
    res.floor("run_step call sites in handlers", runstep_sites, 5)

    # (2) check-then-act
    for name, defs in ci.methods.items():
        for fi in defs:
            tests = [c for c in iter_calls(fi.node, into_nested=True) if call_name(c) == "is_locked"]
            locks = [c for c in iter_calls(fi.node, into_nested=True)
                     if call_name(c) == "lock" and isinstance(c.func, ast.Attribute)]
            if tests and locks:
                res.check("ATOMIC", "%s acquires by test-and-set" % fi.qual, False, fi.loc(tests[0]), fi.qual,
                          "%s ... %s" % (src(tests[0]), src(locks[0])),
                          "the lock is acquired by is_locked() followed later by lock(): two requests can both pass the "
                          "test before either sets the flag", key="ATOMIC/%s/is_locked..lock" % fi.qual)
            elif locks:
                # acquisition without any test: must be a test-and-set whose result is branched on
                used = any(isinstance(p, (ast.If, ast.While)) and any(c in locks for c in iter_calls(p.test))
                           for p in ast.walk(fi.node) if isinstance(p, (ast.If, ast.While)))
                res.check("ATOMIC", "%s acquires by test-and-set" % fi.qual, used, fi.loc(locks[0]), fi.qual,
                          src(locks[0]), "lock() is taken without testing whether another request holds it",
                          key="ATOMIC/%s/blind-lock" % fi.qual)

    # the session clock moves on the session's grid: no simulation time is served twice (a clock rounded with too few digits sticks)
    from .timegrid import normalize_sites_rule
    normalize_sites_rule(idx, res, "CLOCK", prefixes=("BPTK_Py/bptk.py",))
    # (4) persisted copies
    gis = idx.func(SERVER, "InstanceManager._get_instance_state")
    cons = [c for c in iter_calls(gis.node) if call_name(c) == "InstanceState"]
    if not cons:
        raise AnalysisError("anchor vanished: InstanceState(...) in _get_instance_state")
    assigns = single_assignments(gis.node)
    # the live lock flag belongs to the request in flight: outside bptk.lock/unlock (and the initialisation of a new session state) nothing
    # stores into <live session_state>["lock"]; snapshots are scrubbed on their deep copy
    from ..util import deref as _deref
    nlw = 0
    for fi in list(idx.all_funcs("BPTK_Py/server/")) + list(idx.all_funcs("BPTK_Py/bptk.py")) + list(idx.all_funcs("BPTK_Py/externalstateadapter/")):
        if fi.qual in ("bptk.lock", "bptk.unlock", "bptk._set_state", "bptk.begin_session"):
            continue
        for n in walk_no_nested(fi.node):
            if isinstance(n, ast.Assign) and any(isinstance(t, ast.Subscript) and const_str(t.slice) == "lock" for t in n.targets):
                t = [t for t in n.targets if isinstance(t, ast.Subscript) and const_str(t.slice) == "lock"][0]
                base = _deref(fi.node, t.value)
                nlw += 1
                is_snapshot = isinstance(base, ast.Call) and call_name(base) in ("deepcopy", "copy", "dict")
                live = "session_state" in src(base) and not is_snapshot
                res.check("PERSIST", "%s writes the lock flag of a snapshot, not of the live session" % fi.qual, not live, fi.loc(n), fi.qual, norm_stmt(n)[:90],
                          "%s stores into the lock flag of %s, the live session state: taking a snapshot (save-state, any externalisation) releases the "
                          "lock of a request that is still running, and another step-advancing request is accepted in the middle of it"
                          % (fi.qual, src(base)[:60]), key="PERSIST/%s/live-lock-written" % fi.qual)
    res.floor("stores into a lock flag outside the lock API", nlw, 1)
    for c in cons:
        a0 = c.args[0] if c.args else None
        if isinstance(a0, ast.Call) and call_name(a0) == "deepcopy":
            res.ob("PERSIST", "persisted state is a deep copy (made in the constructor call)", True)
            continue
        if not isinstance(a0, ast.Name):
            raise AnalysisError("InstanceState state argument is not a local name")
        vals = assigns.get(a0.id, [])
        is_copy = bool(vals) and all(isinstance(v, ast.Call) and call_name(v) == "deepcopy" for v in vals)
        res.check("PERSIST", "persisted state is a deep copy", is_copy, gis.loc(c), gis.qual, src(c),
                  "the externalised state aliases the live session_state (scrubbing it would unlock the live instance; "
                  "compressing it would corrupt the live logs)", key="PERSIST/_get_instance_state/not-a-copy")
        cfg = build_cfg(gis.node, gis.qual)

        def tr(node: Node, fact, label, _name=a0.id):
            if node.kind == "stmt" and label != "exc" and isinstance(node.ast, ast.Assign):
                for t in node.ast.targets:
                    if isinstance(t, ast.Name) and t.id == _name:
                        fact = "dirty"
                    if isinstance(t, ast.Subscript) and dotted(t.value) == _name and const_str(t.slice) == "lock":
                        v = node.ast.value
                        fact = "clean" if isinstance(v, ast.Constant) and v.value is False else "dirty"
            return [fact]
        flow = Flow(cfg, ["dirty"], tr)
        for n in cfg.stmt_nodes():
            if c in list(iter_calls(n.ast)):
                ok = flow.at[n.id] <= {"clean"}
                res.check("PERSIST", "persisted state has lock=False", ok, gis.loc(c), gis.qual, src(c),
                          "an InstanceState can be built from a session state whose lock flag was not cleared: a "
                          "restored instance would refuse every step", key="PERSIST/_get_instance_state/lock-flag")
    # every save goes through the scrubbing constructor
    for fi in funcs:
        for c in iter_calls(fi.node, into_nested=False):
            if call_name(c) == "save_instance" and c.args:
                a = c.args[0]
                ok = isinstance(a, ast.Call) and call_name(a) == "_get_instance_state"
                res.check("PERSIST", "%s saves a scrubbed state" % fi.qual, ok, fi.loc(c), fi.qual, src(c)[:100],
                          "save_instance is handed something other than _get_instance_state(...)",
                          key="PERSIST/%s/save_instance-arg" % fi.qual)


def _own_calls(fn: ast.AST) -> List[ast.Call]:
    """Calls executed by the function itself (nested defs excluded)."""
    out: List[ast.Call] = []
    for st in fn.body:
        if isinstance(st, (ast.FunctionDef, ast.AsyncFunctionDef, ast.ClassDef)):
            continue
        out += list(iter_calls(st))
    return out


# ---------------------------------------------------------------------------
# C17 - instance timeouts
# ---------------------------------------------------------------------------

TIMEDELTA_UNITS = ["weeks", "days", "hours", "minutes", "seconds", "milliseconds", "microseconds"]


def _must_event_before_exit(fi: FuncInfo, is_event, failure_ok: bool = True, is_event_stmt=None):
    """Normal-exit paths of *fi* that pass no event.  A ``return None/False`` is a
    failure exit and exempt when *failure_ok*.  Returns list of witness strings."""
    cfg = build_cfg(fi.node, fi.qual)

    def tr(node: Node, fact, label):
        if node.ast is not None and label not in ("exc", "genclose") and node.kind in ("stmt", "test", "iter"):
            probe = node.ast.iter if node.kind == "iter" else node.ast
            if any(is_event(c) for c in iter_calls(probe)):
                fact = True
            if is_event_stmt is not None and node.kind == "stmt" and is_event_stmt(node.ast):
                fact = True
        return [fact]
    flow = Flow(cfg, [False], tr)
    bad = []
    preds = cfg.preds()
    for (p, lab) in preds[cfg.exit]:
        n = cfg.nodes[p]
        if False not in flow.at[p] and not (n.kind == "stmt" and False in flow.at[p]):
            # the event may be in the returning statement itself
            pass
        # fact on the edge into exit
        outs = set()
        for f in flow.at[p]:
            outs |= set(tr(n, f, lab))
        if False in outs:
            if failure_ok and isinstance(n.ast, ast.Return) and is_none_or_false(n.ast.value) and n.ast.value is not None:
                continue
            bad.append(" ".join(flow.witness(p, False)))
    return bad


_DERIVED: Dict[str, Dict[str, int]] = {}


def _linear(e: ast.AST, kinds: Dict[str, str], sign: int, acc: Dict[str, int]) -> bool:
    # x.total_seconds() is monotone in x: transparent for the comparison
    if isinstance(e, ast.Call) and call_name(e) == "total_seconds" and isinstance(e.func, ast.Attribute) and not e.args:
        return _linear(e.func.value, kinds, sign, acc)
    if isinstance(e, ast.BinOp) and isinstance(e.op, (ast.Add, ast.Sub)):
        return _linear(e.left, kinds, sign, acc) and _linear(e.right, kinds, sign if isinstance(e.op, ast.Add) else -sign, acc)
    k = None
    if isinstance(e, ast.Name) and e.id in _DERIVED:
        for kk, vv in _DERIVED[e.id].items():
            acc[kk] = acc.get(kk, 0) + sign * vv
        return True
    if isinstance(e, ast.Name):
        k = kinds.get(e.id)
    elif isinstance(e, ast.Call) and call_name(e) in ("now", "utcnow"):
        k = "NOW"
    elif isinstance(e, ast.Call) and call_name(e) == "timedelta":
        k = "TD"
    elif isinstance(e, ast.Subscript) and const_str(e.slice) == "time":
        k = "LAST"
    if k is None:
        return False
    acc[k] = acc.get(k, 0) + sign
    return True


def instance_timeout_is_own(idx: Index, res: Result, rule: str) -> bool:
    """Shared by C17 and C16: the timeout stored in an instance's record is an object built for that instance in create_instance
    (a dict literal / comprehension / dict(...) copy), never an attribute of the manager or a class/module-level object that all
    instances would share.  Returns True when a sharing was reported."""
    from ..util import deref
    create = idx.func(SERVER, "InstanceManager.create_instance")
    recs = [n for n in walk_no_nested(create.node) if isinstance(n, ast.Dict) and {"instance", "time", "timeout"} <= {const_str(k) for k in n.keys}]
    bad = False
    for rdict in recs:
        m = {const_str(k): v for k, v in zip(rdict.keys, rdict.values)}
        tv = m["timeout"]
        for _hop in range(4):          # through local names: timeout = normalised = {...}
            if isinstance(tv, ast.Name):
                defs = [a_.value for a_ in walk_no_nested(create.node) if isinstance(a_, ast.Assign) and isinstance(a_.targets[0], ast.Name) and a_.targets[0].id == tv.id]
                if not defs:
                    break
                tv = defs[-1]
        own = isinstance(tv, (ast.Dict, ast.DictComp)) or (isinstance(tv, ast.Call) and call_name(tv) in ("dict", "deepcopy", "copy"))
        shared = isinstance(tv, ast.Attribute) or (isinstance(tv, ast.Name) and tv.id not in params(create.node))
        if shared:
            bad = True
        res.check(rule, "the timeout in an instance record is that instance's own object", own or not shared, create.loc(m["timeout"]), create.qual,
                  '"timeout": %s' % src(tv)[:60],
                  "create_instance stores %s as the instance's timeout: one object shared by all instances of the manager (and updated in place for "
                  "each new instance), so every earlier instance takes over the timeout of the most recently started one" % src(tv)[:60],
                  key=rule + "/create_instance/shared-timeout-object")
    return bad


def check_c17(idx: Index, tier: str, res: Result) -> None:
    res.explanation = ("Static decision of the timeout *mechanism* (not durations): shape of the expiry comparison and of "
                       "the expiry branch (destroy before removal), timestamp touch and sweep on every serving path of "
                       "every instance-scoped handler and of the handlers the statement names, wiring of the seven "
                       "timedelta units, lazy restore in every instance-scoped handler, wiring of restored fields.")
    res.rules = ["EXPIRY: linear normal form of the comparison now >= last + timeout", "TOUCH/SWEEP: must-pass-through on the handler CFG",
                 "UNITS: key-to-key wiring of the timeout dict", "RESTORE: _ensure_instance_exists dominates instance access",
                 "WIRING: argument/parameter agreement at reconstruct_instance call sites"]
    res.not_decided = ["real-time behaviour, clock resolution", "what bptk.destroy() releases"]
    res.assumptions = ["datetime/timedelta arithmetic is exact"]
    ci = server_class(idx)
    im = idx.cls(SERVER, "InstanceManager")
    sweep = idx.func(SERVER, "InstanceManager._timeout_instances")

    # ---- expiry comparison -------------------------------------------------
    kinds: Dict[str, str] = {}
    _sa = single_assignments(sweep.node)
    # tuples the manager keeps per instance (a remembered timedelta next to what it was computed from): table attribute -> kinds by position
    memo_rows: Dict[str, List[Set[str]]] = {}

    def kind_of(v, depth=0) -> Optional[str]:
        if depth > 6:
            return None
        if isinstance(v, ast.Call) and call_name(v) in ("now", "utcnow"):
            return "NOW"
        if isinstance(v, ast.Call) and call_name(v) == "timedelta":
            return "TD"
        if isinstance(v, ast.Subscript) and const_str(v.slice) == "time":
            return "LAST"
        if isinstance(v, ast.IfExp):                              # timedelta(**r["timeout"]) if "timeout" in r else timedelta(hours=12)
            a, b = kind_of(v.body, depth + 1), kind_of(v.orelse, depth + 1)
            return a if a == b else None
        if isinstance(v, ast.Name):
            if v.id in kinds:
                return kinds[v.id]
            ks_ = {kind_of(x, depth + 1) for x in _sa.get(v.id, [])}
            return ks_.pop() if len(ks_) == 1 else None
        if isinstance(v, ast.Subscript) and isinstance(v.value, ast.Name) and const_int(v.slice) is not None:
            # memo[i] with memo = self._T.get(key): the kind of what the sweep stores at position i of the rows of self._T
            for src_ in _sa.get(v.value.id, []):
                t_ = src_.func.value if isinstance(src_, ast.Call) and call_name(src_) == "get" and isinstance(src_.func, ast.Attribute) else (
                    src_.value if isinstance(src_, ast.Subscript) else None)
                attr_ = dotted(t_) if t_ is not None else None
                if attr_ and attr_.startswith("self."):
                    rows = [n_.value for n_ in walk_no_nested(sweep.node) if isinstance(n_, ast.Assign) and isinstance(n_.targets[0], ast.Subscript)
                            and dotted(n_.targets[0].value) == attr_ and isinstance(n_.value, ast.Tuple)]
                    i_ = const_int(v.slice)
                    ks_ = {kind_of(r_.elts[i_], depth + 1) for r_ in rows if len(r_.elts) > i_}
                    if rows and len(ks_) == 1:
                        return ks_.pop()
        return None
    for _round in range(3):
        for name, vals in _sa.items():
            ks = {kind_of(v) for v in vals}
            if len(ks) == 1 and None not in ks:
                kinds[name] = next(iter(ks))
    # durations derived from the clock and the last access (idle = now - last)
    derived: Dict[str, Dict[str, int]] = {}
    for name, vals in single_assignments(sweep.node).items():
        if len(vals) == 1:
            acc0: Dict[str, int] = {}
            if isinstance(vals[0], ast.BinOp) and _linear(vals[0], kinds, 1, acc0) and acc0:
                derived[name] = acc0
    # a comparison on a truncated component of such a duration is not a comparison of elapsed time
    for c in [x for x in ast.walk(sweep.node) if isinstance(x, ast.Compare)]:
        for a in ast.walk(c):
            if isinstance(a, ast.Attribute) and a.attr in ("seconds", "days", "microseconds") and isinstance(a.value, ast.Name) and \
                    (a.value.id in derived or kinds.get(a.value.id) == "TD"):
                res.find("EXPIRY", "EXPIRY/_timeout_instances/truncated-duration", sweep.loc(c), sweep.qual, src(c),
                         "the expiry test compares %s: timedelta.%s is only one component of the duration (it wraps every day / drops "
                         "sub-second parts), not the elapsed time: timeouts of a day or more never expire, sub-second timeouts live too long"
                         % (src(a), a.attr))
    _DERIVED.clear()
    _DERIVED.update(derived)
    found = []
    for n in walk_no_nested(sweep.node):
        # the comparison decides an if directly, or is kept as a verdict (expired = now >= last + timeout ... if expired:)
        holder = n.test if isinstance(n, ast.If) else (n.value if isinstance(n, ast.Assign) and len(n.targets) == 1 and isinstance(n.targets[0], ast.Name) else None)
        if holder is not None:
            for c in [x for x in ast.walk(holder) if isinstance(x, ast.Compare) and len(x.ops) == 1]:
                acc: Dict[str, int] = {}
                if _linear(c.left, kinds, 1, acc) and _linear(c.comparators[0], kinds, -1, acc) and "NOW" in acc and "LAST" in acc:
                    found.append((n, c, acc))
    if len(found) != 1:
        if res.findings:
            return       # a named deviation was already reported; the remaining rules need the comparison
        raise AnalysisError("expected exactly one expiry comparison in _timeout_instances, found %d" % len(found))
    ifn, cmp_, acc = found[0]
    op = type(cmp_.ops[0])
    # which outcome of the test leads to the destroy/removal?  (guard clauses: `if now < expires: continue` ... destroy)
    scfg = build_cfg(sweep.node, sweep.qual)

    def is_destroy(a_):
        return a_ is not None and any(call_name(c) == "destroy" for c in iter_calls(a_))

    def is_remove(a_):
        return a_ is not None and (any(call_name(c) in ("pop", "_delete_instance") for c in iter_calls(a_)) or
                                   (isinstance(a_, ast.Delete) and any("_instances" in src(t) for t in a_.targets)))

    def tr_out(node: Node, fact, label):
        if node.kind == "iter" and label == "loop":
            return [(None, False, frozenset())]      # a new instance: nothing decided, nothing destroyed yet
        outcome, destroyed, flags = fact
        if node.kind == "test" and isinstance(ifn, ast.If) and node.ast is ifn.test and label in ("true", "false"):
            outcome = label == "true"
        elif node.kind == "test" and label in ("true", "false"):
            # a verdict carried in a boolean local (expired = True ... if expired:) decides the branch it was set for
            for atom, truth in implied(node.ast, label == "true"):
                if isinstance(atom, ast.Name) and (atom.id, not truth) in flags:
                    return []
                if isinstance(atom, ast.Name) and (atom.id, "CMP") in flags:
                    outcome = truth                  # the verdict holds the outcome of the expiry comparison itself
                    flags = frozenset(x for x in flags if x[0] != atom.id) | {(atom.id, truth)}
        if node.kind == "stmt" and label != "exc" and node.ast is ifn and isinstance(ifn, ast.Assign) and src(ifn.value) == src(cmp_):
            flags = frozenset(x for x in flags if x[0] != ifn.targets[0].id) | {(ifn.targets[0].id, "CMP")}
            return [(outcome, destroyed, flags)]
        if node.kind == "stmt" and label != "exc" and isinstance(node.ast, ast.Assign) and len(node.ast.targets) == 1 \
                and isinstance(node.ast.targets[0], ast.Name):
            nm = node.ast.targets[0].id
            flags = frozenset(x for x in flags if x[0] != nm)
            if isinstance(node.ast.value, ast.Constant) and isinstance(node.ast.value.value, bool):
                flags = flags | {(nm, node.ast.value.value)}
        if node.kind == "stmt" and label != "exc" and is_destroy(node.ast):
            destroyed = True
        return [(outcome, destroyed, flags)]
    sflow = Flow(scfg, [(None, False, frozenset())], tr_out)
    d_nodes = [nd for nd in scfg.nodes if nd.kind == "stmt" and is_destroy(nd.ast)]
    r_nodes = [nd for nd in scfg.nodes if nd.kind == "stmt" and is_remove(nd.ast)]
    outcomes = {f[0] for nd in (d_nodes + r_nodes) for f in sflow.at[nd.id]}
    if outcomes == {False}:
        op = {ast.GtE: ast.Lt, ast.Lt: ast.GtE, ast.Gt: ast.LtE, ast.LtE: ast.Gt}.get(op, op)     # reached on the false edge: negate
    elif outcomes - {True}:
        res.find("EXPIRY", "EXPIRY/_timeout_instances/unconditional", sweep.loc(cmp_), sweep.qual, src(cmp_),
                 "an instance can be destroyed/removed by the sweep without the expiry test %s deciding it (outcomes on the paths to the "
                 "removal: %s)" % (src(cmp_), sorted(map(str, outcomes))))
    if acc.get("NOW", 0) < 0:           # normalise to NOW positive
        acc = {k: -v for k, v in acc.items()}
        op = {ast.GtE: ast.LtE, ast.LtE: ast.GtE, ast.Gt: ast.Lt, ast.Lt: ast.Gt}.get(op, op)
    shape_ok = acc.get("NOW") == 1 and acc.get("LAST") == -1 and abs(acc.get("TD", 0)) == 1
    if not shape_ok:
        raise AnalysisError("expiry comparison %r has an unrecognised shape %s" % (src(cmp_), acc))
    res.check("EXPIRY", "timeout is added to the last access", acc["TD"] == -1, sweep.loc(cmp_), sweep.qual, src(cmp_),
              "the expiry test subtracts the timeout from the last access instead of adding it",
              key="EXPIRY/_timeout_instances/sign")
    res.check("EXPIRY", "expires at exactly the timeout (>=)", op is ast.GtE, sweep.loc(cmp_), sweep.qual, src(cmp_),
              "the expiry comparison is %s where the statement needs 'gone once the full timeout has elapsed' (>=)"
              % op.__name__, key="EXPIRY/_timeout_instances/comparator")
    # timeout value comes from the instance's own "timeout" record
    tds = [c for c in iter_calls(sweep.node) if call_name(c) == "timedelta"]
    def _own_timeout(v) -> bool:
        vals_ = _resolve(v, _sa)
        return bool(vals_) and all(isinstance(x, ast.Subscript) and const_str(x.slice) == "timeout" for x in vals_)
    per_inst = [c for c in tds if any(k.arg is None and _own_timeout(k.value) for k in c.keywords)
                or (len({k.arg for k in c.keywords if k.arg}) >= 7 and all(
                    isinstance(k.value, ast.Subscript) and const_str(k.value.slice) == k.arg for k in c.keywords if k.arg))]
    res.check("EXPIRY", "timedelta built from the instance's own timeout record", bool(per_inst), sweep.loc(), sweep.qual,
              "; ".join(src(c) for c in tds), "no timedelta(**<instance>['timeout']) in the sweep",
              key="EXPIRY/_timeout_instances/timeout-source")
    # expiry branch: destroy() then removal
    res.check("EXPIRY", "expired instance is destroyed", bool(d_nodes), sweep.loc(ifn), sweep.qual, norm_stmt(ifn)[:120],
              "the expiry branch does not call destroy() on the instance: its resources are never released",
              key="EXPIRY/_timeout_instances/no-destroy")
    res.check("EXPIRY", "expired instance is removed", bool(r_nodes), sweep.loc(ifn), sweep.qual, norm_stmt(ifn)[:120],
              "the expiry branch does not remove the instance from the table", key="EXPIRY/_timeout_instances/no-remove")
    if d_nodes and r_nodes:
        undestroyed = [nd for nd in r_nodes if any(not f[1] for f in sflow.at[nd.id])]
        res.check("EXPIRY", "destroy() precedes removal", not undestroyed, sweep.loc(ifn),
                  sweep.qual, norm_stmt(ifn)[:120], "the instance is removed before destroy() is called",
                  key="EXPIRY/_timeout_instances/order")
    # the sweep visits every instance
    loops = [n for n in walk_no_nested(sweep.node) if isinstance(n, ast.For) and "_instances" in src(n.iter)]
    res.check("EXPIRY", "sweep iterates over all instances", bool(loops), sweep.loc(), sweep.qual, "for ... in self._instances",
              "the sweep does not iterate over the instance table", key="EXPIRY/_timeout_instances/no-loop")
    # ... on every call: no early return and no condition decides whether the table is walked ("nothing can be due yet" shortcuts are
    # right only if every path that adds or restores an instance keeps them up to date)
    from ..util import nesting_atoms as _natoms
    for lp_ in loops[:1]:
        early = [r for r in walk_no_nested(sweep.node) if isinstance(r, ast.Return) and seq(r) < seq(lp_)]
        conds = _natoms(sweep.node, lp_)
        # a shortcut ("nothing can be due before self._next_expiry") is sound when whatever it reads is kept up to date by *every* method
        # that puts an instance into the table; then skipping the walk loses nothing
        guard_tests = [a_ for a_, _t in conds] + [g.test for g in walk_no_nested(sweep.node) if isinstance(g, ast.If) and any(r is x for r in early for b in g.body for x in ast.walk(b))]
        guard_attrs = {x.attr for t_ in guard_tests for x in ast.walk(t_) if isinstance(x, ast.Attribute) and isinstance(x.value, ast.Name) and x.value.id == "self"
                       and x.attr != "_instances"}
        def _table_empty(t_) -> bool:
            """not self._instances / len(self._instances) == 0: the table is empty"""
            if isinstance(t_, ast.UnaryOp) and isinstance(t_.op, ast.Not) and dotted(t_.operand) == "self._instances":
                return True
            return isinstance(t_, ast.Compare) and len(t_.ops) == 1 and isinstance(t_.ops[0], ast.Eq) and isinstance(t_.left, ast.Call) and call_name(t_.left) == "len" \
                and t_.left.args and dotted(t_.left.args[0]) == "self._instances" and const_int(t_.comparators[0]) == 0
        early_tests = [g.test for g in walk_no_nested(sweep.node) if isinstance(g, ast.If) and any(r is x for r in early for b in g.body for x in ast.walk(b))]
        if early and not conds and len(early_tests) == len(early) and all(_table_empty(t_) for t_ in early_tests):
            early = []          # leaving before the walk when there is nothing to walk
            res.ob("EXPIRY", "the sweep returns early only when the table is empty", True)
        if (early or conds) and guard_attrs:
            writers = [defs[-1] for nm_, defs in im.methods.items() if any(
                isinstance(n_, ast.Assign) and any(isinstance(t_, ast.Subscript) and dotted(t_.value) == "self._instances" for t_ in n_.targets)
                for n_ in walk_no_nested(defs[-1].node))]
            lagging = [w.qual for w in writers if not all(any(isinstance(n_, (ast.Assign, ast.AugAssign)) and any(
                dotted(t_) == "self." + a_ for t_ in (n_.targets if isinstance(n_, ast.Assign) else [n_.target])) for n_ in walk_no_nested(w.node)) for a_ in guard_attrs)]
            if writers and not lagging:
                early, conds = [], []
                res.ob("EXPIRY", "sweep shortcut over %s is maintained by every method that adds an instance" % sorted(guard_attrs), True)
        res.check("EXPIRY", "the sweep walks the table on every call", not early and not conds, sweep.loc(early[0] if early else lp_), sweep.qual,
                  norm_stmt(early[0])[:60] if early else "; ".join(src(a_)[:40] for a_, _t in conds),
                  "the sweep is skipped %s: an instance that is due (one that was restored or created on a path that does not maintain that "
                  "condition) stays alive past its timeout" % (("by an early return before the loop (`%s`)" % norm_stmt(early[0])[:50]) if early else
                                                               "unless " + " and ".join(src(a_)[:50] for a_, _t in conds)),
                  key="EXPIRY/_timeout_instances/conditional-sweep")

    # ---- touchers and sweepers ----------------------------------------------
    upd = idx.func(SERVER, "InstanceManager._update_instance_timestamp")
    st_ok = any(isinstance(n, ast.Assign) and any(isinstance(t, ast.Subscript) and const_str(t.slice) == "time" for t in n.targets)
                and isinstance(n.value, ast.Call) and call_name(n.value) in ("now", "utcnow") for n in walk_no_nested(upd.node))
    res.check("TOUCH", "_update_instance_timestamp stores now() into ['time']", st_ok, upd.loc(), upd.qual, "['time'] = now()",
              "the timestamp update does not store the current time", key="TOUCH/_update_instance_timestamp/store")

    def _touch_store(st) -> bool:
        """self._instances[k]["time"] = now(): what _update_instance_timestamp does, written in place"""
        return isinstance(st, ast.Assign) and any(isinstance(t, ast.Subscript) and const_str(t.slice) == "time" and isinstance(t.value, ast.Subscript)
                                                   and dotted(t.value.value) == "self._instances" for t in st.targets) \
            and isinstance(st.value, ast.Call) and call_name(st.value) in ("now", "utcnow")

    def methods_with(event_name: str) -> Set[str]:
        out = set()
        in_place = _touch_store if "timestamp" in event_name else None
        for name, defs in im.methods.items():
            fi = defs[-1]
            if name == event_name:
                continue
            if not any(call_name(c) == event_name for c in _own_calls(fi.node)) and not (
                    in_place is not None and any(in_place(st) for st in walk_no_nested(fi.node))):
                continue
            bad = _must_event_before_exit(fi, lambda c: call_name(c) == event_name, is_event_stmt=in_place)
            res.check("TOUCH" if "timestamp" in event_name else "SWEEP",
                      "InstanceManager.%s calls %s on every serving path" % (name, event_name), not bad, fi.loc(), fi.qual,
                      event_name, "a serving path of %s skips %s: %s" % (fi.qual, event_name, bad[0] if bad else ""),
                      key="%s/InstanceManager.%s/skips" % ("TOUCH" if "timestamp" in event_name else "SWEEP", name))
            if not bad:
                out.add(name)
        return out
    touchers = methods_with("_update_instance_timestamp")
    sweepers = methods_with("_timeout_instances")
    res.floor("sweep triggers in InstanceManager", len(sweepers), 5)
    res.floor("timestamp touchers in InstanceManager", len(touchers), 2)
    res.samples.append({"touchers": sorted(touchers), "sweepers": sorted(sweepers)})

    routes = collect_routes(idx, res)
    scoped = [r for r in routes if "<instance_uuid>" in r.path]
    res.floor("instance-scoped routes", len(scoped), 9)
    handler_names = {r.handler for r in routes}

    def serving_paths_without(fi: FuncInfo, events: Set[str]) -> List[str]:
        cfg = build_cfg(fi.node, fi.qual)

        def tr(node: Node, fact, label):
            touched, classes = fact
            if node.ast is not None and node.kind in ("stmt", "test", "iter"):
                # the event counts on the exceptional edge of its own statement too: an
                # exception *inside* the instance manager is outside every timeline the
                # property speaks about
                probe = node.ast.iter if node.kind == "iter" else node.ast
                for c in iter_calls(probe):
                    if call_name(c) in events and (call_recv(c) or "").endswith("_instance_manager"):
                        touched = True
                    if call_name(c) in handler_names and call_recv(c) == "self" and call_name(c) not in _restorers(ci):
                        touched = True      # delegation to a sibling handler that is checked itself
            if node.ast is not None and label not in ("exc", "genclose") and node.kind in ("stmt", "test", "iter"):
                if node.kind == "stmt" and isinstance(node.ast, ast.Assign) and len(node.ast.targets) == 1 \
                        and isinstance(node.ast.targets[0], ast.Name):
                    st = make_response_status(node.ast.value)
                    nm = node.ast.targets[0].id
                    if isinstance(node.ast.value, ast.Call) and call_name(node.ast.value) in ("make_response", "Response"):
                        cls = "err" if (st is not None and st >= 400) else "ok"
                        classes = frozenset({(a, b) for a, b in classes if a != nm} | {(nm, cls)})
            return [(touched, classes)]
        flow = Flow(cfg, [(False, frozenset())], tr)
        bad = []
        for n in cfg.stmt_nodes():
            if not isinstance(n.ast, ast.Return):
                continue
            for f in flow.at[n.id]:
                touched, classes = tr(n, f, "return")[0]
                if touched:
                    continue
                v = n.ast.value
                cls = "ok"
                if v is None or is_none_or_false(v):
                    cls = "err"
                elif isinstance(v, ast.Name):
                    cls = dict(classes).get(v.id, "ok")
                else:
                    st = make_response_status(v)
                    if st is not None and st >= 400:
                        cls = "err"
                if cls != "err":
                    bad.append(" ".join(flow.witness(n.id, f)))
        # falling off the end returns None -> error response
        return bad

    for r in scoped:
        fi = _last_def(idx, ci, r.handler)
        if r.path.endswith("/stop-instance"):
            res.ob("TOUCH", "%s (removes the instance: nothing to touch)" % r.handler, True, nontrivial=False)
            continue
        bad = serving_paths_without(fi, touchers)
        res.check("TOUCH", "%s touches the timestamp on every serving path" % r.handler, not bad, fi.loc(), fi.qual, r.path,
                  "a serving path of %s does not count as an access (no timestamp update): %s" % (r.handler, bad[0] if bad else ""),
                  key="TOUCH/%s/serving-path-untouched" % r.handler)
        bad = serving_paths_without(fi, sweepers)
        res.check("SWEEP", "%s sweeps on every serving path" % r.handler, not bad, fi.loc(), fi.qual, r.path,
                  "a serving path of %s does not trigger the timeout sweep: %s" % (r.handler, bad[0] if bad else ""),
                  key="SWEEP/%s/serving-path-unswept" % r.handler)
    for r in routes:
        if r.path in ("/metrics", "/full-metrics"):
            fi = _last_def(idx, ci, r.handler)
            bad = serving_paths_without(fi, sweepers)
            res.check("SWEEP", "%s sweeps on every serving path" % r.handler, not bad, fi.loc(), fi.qual, r.path,
                      "%s does not trigger the timeout sweep on every serving path: %s" % (r.handler, bad[0] if bad else ""),
                      key="SWEEP/%s/serving-path-unswept" % r.handler)
        if r.path in ("/start-instance", "/start-instances"):
            # the statement ties the sweep to instance *creation*: instances must be created
            # through a sweeping InstanceManager method and never by writing the table directly
            fi = _last_def(idx, ci, r.handler)
            creators = [c for c in _own_calls(fi.node) if (call_recv(c) or "").endswith("_instance_manager")]
            direct = [n for n in walk_no_nested(fi.node) if isinstance(n, ast.Subscript) and isinstance(n.ctx, ast.Store)
                      and "_instances" in src(n.value)]
            ok = bool(creators) and all(call_name(c) in sweepers for c in creators) and not direct
            res.check("SWEEP", "%s creates instances only through a sweeping method" % r.handler, ok, fi.loc(), fi.qual,
                      ", ".join(src(c.func) for c in creators) or "no creator call",
                      "%s creates instances through %s, which does not sweep" % (r.handler, [src(c.func) for c in creators]),
                      key="SWEEP/%s/creates-without-sweep" % r.handler)

    # ---- units ---------------------------------------------------------------
    create = idx.func(SERVER, "InstanceManager.create_instance")
    dicts = [n for n in walk_no_nested(create.node) if isinstance(n, ast.Dict)
             and {const_str(k) for k in n.keys if k is not None} & set(TIMEDELTA_UNITS)]
    shared_timeout = instance_timeout_is_own(idx, res, "UNITS")
    if not dicts:
        if shared_timeout:
            return           # reported; the remaining unit rules need the per-instance dict
        raise AnalysisError("anchor vanished: timeout dict in create_instance")
    d = dicts[0]
    keys = [const_str(k) for k in d.keys]
    res.check("UNITS", "timeout dict has exactly timedelta's seven units", sorted(keys) == sorted(TIMEDELTA_UNITS), create.loc(d),
              create.qual, str(keys), "the timeout record has keys %s, timedelta accepts %s" % (keys, TIMEDELTA_UNITS),
              key="UNITS/create_instance/keys")
    for k, v in zip(keys, d.values):
        others = [s for s in str_consts_in(v) if s != k]
        reads_own = k in str_consts_in(v)
        res.check("UNITS", "unit %s wired to its own input key" % k, reads_own and not others, create.loc(v), create.qual,
                  "%r: %s" % (k, src(v)), "timeout unit %r is filled from %s" % (k, others or "nothing"),
                  key="UNITS/create_instance/%s" % k)
        # a unit the request leaves out counts as 0 (the timeout that was asked for is the sum of the units that were given)
        fallback = None
        if isinstance(v, ast.IfExp):
            fallback = v.orelse if str_consts_in(v.body) else v.body
        elif isinstance(v, ast.Call) and call_name(v) == "get" and len(v.args) == 2:
            fallback = v.args[1]
        elif isinstance(v, ast.Call) and call_name(v) == "get" and len(v.args) == 1:
            fallback = ast.Constant(value=None)
        elif isinstance(v, ast.BoolOp) and isinstance(v.op, ast.Or):
            fallback = v.values[-1]
        if fallback is not None:
            res.check("UNITS", "an omitted unit %s counts as 0" % k, const_int(fallback) == 0 or (isinstance(fallback, ast.Constant) and fallback.value == 0), create.loc(v), create.qual,
                      "%r: %s" % (k, src(v)), "a timeout given without %r gets %s for it instead of 0: the instance lives longer than the timeout that was "
                      "asked for" % (k, src(fallback)), key="UNITS/create_instance/%s-default" % k)
    # the record stored for the instance carries that dict and a fresh timestamp
    recs = [n for n in walk_no_nested(create.node) if isinstance(n, ast.Dict) and {"instance", "time", "timeout"} <= {const_str(k) for k in n.keys}]
    ok = False
    for rdict in recs:
        m = {const_str(k): v for k, v in zip(rdict.keys, rdict.values)}
        from ..util import deref
        tv = m["timeout"]
        # the units dict itself, or a local it was bound to - possibly through further plain copies (timeout = normalised = {...})
        chain = tv
        for _hop in range(4):
            if chain is d or not isinstance(chain, ast.Name):
                break
            nxt = [a_.value for a_ in walk_no_nested(create.node) if isinstance(a_, ast.Assign) and isinstance(a_.targets[0], ast.Name) and a_.targets[0].id == chain.id]
            if not nxt:
                break
            chain = nxt[-1]
        is_units = chain is d
        tm = deref(create.node, m["time"])
        ok = is_units and isinstance(tm, ast.Call) and call_name(tm) in ("now", "utcnow")
    res.check("UNITS", "instance record = {instance, time: now(), timeout: timeout}", ok, create.loc(), create.qual,
              "instance_data", "create_instance does not store the timeout dict and the creation time in the instance record",
              key="UNITS/create_instance/record")

    # ---- lazy restore -----------------------------------------------------------
    access = {"get_instance", "keep_instance_alive", "is_valid_instance"}
    for r in scoped:
        if r.path.endswith("/stop-instance"):
            continue
        fi = _last_def(idx, ci, r.handler)
        cfg = build_cfg(fi.node, fi.qual)

        def tr(node: Node, fact, label):
            if node.ast is not None and node.kind in ("stmt", "test", "iter"):
                probe = node.ast.iter if node.kind == "iter" else node.ast
                if any(call_name(c) in _restorers(ci) for c in iter_calls(probe)):
                    fact = True
            return [fact]
        flow = Flow(cfg, [False], tr)
        bad = None
        nacc = 0
        for n in cfg.stmt_nodes():
            probe = n.ast.iter if n.kind == "iter" else n.ast
            if n.kind in ("def",):
                continue
            for c in iter_calls(probe):
                if call_name(c) in access and (call_recv(c) or "").endswith("_instance_manager"):
                    nacc += 1
                    if False in flow.at[n.id] and not any(call_name(x) in _restorers(ci) for x in iter_calls(probe)):
                        bad = (n, c)
        delegates = any(call_name(c) in handler_names and call_recv(c) == "self" and call_name(c) not in _restorers(ci)
                        for c in _own_calls(fi.node))
        if nacc == 0 and not delegates:
            raise AnalysisError("instance-scoped handler %s never accesses its instance" % r.handler)
        res.check("RESTORE", "%s restores lazily before access" % r.handler, bad is None, fi.loc(bad[0].ast) if bad else fi.loc(),
                  fi.qual, src(bad[1]) if bad else r.path,
                  "%s reaches %s without _ensure_instance_exists: an externalised, swept instance is refused where every "
                  "sibling handler restores it" % (r.handler, src(bad[1]) if bad else ""),
                  key="RESTORE/%s/no-lazy-restore" % r.handler)

    # ---- wiring of restored fields -------------------------------------------------
    recon = idx.func(SERVER, "InstanceManager.reconstruct_instance")
    rp = params(recon.node)[1:]
    expect = {"instance_uuid": "instance_id", "timeout": "timeout", "time": "time", "session_state": "state"}
    nsite = 0
    for fi in idx.all_funcs("BPTK_Py/server/"):
        for c in _own_calls(fi.node):
            if call_name(c) == "reconstruct_instance":
                nsite += 1
                pairs = list(zip(rp, c.args)) + [(k.arg, k.value) for k in c.keywords if k.arg]
                from ..util import deref as _deref_wr
                for p, a in pairs:
                    a = _deref_wr(fi.node, a)                  # instance_id = state.instance_id ... reconstruct_instance(instance_id, ...)
                    attr = a.attr if isinstance(a, ast.Attribute) else None
                    res.check("WIRING", "%s: %s <- .%s" % (fi.qual, p, attr), expect.get(p) == attr, fi.loc(c), fi.qual, src(c)[:120],
                              "reconstruct_instance parameter %s receives %s" % (p, src(a)),
                              key="WIRING/%s/%s" % (fi.qual, p))
    res.floor("reconstruct_instance call sites", nsite, 1)
    rrecs = [n for n in walk_no_nested(recon.node) if isinstance(n, ast.Dict) and {"instance", "time", "timeout"} <= {const_str(k) for k in n.keys}]
    ok = bool(rrecs) and all(isinstance(v, ast.Name) and v.id == const_str(k) for rd in rrecs for k, v in zip(rd.keys, rd.values))
    res.check("WIRING", "reconstruct_instance stores time/timeout/instance under their own keys", ok, recon.loc(), recon.qual,
              "instance_data", "reconstruct_instance cross-wires the restored record", key="WIRING/reconstruct_instance/record")
    setst = [c for c in _own_calls(recon.node) if call_name(c) == "_set_state"]
    res.check("WIRING", "reconstruct_instance installs the session state", bool(setst) and all(
        c.args and isinstance(c.args[0], ast.Name) and c.args[0].id == "session_state" for c in setst), recon.loc(), recon.qual,
        "_set_state(session_state)", "the restored session state is not installed", key="WIRING/reconstruct_instance/_set_state")

    # the timeout travels through the external state unchanged (an externalised instance is restored with the timeout it was started with)
    ADAPTER = "BPTK_Py/externalstateadapter/externalStateAdapter.py"
    nad = 0
    for cname, ci_ in idx.module(ADAPTER).classes.items():
        if "_save_instance" not in ci_.methods or "_load_instance" not in ci_.methods:
            continue
        sv = ci_.methods["_save_instance"][-1]
        if any(isinstance(d, ast.Name) and d.id == "abstractmethod" for d in sv.node.decorator_list):
            continue
        sp = params(sv.node)[1]
        recs = [(k, v) for d in ast.walk(sv.node) if isinstance(d, ast.Dict) for k, v in zip(d.keys, d.values) if const_str(k) == "timeout"]
        if not recs:
            raise AnalysisError("%s._save_instance: no 'timeout' field in the saved record" % cname)
        for k, v in recs:
            nad += 1
            inner = v.args[0] if isinstance(v, ast.Call) and call_name(v) in ("dict", "copy", "deepcopy") and len(v.args) == 1 else v
            trunc = [a for a in ast.walk(v) if isinstance(a, ast.Attribute) and a.attr in ("seconds", "days", "microseconds")]
            if src(inner) == "%s.timeout" % sp:
                ok, why = True, ""
            elif trunc:
                ok, why = False, ("the saved timeout is rebuilt from %s: timedelta.%s is one component of the duration (days and the other "
                                  "units are dropped), so an instance restored from the external state expires after a different time than the "
                                  "one it was started with" % (src(trunc[0]), trunc[0].attr))
            elif any(isinstance(a, ast.Call) and call_name(a) == "total_seconds" for a in ast.walk(v)):
                ok, why = True, ""
            else:
                raise AnalysisError("%s._save_instance: unrecognised timeout expression %s" % (cname, src(v)[:60]))
            res.check("WIRING", "%s saves the instance's timeout unchanged" % cname, ok, sv.loc(v), sv.qual, src(v)[:80], why,
                      key="WIRING/%s._save_instance/timeout-%s" % (cname, "truncated" if trunc else "changed"))
        ld = ci_.methods["_load_instance"][-1]
        # what is handed to InstanceState as its timeout (by keyword, or by the position of the field), through locals
        from ..util import deref as _deref_w
        isc = idx.module(ADAPTER).classes.get("InstanceState")
        fields = [st.target.id for st in isc.node.body if isinstance(st, ast.AnnAssign) and isinstance(st.target, ast.Name)] if isc is not None else []
        handed = []
        for c_ in iter_calls(ld.node):
            if call_name(c_) == "InstanceState":
                kwv = [k.value for k in c_.keywords if k.arg == "timeout"]
                if kwv:
                    handed.append(kwv[0])
                elif "timeout" in fields and len(c_.args) > fields.index("timeout"):
                    handed.append(c_.args[fields.index("timeout")])
        rd = [n for n in walk_no_nested(ld.node) if isinstance(n, ast.Assign) and isinstance(n.targets[0], ast.Name) and n.targets[0].id == "timeout"]
        if handed:
            ok = all(_last_key(_deref_w(ld.node, h_)) == "timeout" for h_ in handed)
            rd = [h_ for h_ in handed if _last_key(_deref_w(ld.node, h_)) != "timeout"] or handed
            shown, where_ = src(_deref_w(ld.node, rd[0]))[:90], ld.loc(rd[0])
        else:
            ok = bool(rd) and all(_last_key(n.value) == "timeout" for n in rd)
            shown, where_ = (norm_stmt(rd[0])[:90] if rd else ""), (ld.loc(rd[0]) if rd else ld.loc())
        nad += 1
        res.check("WIRING", "%s loads the timeout from the 'timeout' field" % cname, ok, where_, ld.qual,
                  shown, "the restored timeout is read from %s" % (shown or "nothing"),
                  key="WIRING/%s._load_instance/timeout" % cname)
    res.floor("external-state timeout save/load sites", nad, 2)


def _last_key(e: ast.AST) -> Optional[str]:
    return const_str(e.slice) if isinstance(e, ast.Subscript) else None


# ---------------------------------------------------------------------------
# C16 - instance isolation (ownership)
# ---------------------------------------------------------------------------

# module-level / class-level objects that code reachable from a handler writes, with the reason each is harmless
SHARED_WRITES_ALLOWED = {
    "config.configuration": "written in bptk.__init__ from the factory's own arguments (same values for every instance of one server)",
    "config.matplotlib_rc_settings": "plot styling, written in bptk.__init__ from the factory's own arguments",
    "logmod.logmodes": "logger configuration, written in bptk.__init__",
    "logmod.loglevel": "logger configuration, written in bptk.__init__",
    "logmod.logfile": "logger configuration, written in bptk.__init__",
}
INSTANCE_API = {"get_instance", "_get_instance_state", "keep_instance_alive", "_delete_instance", "is_valid_instance",
                "delete_instance", "load_instance", "_update_instance_timestamp"}


def check_c16(idx: Index, tier: str, res: Result) -> None:
    res.explanation = ("Ownership analysis: every instance record holds a bptk object produced by a factory call made for it; "
                       "instance-scoped handlers reach instance state only through their own instance_uuid and never through the "
                       "server's shared default bptk; stop removes only the addressed id; no class-level, module-level or default-argument "
                       "mutable object is written on a path reachable from a handler or from the session API (frozen allow-list with "
                       "reasons for the process-wide configuration written at construction).")
    res.rules = ["FACTORY: provenance of _instances[id]['instance']", "OWNID: argument of every instance-manager call in a scoped handler",
                 "NOSHARED: self._bptk in scoped handlers", "STATICS: writes to class/module/default-argument mutables"]
    res.not_decided = ["isolation of objects the user's factory shares between the bptk objects it returns", "interleavings inside one request"]
    ci = server_class(idx)
    im = idx.cls(SERVER, "InstanceManager")
    mk = idx.func(SERVER, "InstanceManager._make_bptk")
    rets = [n for n in walk_no_nested(mk.node) if isinstance(n, ast.Return)]
    ok = len(rets) == 1 and isinstance(rets[0].value, ast.Call) and dotted(rets[0].value.func) == "self._bptk_factory" and not rets[0].value.args
    res.check("FACTORY", "_make_bptk calls the factory afresh", ok, mk.loc(), mk.qual, norm_stmt(rets[0]) if rets else "",
              "_make_bptk does not return a fresh factory product (a cached object would be shared by all instances)", key="FACTORY/_make_bptk")
    cached = [n for n in ast.walk(im.node) if isinstance(n, ast.Assign) and isinstance(n.value, ast.Call) and dotted(n.value.func) == "self._bptk_factory"
              and isinstance(n.targets[0], ast.Attribute)]
    res.check("FACTORY", "no factory product cached on the manager", not cached, mk.loc(), "InstanceManager", norm_stmt(cached[0]) if cached else "",
              "a factory product is cached on the instance manager", key="FACTORY/cached")
    instance_records_rule(idx, res, "FACTORY")
    instance_timeout_is_own(idx, res, "FACTORY")
    # what a factory registers (model objects, base dictionaries) may be one object for all the instances it builds: the scenario layer
    # never writes such an object in place and never hands it to a scenario as its own
    from .scenarios import clone_is_new_model_rule, scenario_dict_alias_rule
    scenario_dict_alias_rule(idx, res, "NOSHARED")
    clone_is_new_model_rule(idx, res, "NOSHARED")
    # records are stored under the id they were made for
    for name in ("create_instance", "reconstruct_instance"):
        fi = im.methods[name][-1]
        st = [n for n in walk_no_nested(fi.node) if isinstance(n, ast.Assign) and isinstance(n.targets[0], ast.Subscript)
              and dotted(n.targets[0].value) == "self._instances"]
        from ..util import deref
        # the value stored is the record built in this function (directly or through a named intermediate)
        stored = deref(fi.node, st[0].value) if st else None
        is_record = isinstance(stored, ast.Dict) and "instance" in [const_str(k) for k in stored.keys]
        ok = len(st) == 1 and src(st[0].targets[0].slice) == "instance_uuid" and is_record
        res.check("FACTORY", "%s stores the record under its own id" % name, ok, fi.loc(), fi.qual, norm_stmt(st[0]) if st else "",
                  "%s stores the record as %s" % (name, norm_stmt(st[0]) if st else "?"), key="FACTORY/%s/store" % name)
    cr = im.methods["create_instance"][-1]
    uid = [n for n in walk_no_nested(cr.node) if isinstance(n, ast.Assign) and src(n.targets[0]) == "instance_uuid"]
    ok = len(uid) == 1 and "uuid" in src(uid[0].value)
    res.check("FACTORY", "new instance ids are fresh uuids", ok, cr.loc(), cr.qual, norm_stmt(uid[0]) if uid else "", "instance ids are %s" % (src(uid[0].value) if uid else "?"),
              key="FACTORY/create_instance/uuid")
    dl = im.methods["_delete_instance"][-1]
    dels = [n for n in walk_no_nested(dl.node) if isinstance(n, ast.Delete)]
    p = params(dl.node)[1]
    pops = [c for c in iter_calls(dl.node) if call_name(c) == "pop" and dotted(c.func.value) == "self._instances"]
    ok = (len(dels) == 1 and not pops and src(dels[0].targets[0]) == "self._instances[%s]" % p) or \
        (not dels and len(pops) == 1 and pops[0].args and src(pops[0].args[0]) == p)
    res.check("OWNID", "_delete_instance removes only the addressed id", ok, dl.loc(), dl.qual, norm_stmt(dels[0]) if dels else "",
              "_delete_instance removes %s" % (norm_stmt(dels[0]) if dels else "?"), key="OWNID/_delete_instance")
    clears = [c for fi in idx.all_funcs("BPTK_Py/server/") for c in iter_calls(fi.node) if call_name(c) == "clear" and "_instances" in src(c.func.value)]
    res.check("OWNID", "nobody clears the instance table", not clears, SERVER, "InstanceManager", src(clears[0]) if clears else "", "the whole instance table is cleared",
              key="OWNID/clear")

    routes = collect_routes(idx, res)
    scoped = [r for r in routes if "<instance_uuid>" in r.path]
    ncalls = 0
    for r in scoped:
        fi = _last_def(idx, ci, r.handler)
        fns = [fi] + [f for f in idx.all_funcs(SERVER) if f.qual.startswith(fi.qual + ".")]
        for f in fns:
            for c in iter_calls(f.node):
                recv = call_recv(c) or ""
                if call_name(c) in INSTANCE_API and (recv.endswith("_instance_manager") or recv.endswith("_external_state_adapter")):
                    ncalls += 1
                    a0 = src(c.args[0]) if c.args else ""
                    res.check("OWNID", "%s: %s(%s)" % (r.handler, call_name(c), a0), a0 == "instance_uuid", f.loc(c), f.qual, src(c)[:100],
                              "the handler for %s addresses instance state with %s instead of its own instance_uuid" % (r.path, a0 or "nothing"),
                              key="OWNID/%s/%s" % (r.handler, call_name(c)))
                if call_name(c) in _restorers(ci) and call_recv(c) == "self":
                    a0 = src(c.args[0]) if c.args else ""
                    res.check("OWNID", "%s: _ensure_instance_exists(%s)" % (r.handler, a0), a0 == "instance_uuid", f.loc(c), f.qual, src(c),
                              "lazy restore of %s" % a0, key="OWNID/%s/_ensure_instance_exists" % r.handler)
            uses = [n for n in walk_no_nested(f.node) if isinstance(n, ast.Attribute) and dotted(n) == "self._bptk"]
            res.check("NOSHARED", "%s does not touch the server's shared bptk" % f.qual, not uses, f.loc(uses[0]) if uses else f.loc(), f.qual,
                      "self._bptk", "the instance-scoped handler %s uses self._bptk, the one bptk object shared by the whole server: sessions of "
                      "different instances would run on the same scenarios" % f.qual, key="NOSHARED/%s/self._bptk" % f.qual)
            direct = [n for n in walk_no_nested(f.node) if isinstance(n, ast.Attribute) and n.attr == "_instances"]
            res.check("OWNID", "%s does not read the instance table directly" % f.qual, not direct, f.loc(direct[0]) if direct else f.loc(), f.qual,
                      "_instances", "%s reaches into the instance table" % f.qual, key="OWNID/%s/_instances" % f.qual)
    res.floor("instance-manager calls in scoped handlers", ncalls, 12)
    # the on-demand restore concerns the requested instance only: it never reads the state of all instances, and what it reconstructs is
    # the id it was asked for (reconstructing an instance that is live replaces its object - a request for one instance would reset another)
    ens = restore_function(idx)
    ep = params(ens.node)[1] if len(params(ens.node)) > 1 else "instance_uuid"
    bulk = [c for c in iter_calls(ens.node, into_nested=True) if call_name(c) == "load_state"]
    res.check("OWNID", "the on-demand restore reads the requested instance's state only", not bulk, ens.loc(bulk[0]) if bulk else ens.loc(), ens.qual,
              src(bulk[0])[:80] if bulk else "load_instance(%s)" % ep,
              "_ensure_instance_exists loads the externalised state of *all* instances (%s) to serve a request for one: every other instance that "
              "has a state file is reconstructed over its live object and loses what was not yet externalised" % (src(bulk[0])[:50] if bulk else ""),
              key="OWNID/BptkServer._ensure_instance_exists/bulk-restore")
    # (a loop as such says nothing: a shared helper that reconstructs a list of states may be handed the one state that was loaded)
    # instance objects are used only via the local bound from get_instance(instance_uuid)
    # ---- statics -------------------------------------------------------------------------------------------------------------
    nstat = 0
    for rel, cname in ((SERVER, "InstanceManager"), (SERVER, "BptkServer"), (BPTK, "bptk"), (BPTK, "conf"),
                       ("BPTK_Py/scenariomanager/scenario.py", "SimulationScenario"), ("BPTK_Py/scenariomanager/scenario_manager_sd.py", "ScenarioManagerSd"),
                       ("BPTK_Py/scenariomanager/scenario_manager_factory.py", "ScenarioManagerFactory"),
                       ("BPTK_Py/scenariorunners/sd_runner.py", "SdRunner"), ("BPTK_Py/sdsimulation/sd_simulation.py", "SdSimulation"),
                       ("BPTK_Py/modeling/model.py", "Model")):
        c = idx.cls(rel, cname)
        for n in c.node.body:
            if isinstance(n, (ast.Assign, ast.AnnAssign)):
                v = n.value
                tg = n.targets[0] if isinstance(n, ast.Assign) else n.target
                if isinstance(v, (ast.Dict, ast.List, ast.Set)) or (isinstance(v, ast.Call) and call_name(v) in ("dict", "list", "set", "defaultdict")):
                    if isinstance(tg, ast.Name) and _read_only_table(idx, tg.id):
                        res.ob("STATICS", "%s.%s is a look-up table that is only ever read" % (cname, tg.id), True, nontrivial=False)
                        continue
                    if isinstance(tg, ast.Name) and _pure_value_memo(c, tg.id):
                        res.ob("STATICS", "%s.%s remembers immutable values of a pure function under a key that determines them" % (cname, tg.id), True, nontrivial=False)
                        continue
                    nstat += 1
                    res.check("STATICS", "%s.%s is not a class-level mutable" % (cname, src(tg)), False, "%s:%d" % (rel, n.lineno), cname, norm_stmt(n)[:80],
                              "%s.%s is a mutable object shared by every instance of the class: state written through it leaks between "
                              "server instances" % (cname, src(tg)), key="STATICS/%s.%s/class-level" % (cname, src(tg)))
    res.ob("STATICS", "class-level mutables on the session path: %d" % nstat, nstat == 0)
    # module-level objects written from bptk / server code
    nmod = 0
    for rel in (BPTK, SERVER):
        m = idx.modules[rel]
        for fi in m.functions.values():
            for n in walk_no_nested(fi.node):
                tg = []
                if isinstance(n, ast.Assign):
                    tg = n.targets
                elif isinstance(n, ast.AugAssign):
                    tg = [n.target]
                for t in tg:
                    base = t
                    while isinstance(base, (ast.Subscript, ast.Attribute)):
                        if isinstance(base, ast.Attribute) and isinstance(base.value, ast.Name):
                            break
                        base = base.value
                    d = dotted(base) if isinstance(base, ast.Attribute) else None
                    if d is None:
                        continue
                    root = d.split(".")[0]
                    if root in ("self", "resp", "instance", "scenario", "state", "manager", "df", "plt", "progress_widget", "scenario_object") or root in params(fi.node):
                        continue
                    if root in m.imports or root in ("config", "logmod", "default_config"):
                        nmod += 1
                        key = d if d in SHARED_WRITES_ALLOWED else (root + "." + d.split(".")[1])
                        ok = key in SHARED_WRITES_ALLOWED and fi.qual in ("bptk.__init__", "conf.__init__")
                        res.check("STATICS", "%s writes %s (%s)" % (fi.qual, d, SHARED_WRITES_ALLOWED.get(key, "not allow-listed")[:40]), ok, fi.loc(n), fi.qual,
                                  norm_stmt(n)[:100], "%s writes the module-level object %s outside construction: process-wide state reachable "
                                  "from a request" % (fi.qual, d), key="STATICS/%s/%s" % (fi.qual, d))
    res.floor("module-level writes examined", nmod, 3)
    # module-level containers that hold mutable values and are used by session-path code: unless deep-copied, every bptk object of
    # the process shares the nested objects (a shallow ** / dict() / .copy() copies the container only)
    for rel in (BPTK, SERVER):
        m = idx.modules[rel]
        for st in m.tree.body:
            if not (isinstance(st, ast.Assign) and isinstance(st.targets[0], ast.Name) and isinstance(st.value, (ast.Dict, ast.List, ast.Set))):
                continue
            gname = st.targets[0].id
            vals = st.value.values if isinstance(st.value, ast.Dict) else st.value.elts
            nested = [v for v in vals if isinstance(v, (ast.Dict, ast.List, ast.Set))]
            for fi in m.functions.values():
                for n in walk_no_nested(fi.node):
                    if isinstance(n, ast.Name) and n.id == gname and isinstance(n.ctx, ast.Load):
                        # deep copies are fine
                        deep = any(isinstance(c, ast.Call) and call_name(c) == "deepcopy" and any(x is n for x in ast.walk(c)) for c in ast.walk(fi.node))
                        ok = deep or not nested
                        res.check("STATICS", "%s uses the module-level container %s without sharing nested objects" % (fi.qual, gname), ok,
                                  fi.loc(n), fi.qual, "%s = %s" % (gname, src(st.value)[:60]),
                                  "%s reads the module-level container %s, whose values include mutable objects (%s), without a deep copy: "
                                  "every bptk object of the process - i.e. every server instance - then writes into the same nested objects"
                                  % (fi.qual, gname, ", ".join(src(v) for v in nested)[:60]), key="STATICS/%s/module-template-%s" % (fi.qual, gname))
    from ..util import shared_templates
    for fi_, tname, node_, lit_, nested_ in shared_templates(idx, ["BPTK_Py/externalstateadapter/externalStateAdapter.py", SERVER]):
        res.find("STATICS", "STATICS/%s/class-template-%s" % (fi_.qual, tname), fi_.loc(node_), fi_.qual, "%s = %s" % (tname, lit_),
                 "%s uses the class-level template %s without a deep copy: the nested %s is shared by all instances of the process" % (fi_.qual, tname, nested_))
    # mutable default arguments written in place on the session path
    for qual in ("bptk.begin_session", "bptk.run_step", "bptk.run_scenarios", "bptk.session_results", "bptk.end_session"):
        fi = idx.func(BPTK, qual)
        a = fi.node.args
        defaults = dict(zip([x.arg for x in a.args[len(a.args) - len(a.defaults):]], a.defaults))
        for pn, dv in defaults.items():
            if not isinstance(dv, (ast.Dict, ast.List)):
                continue
            rebinds = [seq(n) for n in walk_no_nested(fi.node) if isinstance(n, ast.Assign) and isinstance(n.targets[0], ast.Name) and n.targets[0].id == pn]
            first_rebind = min(rebinds) if rebinds else 10 ** 9
            writes = [n for n in walk_no_nested(fi.node) if isinstance(n, ast.Assign) and isinstance(n.targets[0], ast.Subscript)
                      and isinstance(n.targets[0].value, ast.Name) and n.targets[0].value.id == pn and seq(n) < first_rebind]
            stored = [n for n in walk_no_nested(fi.node) if isinstance(n, ast.Dict) and any(isinstance(v, ast.Name) and v.id == pn for v in n.values)
                      and seq(n) < first_rebind]
            if writes and pn == "series_names":
                res.note("%s(%s=%s) is written in place (%s): a process-wide rename table; it only affects the 'df' return format, "
                         "which no REST handler uses" % (qual, pn, src(dv), norm_stmt(writes[0])[:50]))
                continue
            if stored and not writes:
                # stored into the session dictionary: harmful only if somebody writes *into* that entry
                inner = []
                for f2 in list(idx.all_funcs(BPTK)) + list(idx.all_funcs("BPTK_Py/server/")):
                    for n2 in walk_no_nested(f2.node):
                        if isinstance(n2, ast.Call) and call_name(n2) in ("append", "extend", "update", "pop", "clear", "insert") and \
                                isinstance(n2.func.value, ast.Subscript) and const_str(n2.func.value.slice) == pn and "session_state" in src(n2.func.value.value):
                            inner.append(n2)
                        if isinstance(n2, ast.Assign) and isinstance(n2.targets[0], ast.Subscript) and isinstance(n2.targets[0].value, ast.Subscript) \
                                and const_str(n2.targets[0].value.slice) == pn and "session_state" in src(n2.targets[0].value.value):
                            inner.append(n2)
                if not inner:
                    res.ob("STATICS", "%s: default %s=%s is stored in the session state but never written into" % (qual, pn, src(dv)), True)
                    continue
                writes = inner
            res.check("STATICS", "%s: default %s=%s not written in place" % (qual, pn, src(dv)), not writes and not stored,
                      fi.loc(writes[0] if writes else stored[0]) if (writes or stored) else fi.loc(), fi.qual,
                      norm_stmt(writes[0])[:80] if writes else (src(stored[0])[:60] if stored else ""),
                      "%s writes into / stores its mutable default argument %s: the one default object is shared by every bptk object of "
                      "the process" % (qual, pn), key="STATICS/%s/default-%s" % (qual, pn))
