"""C01 (DSL = explicit Euler: template shapes, time pass-through) and C02
(grouping of DSL expressions: hole-safety table) over the SD-DSL code generator."""
from __future__ import annotations

import ast
from typing import Dict, List, Optional, Set, Tuple

from ..core import (AnalysisError, FuncInfo, Index, Result, call_name, dotted, iter_calls, norm_stmt, src,
                    walk_no_nested)
from ..nf import graft, nf, parse_expr, root_kind
from ..templates import (SIGNS, Hole, Lit, Opq, Parts, Path, Rep, SNone, SStr, TermEval, TimeRef, hole_keys,
                         ident_list, parts_text, render, role_names)
from ..util import const_int, params, single_assignments

OPS = "BPTK_Py/sddsl/operators.py"
ELEMENT = "BPTK_Py/sddsl/element.py"
STOCK = "BPTK_Py/sddsl/stock.py"
FLOW = "BPTK_Py/sddsl/flow.py"
CONSTANT = "BPTK_Py/sddsl/constant.py"
FUNCTIONS = "BPTK_Py/sddsl/functions.py"
MODEL = "BPTK_Py/modeling/model.py"
SDSIM = "BPTK_Py/sdsimulation/sd_simulation.py"

# the vocabulary C02 speaks about: + - * / ** % unary minus, comparisons, If/And/Or/Not,
# min/max/abs/sqrt/exp/round, array aggregates, numbers and elements
C02_VOCAB = ["AdditionOperator", "SubtractionOperator", "MultiplicationOperator", "NumericalMultiplicationOperator",
             "DivisionOperator", "PowerOperator", "ModOperator", "ComparisonOperator", "If", "And", "Or", "Not",
             "MinOperator", "MaxOperator", "AbsOperator", "Sqrt", "Exp", "Round", "ArraySumOperator",
             "ArrayProductOperator", "ArrayMeanOperator", "ArrayMedianOperator", "ArrayStandardDeviationOperator",
             "ArrayRankOperator", "ArraySizeOperator", "UnaryOperator", "DotOperator"]
ATOM = "model.memoize('x',t)"

# A.7 time-invariant operands (role -> reason): the public constructor rejects anything but float | Constant
TIME_INVARIANT = {
    ("Delay", "delay_duration"): "a delay duration is read once, at the start time (documented shift)",
    ("Delay", "input_function"): "the initial branch of a delay reads the input at the start time by definition",
}


def ctor_guards(idx: Index) -> Dict[Tuple[str, str], Set[str]]:
    """(operator class, role) -> type names the public constructor in sddsl/functions.py accepts for that operand.
    Filled from the isinstance guards of the functions on every run."""
    out: Dict[Tuple[str, str], Set[str]] = {}
    m = idx.module(FUNCTIONS)
    for q, fi in m.functions.items():
        if fi.cls or "." in q:
            continue
        allowed: Dict[str, Set[str]] = {}

        def types_of(t: ast.AST) -> Set[str]:
            elts = t.elts if isinstance(t, ast.Tuple) else [t]
            return {(dotted(e) or src(e)).split(".")[-1] for e in elts}
        for n in fi.node.body:          # guards at the top level of the constructor: a guard under another condition does not always run
            if not isinstance(n, ast.If):
                continue
            raises_body = any(isinstance(x, ast.Raise) for b in n.body for x in ast.walk(b))
            raises_else = any(isinstance(x, ast.Raise) for b in n.orelse for x in ast.walk(b))
            t = n.test
            conj = t.values if isinstance(t, ast.BoolOp) and isinstance(t.op, ast.And) else [t]
            for c in conj:
                neg = isinstance(c, ast.UnaryOp) and isinstance(c.op, ast.Not)
                call = c.operand if neg else c
                if isinstance(call, ast.Call) and call_name(call) == "isinstance" and isinstance(call.args[0], ast.Name):
                    if (neg and raises_body) or (not neg and raises_else):
                        ts = types_of(call.args[1])
                        if len(conj) > 1:
                            ts = ts | {"None"}
                        allowed[call.args[0].id] = ts
        if not allowed:
            continue
        for r in [x for x in ast.walk(fi.node) if isinstance(x, ast.Return) and isinstance(x.value, ast.Call)]:
            cname = call_name(r.value)
            ci = idx.modules[OPS].classes.get(cname)
            if ci is None or "__init__" not in ci.methods:
                continue
            cps = params(ci.methods["__init__"][-1].node)[1:]
            for cp, a in zip(cps, r.value.args):
                if isinstance(a, ast.Name) and a.id in allowed:
                    out[(cname, cp)] = allowed[a.id]
    return out


ATOMIC_TYPES = {"Element", "float", "int", "Constant", "Converter", "None"}
CONSTANT_TYPES = {"float", "int", "Constant", "None"}


def extract_handles_element(idx: Index) -> Tuple[bool, FuncInfo]:
    """Does ``extractTerm`` render an Element at the requested time?"""
    fi = idx.func(OPS, "extractTerm")
    obj, tm = params(fi.node)[:2]
    rets = [n for n in walk_no_nested(fi.node) if isinstance(n, ast.Return)]
    if len(rets) != 1:
        raise AnalysisError("extractTerm has %d return statements" % len(rets))
    v = rets[0].value
    if not (isinstance(v, ast.IfExp) and isinstance(v.body, ast.Call) and call_name(v.body) == "term"
            and [src(a) for a in v.body.args] == [tm] and src(v.orelse) == obj):
        raise AnalysisError("extractTerm has an unrecognised shape: %s" % src(v))
    t = v.test
    if isinstance(t, ast.Call) and call_name(t) == "hasattr" and len(t.args) == 2 and src(t.args[0]) == obj \
            and isinstance(t.args[1], ast.Constant) and t.args[1].value == "term":
        return True, fi
    if isinstance(t, ast.Call) and call_name(t) == "isinstance" and src(t.args[0]) == obj:
        classes = t.args[1].elts if isinstance(t.args[1], ast.Tuple) else [t.args[1]]
        names = {(dotted(c) or "").split(".")[-1] for c in classes}
        if "Operator" not in names:
            raise AnalysisError("extractTerm no longer renders Operators")
        return "Element" in names, fi
    raise AnalysisError("extractTerm test has an unrecognised shape: %s" % src(t))


class Renderer:
    def __init__(self, cls: str, fi: FuncInfo, conds, parts: Parts):
        self.cls = cls
        self.fi = fi
        self.conds = conds
        self.parts = parts

    @property
    def text(self) -> str:
        return parts_text(self.parts)


def dsl_renderers(idx: Index, res: Optional[Result] = None) -> Tuple[List[Renderer], Dict[str, int]]:
    """All return paths of all ``term`` methods of the DSL."""
    ext_ok, _ = extract_handles_element(idx)
    out: List[Renderer] = []
    stats = {"term_methods": 0, "return_paths": 0, "raise_paths": 0, "none_paths": 0}
    files = [OPS, ELEMENT]
    for rel in files:
        m = idx.module(rel)
        for q, fi in m.functions.items():
            if fi.name != "term" or not fi.cls or "." in q.replace(fi.cls + ".", "", 1):
                continue
            stats["term_methods"] += 1
            tp = params(fi.node)[1] if len(params(fi.node)) > 1 else None
            paths = TermEval(idx, fi, time_param=tp, extract_handles_element=ext_ok).run()
            for p in paths:
                if p.raised:
                    stats["raise_paths"] += 1
                    continue
                if isinstance(p.result, SStr):
                    stats["return_paths"] += 1
                    out.append(Renderer(fi.cls, fi, p.conds, p.result.parts))
                else:
                    stats["none_paths"] += 1     # abstract bases: `pass` / `super().__init__()`
    return out, stats


def inner_texts(renderers: List[Renderer], vocab: Set[str]) -> List[Tuple[str, str, str]]:
    """(label, text, root kind) of every rendering in *vocab* with atoms in its holes."""
    out: List[Tuple[str, str, str]] = [("element", ATOM, "atom"), ("negative number", "-1.0", "unary"),
                                       ("number", "2.0", "atom")]
    seen = {t for _, t, _ in out}
    for r in renderers:
        if r.cls not in vocab:
            continue
        names = role_names(r.parts)
        for sign in SIGNS if any(isinstance(p, Opq) and p.kind == "sign" for p in r.parts) else ["<"]:
            for n in (1, 2):
                txt = render(r.parts, "t", names, rep_n=n, sign=sign)
                # holes as distinct single-letter atoms
                try:
                    tree = parse_expr(txt)
                except SyntaxError:
                    continue
                if txt in seen:
                    continue
                seen.add(txt)
                out.append((r.cls, txt, root_kind(tree)))
    return out


_GUARDS: Dict[int, Dict[Tuple[str, str], Set[str]]] = {}


def r1_check(r: Renderer, inners: List[Tuple[str, str, str]], rep_n: int, signs: List[str], guards=None):
    """Yield (ident, hole, inner_label, inner_text, inner_kind, safe, substituted_text)."""
    names = role_names(r.parts)
    has_sign = any(isinstance(p, Opq) and p.kind == "sign" for p in r.parts)
    for sign in (signs if has_sign else ["<"]):
        base = render(r.parts, "t", names, rep_n=rep_n, sign=sign)
        try:
            base_tree = parse_expr(base)
        except SyntaxError:
            raise AnalysisError("template of %s does not parse as an expression: %r" % (r.fi.qual, base))
        for ident, hole in ident_list(r.parts, names, rep_n):
            cand = inners if hole.domain != "element" else [x for x in inners if x[0] == "element"]
            g = (guards or {}).get((r.cls, hole.role.replace("[]", "").replace("[*]", "")))
            if g is not None and g <= ATOMIC_TYPES:
                # the public constructor accepts only elements / numbers here: these render as atoms
                cand = [x for x in cand if x[0] in ("element", "negative number", "number")]
            for label, utext, ukind in cand:
                sub = render(r.parts, "t", names, rep_n=rep_n, sign=sign, subst={ident: utext})
                try:
                    got = nf(parse_expr(sub))
                    want = nf(graft(base_tree, {ident: parse_expr(utext)}))
                    safe = got == want
                except SyntaxError:
                    safe = False
                yield ident, hole, label, utext, ukind, safe, sub


def _r1_table(res: Result, renderers: List[Renderer], outer_vocab: Set[str], inners, tier: str, rule: str, prop: str,
              guards=None) -> int:
    rep_ns = [2] if tier == "quick" else [1, 2, 3, 4]
    signs = ["<", "=="] if tier == "quick" else SIGNS
    triples = 0
    unsafe: Dict[Tuple[str, str, str], Tuple[Renderer, str, str, str]] = {}
    for r in renderers:
        if r.cls not in outer_vocab:
            continue
        per_role: Dict[str, bool] = {}
        for rep_n in rep_ns:
            if rep_n != 2 and not any(isinstance(p, Rep) for p in r.parts):
                continue
            for ident, hole, label, utext, ukind, safe, sub in r1_check(r, inners, rep_n, signs, guards):
                triples += 1
                per_role[hole.role] = per_role.get(hole.role, True) and safe
                if not safe:
                    unsafe.setdefault((r.cls, hole.role, ukind), (r, label, utext, sub))
        for role, ok in per_role.items():
            res.ob(rule, "%s.term hole %s in '%s'" % (r.cls, role, r.text[:70]), ok)
    for (cls, role, ukind), (r, label, utext, sub) in sorted(unsafe.items(), key=lambda kv: kv[0]):
        res.find(rule, "%s/%s.term/%s/inner=%s" % (rule, cls, role, ukind), r.fi.loc(), r.fi.qual,
                 "template %s" % r.text[:120],
                 "operand '%s' is spliced without being kept as a unit: with a %s operand (%s) the text becomes %s, "
                 "which Python groups differently from the expression tree that was built" % (role, label, utext, sub[:140]))
    return triples


# ---------------------------------------------------------------------------
# C02
# ---------------------------------------------------------------------------

NONCOMMUTATIVE = {"__sub__": "SubtractionOperator", "__truediv__": "DivisionOperator", "__pow__": "PowerOperator",
                  "__mod__": "ModOperator", "__gt__": "ComparisonOperator", "__lt__": "ComparisonOperator",
                  "__le__": "ComparisonOperator", "__ge__": "ComparisonOperator"}
REFLECTED = {"__rsub__": "SubtractionOperator", "__rtruediv__": "DivisionOperator", "__rpow__": "PowerOperator",
             "__rmod__": "ModOperator"}
COMMUTATIVE = {"__add__": "AdditionOperator", "__radd__": "AdditionOperator", "__mul__": "MultiplicationOperator",
               "__eq__": "ComparisonOperator", "__ne__": "ComparisonOperator"}
CMP_SIGN = {"__gt__": ">", "__lt__": "<", "__le__": "<=", "__ge__": ">=", "__eq__": "==", "__ne__": "!="}


def _dunder_checks(idx: Index, res: Result) -> int:
    n = 0
    for rel, cname in ((ELEMENT, "Element"), (OPS, "Operator")):
        ci = idx.cls(rel, cname)
        for name, defs in ci.methods.items():
            fi = defs[-1]
            if not (name.startswith("__") and name.endswith("__")) or name in ("__init__", "__str__", "__call__", "__getitem__",
                                                                                "__setitem__", "__neg__"):
                continue
            rets = [r for r in walk_no_nested(fi.node) if isinstance(r, ast.Return) and isinstance(r.value, ast.Call)]
            if len(rets) != 1:
                continue
            call = rets[0].value
            ps = params(fi.node)
            if len(ps) != 2:
                continue
            me, other = ps
            args = [src(a) for a in call.args]
            built = call_name(call)
            n += 1
            if name in NONCOMMUTATIVE:
                ok = args[:2] == [me, other] and built == NONCOMMUTATIVE[name]
                res.check("ORDER", "%s.%s builds %s(self, other)" % (cname, name, NONCOMMUTATIVE[name]), ok, fi.loc(), fi.qual,
                          src(call), "%s.%s builds %s: operands of a non-commutative operator are swapped or the wrong "
                          "operator is built" % (cname, name, src(call)), key="ORDER/%s.%s" % (cname, name))
            elif name in REFLECTED:
                ok = args[:2] == [other, me] and built == REFLECTED[name]
                res.check("ORDER", "%s.%s builds %s(other, self)" % (cname, name, REFLECTED[name]), ok, fi.loc(), fi.qual,
                          src(call), "%s.%s builds %s: the reflected form must put the other operand first" % (cname, name, src(call)),
                          key="ORDER/%s.%s" % (cname, name))
            elif name in COMMUTATIVE:
                ok = set(args[:2]) == {me, other} and built in (COMMUTATIVE[name], "NumericalMultiplicationOperator")
                res.check("ORDER", "%s.%s builds %s" % (cname, name, COMMUTATIVE[name]), ok, fi.loc(), fi.qual, src(call),
                          "%s.%s builds %s" % (cname, name, src(call)), key="ORDER/%s.%s" % (cname, name))
            elif name == "__rmul__":
                ok = set(args[:2]) == {me, other}
                res.check("ORDER", "%s.%s multiplies both operands" % (cname, name), ok, fi.loc(), fi.qual, src(call),
                          "%s.%s builds %s" % (cname, name, src(call)), key="ORDER/%s.%s" % (cname, name))
            if name in CMP_SIGN:
                ok = len(args) == 3 and args[2].strip("'\"") == CMP_SIGN[name]
                res.check("ORDER", "%s.%s passes the sign %s" % (cname, name, CMP_SIGN[name]), ok, fi.loc(), fi.qual, src(call),
                          "%s.%s builds a comparison with sign %s" % (cname, name, args[2:] or "?"), key="ORDER/%s.%s/sign" % (cname, name))
        # the six rich comparisons are methods of the class, each with its own sign (hooks installed some other way - generated in a
        # loop, assigned from lambdas - cannot be shown to pass the right sign)
        for hook in sorted(CMP_SIGN):
            res.check("ORDER", "%s defines %s" % (cname, hook), hook in ci.methods, "%s:%d" % (rel, ci.node.lineno), cname, hook,
                      "%s.%s is not defined as a method of the class: the comparison it builds (and its sign) cannot be read off the class"
                      % (cname, hook), key="ORDER/%s.%s/not-a-method" % (cname, hook))
        # unary minus: (-1) * self
        neg = ci.methods.get("__neg__")
        if neg:
            call = [r.value for r in walk_no_nested(neg[-1].node) if isinstance(r, ast.Return)][0]
            ok = isinstance(call, ast.Call) and call_name(call) == "NumericalMultiplicationOperator" and \
                sorted(src(a).replace("(", "").replace(")", "") for a in call.args) in (["-1", "self"], ["-1.0", "self"])
            res.check("ORDER", "%s.__neg__ = (-1) * self" % cname, ok, neg[-1].loc(), neg[-1].qual, src(call),
                      "unary minus builds %s" % src(call), key="ORDER/%s.__neg__" % cname)
            n += 1
    # expression nodes are values: an arithmetic/comparison dunder builds a new node, it never edits or returns its receiver
    # (an expression object kept in a Python variable can be used in several equations)
    DUNDERS = set(NONCOMMUTATIVE) | set(REFLECTED) | set(COMMUTATIVE) | set(CMP_SIGN) | {"__neg__", "__pos__", "__rmul__", "__abs__", "__invert__"}
    for rel in (ELEMENT, OPS):
        for cname, ci in idx.module(rel).classes.items():
            for name, defs in ci.methods.items():
                if name not in DUNDERS:
                    continue
                fi = defs[-1]
                n += 1
                stores = [x for x in ast.walk(fi.node) if isinstance(x, (ast.Attribute, ast.Subscript)) and isinstance(x.ctx, (ast.Store, ast.Del))]
                muts = [c for c in iter_calls(fi.node) if call_name(c) in ("append", "extend", "insert", "pop", "remove", "clear", "update", "setdefault", "sort", "reverse")]
                rets_self = [r for r in walk_no_nested(fi.node) if isinstance(r, ast.Return) and isinstance(r.value, ast.Name) and r.value.id == params(fi.node)[0]]
                bad = stores or muts or rets_self
                res.check("ORDER", "%s.%s builds a new node" % (cname, name), not bad, fi.loc(bad[0]) if bad else fi.loc(), fi.qual,
                          norm_stmt(bad[0])[:90] if bad else "",
                          "%s.%s %s: the operand object is changed in place, so every other equation that uses the same sub-expression object "
                          "changes with it" % (cname, name, "stores into %s" % src(stores[0]) if stores else ("mutates %s" % src(muts[0].func.value) if muts else "returns its receiver")),
                          key="ORDER/%s.%s/in-place" % (cname, name))
    return n


OVERLOADED_CMP = (ast.Eq, ast.NotEq, ast.Lt, ast.LtE, ast.Gt, ast.GtE)


def _test_positions(fn: ast.AST):
    """Expressions evaluated for their Python truth value inside *fn*."""
    for n in ast.walk(fn):
        if isinstance(n, (ast.If, ast.While, ast.IfExp)):
            yield n.test
        elif isinstance(n, ast.Call) and isinstance(n.func, ast.Name) and n.func.id in ("all", "any") and len(n.args) == 1 \
                and isinstance(n.args[0], (ast.GeneratorExp, ast.ListComp)):
            yield n.args[0].elt               # all(a == b for ...): every element is taken for its truth value
        elif isinstance(n, ast.BoolOp):
            for v in n.values[:-1]:
                yield v                       # every operand of and/or but the last decides by its truth value
        elif isinstance(n, ast.Assert):
            yield n.test
        elif isinstance(n, ast.UnaryOp) and isinstance(n.op, ast.Not):
            yield n.operand
        elif isinstance(n, ast.comprehension):
            for c in n.ifs:
                yield c


def _operand_truth(idx: Index, res: Result) -> int:
    """TRUTH: Element and Operator overload == != < <= > >= to *build* a comparison operator (an object, always truthy).
    A public constructor of sddsl/functions.py (and an operator's __init__) that takes such a comparison of one of its operands as a
    Python condition therefore decides on the object's truthiness, never on a value: the branch taken is the same for every DSL
    operand and the expression the user wrote is silently replaced."""
    n_inst = 0
    cands: List[Tuple[FuncInfo, Set[str]]] = []
    m = idx.module(FUNCTIONS)
    for q, fi in m.functions.items():
        if fi.cls or "." in q:
            continue
        operands: Set[str] = set()
        ps = set(params(fi.node))
        for r in [x for x in ast.walk(fi.node) if isinstance(x, ast.Return) and isinstance(x.value, ast.Call)]:
            for a in list(r.value.args) + [k.value for k in r.value.keywords]:
                operands |= {x.id for x in ast.walk(a) if isinstance(x, ast.Name) and x.id in ps}
        operands.discard("model")
        if operands:
            cands.append((fi, operands))
    for cname, ci in idx.module(OPS).classes.items():
        if "__init__" in ci.methods and "Operator" in {c.name for c in idx.mro(ci)}:
            fi = ci.methods["__init__"][-1]
            ops = set(params(fi.node)[1:]) - {"model", "sign", "name", "index"}
            if ops:
                cands.append((fi, ops))
    # setters of Element classes (equation, initial_value, ...): the new value and the stored one may both be DSL objects
    STORED = {"_equation", "__initial_value", "_initial_value"}
    for rel in (ELEMENT, STOCK, FLOW, "BPTK_Py/sddsl/biflow.py", "BPTK_Py/sddsl/converter.py", "BPTK_Py/sddsl/constant.py"):
        if rel not in idx.modules:
            continue
        for q, fi in idx.modules[rel].functions.items():
            if q.endswith(".setter") and fi.cls:
                ps_ = set(params(fi.node)[1:])
                if ps_:
                    cands.append((fi, ps_))

    def dsl_side(e: ast.AST, operands: Set[str]) -> Optional[str]:
        if isinstance(e, ast.Name) and e.id in operands:
            return e.id
        if isinstance(e, ast.Attribute) and isinstance(e.value, ast.Name) and e.value.id == "self":
            a = e.attr
            if a in STORED or any(a.endswith(x) for x in STORED):
                return "self." + a
        return None

    def numeric_test(v: ast.AST) -> Optional[str]:
        """source text of the expression a conjunct proves to be a plain number, else None"""
        if isinstance(v, ast.Call) and call_name(v) == "isinstance" and len(v.args) == 2 and \
                {x.id for x in ast.walk(v.args[1]) if isinstance(x, ast.Name)} <= {"int", "float", "bool", "complex"}:
            return src(v.args[0])
        if isinstance(v, ast.Compare) and len(v.ops) == 1 and isinstance(v.ops[0], (ast.Is, ast.In)) and isinstance(v.left, ast.Call) \
                and call_name(v.left) == "type" and {x.id for x in ast.walk(v.comparators[0]) if isinstance(x, ast.Name)} <= {"int", "float", "bool"} \
                and {x.id for x in ast.walk(v.comparators[0]) if isinstance(x, ast.Name)}:
            return src(v.left.args[0])
        return None
    for fi, operands in cands:
        n_inst += 1
        bad = None
        for t in _test_positions(fi.node):
            # `isinstance(x, (int, float)) and x == 0`: the comparison is only reached for plain numbers - on *both* sides
            numeric_guarded: Set[int] = set()
            for bo in [b for b in ast.walk(t) if isinstance(b, ast.BoolOp) and isinstance(b.op, ast.And)]:
                guarded: Set[str] = set()
                for v in bo.values:
                    g = numeric_test(v)
                    if g is not None:
                        guarded.add(g)
                        continue
                    for c in ast.walk(v):
                        if isinstance(c, ast.Compare) and all(dsl_side(s_, operands) is None or src(s_) in guarded for s_ in [c.left] + list(c.comparators)):
                            numeric_guarded.add(id(c))
            for c in ast.walk(t):
                if isinstance(c, ast.Compare) and any(isinstance(o, OVERLOADED_CMP) for o in c.ops) and id(c) not in numeric_guarded:
                    sides = [c.left] + list(c.comparators)
                    hit = [dsl_side(s_, operands) for s_ in sides if dsl_side(s_, operands)]
                    if hit:
                        bad = (c, hit[0])
        res.check("TRUTH", "%s: no overloaded comparison of an operand used as a Python condition" % fi.qual, bad is None,
                  fi.loc(bad[0]) if bad else fi.loc(), fi.qual, src(bad[0]) if bad else "",
                  "%s tests `%s` as a Python condition; when %s is an Element or Operator the overloaded comparison (also the reflected one of "
                  "a float on the left) builds an operator object, which is always truthy, so the same branch is taken whatever the operand is"
                  % (fi.qual, src(bad[0]) if bad else "", bad[1] if bad else ""),
                  key="TRUTH/%s/%s" % (fi.qual, bad[1] if bad else ""))
    return n_inst


def _operand_truth_in_operators(idx: Index, res: Result) -> int:
    """TRUTH inside operators.py itself: a method of an operator class (or a module-level helper it hands its operands to) that takes
    `x == y` / `x != y` for its truth value where x or y is one of the operator's *operands* (self.element, self.element_1/2, a member of
    self.args, or a local that such a value flows into - tuple unpacking, a helper that hands its parameter back, iteration over a
    tuple / zip of such values).  An operand may be an Operator, whose == builds a ComparisonOperator: always true."""
    m = idx.module(OPS)
    OPERAND_ATTRS = {"element", "element_1", "element_2", "condition", "then_", "else_"}
    # module-level helpers: which positions of the returned tuple are a parameter handed back
    hands_back: Dict[str, Dict[int, int]] = {}
    for q, fi in m.functions.items():
        if fi.cls or "." in q:
            continue
        ps = params(fi.node)
        pos: Dict[int, Set[int]] = {}
        rets = [r for r in walk_no_nested(fi.node) if isinstance(r, ast.Return) and r.value is not None]
        for r in rets:
            elts = r.value.elts if isinstance(r.value, ast.Tuple) else [r.value]
            for i, e in enumerate(elts):
                if isinstance(e, ast.Name) and e.id in ps:
                    pos.setdefault(i, set()).add(ps.index(e.id))
        if pos:
            hands_back[fi.node.name] = {i: next(iter(v)) for i, v in pos.items() if len(v) == 1}
    n = 0
    for q, fi in m.functions.items():
        if not fi.cls or "Operator" not in {c.name for c in idx.mro(m.classes[fi.cls])} if fi.cls in m.classes else True:
            continue
        typed: Set[str] = set()

        def is_operand(e) -> bool:
            if isinstance(e, ast.Attribute) and isinstance(e.value, ast.Name) and e.value.id == "self" and e.attr in OPERAND_ATTRS:
                return True
            if isinstance(e, ast.Subscript) and dotted(e.value) == "self.args":
                return True
            return isinstance(e, ast.Name) and e.id in typed
        for _ in range(4):
            for a in ast.walk(fi.node):
                if isinstance(a, ast.Assign) and len(a.targets) == 1:
                    t, v = a.targets[0], a.value
                    if isinstance(t, ast.Name) and is_operand(v):
                        typed.add(t.id)
                    if isinstance(t, ast.Tuple) and isinstance(v, ast.Call) and isinstance(v.func, ast.Name) and v.func.id in hands_back:
                        for i, pi in hands_back[v.func.id].items():
                            if i < len(t.elts) and isinstance(t.elts[i], ast.Name) and pi < len(v.args) and is_operand(v.args[pi]):
                                typed.add(t.elts[i].id)
                if isinstance(a, (ast.comprehension, ast.For)):
                    it, tg = a.iter, a.target
                    srcs = [it]
                    if isinstance(it, ast.Call) and isinstance(it.func, ast.Name) and it.func.id == "zip":
                        srcs = list(it.args)
                    tgs = list(tg.elts) if isinstance(tg, ast.Tuple) and len(srcs) > 1 else [tg]
                    for s_, t_ in zip(srcs, tgs):
                        if isinstance(t_, ast.Name) and ((isinstance(s_, (ast.Tuple, ast.List)) and any(is_operand(x) for x in s_.elts)) or dotted(s_) == "self.args"):
                            typed.add(t_.id)
        bad = None
        for t in _test_positions(fi.node):
            for c in ast.walk(t):
                if isinstance(c, ast.Compare) and len(c.ops) == 1 and isinstance(c.ops[0], (ast.Eq, ast.NotEq)):
                    sides = [c.left, c.comparators[0]]
                    if any(is_operand(x) for x in sides) and not any(isinstance(x, ast.Constant) for x in sides):
                        bad = c
        n += 1
        if bad is not None:
            res.find("TRUTH", "TRUTH/%s/operand-compared-for-truth" % fi.qual, fi.loc(bad), fi.qual, src(bad)[:90],
                     "%s takes `%s` for its truth value; an operand may be an Operator, whose == / != build a ComparisonOperator object (always "
                     "true) instead of comparing: the test says 'equal' for any two operators" % (fi.qual, src(bad)[:70]))
    return n


def check_c02(idx: Index, tier: str, res: Result) -> None:
    res.explanation = ("Hole-safety table over the DSL's generated-text templates: every return path of every term() method in "
                       "the property's vocabulary is extracted by abstract string evaluation; for every operand hole and every "
                       "inner rendering of the vocabulary (plus a negative literal) the text obtained by splicing is parsed with "
                       "CPython's parser and compared, under a real-arithmetic normal form, with the tree obtained by grafting "
                       "the inner tree at the hole. All triples safe => every expression tree of every depth renders to text "
                       "with the tree's value (induction over depth: in an operator-precedence grammar whether U is kept as a "
                       "unit depends only on the context and U's root operator). Plus operand order of every arithmetic/"
                       "comparison dunder of Element and Operator.")
    res.rules = ["R1: nf(parse(T[h:=U])) == nf(graft(parse(T), h, parse(U))) for all (T, h, U)",
                 "OPID: every return path's parsed template equals the class's reference expression (normal form)",
                 "ORDER: dunder builds (self, other) / reflected (other, self) with the right operator class and sign",
                 "TRUTH: no overloaded comparison (== != < <= > >=) of an operand in a Python test position of a public constructor"]
    res.not_decided = ["that eval() of the text computes ordinary arithmetic (trusted: CPython)", "values near discontinuities",
                       "float re-association error of sums/products (a+(b-c) -> a+b-c is accepted: same real value)"]
    res.assumptions = ["CPython's parser", "real-number semantics for + - * /", "operator-precedence locality (induction step)"]
    res.floor("operator methods scanned for operand comparisons taken as conditions", _operand_truth_in_operators(idx, res), 60)
    renderers, stats = dsl_renderers(idx, res)
    res.floor("term methods", stats["term_methods"], 72)
    res.floor("return paths", stats["return_paths"], 100)
    vocab = set(C02_VOCAB)
    missing = vocab - {r.cls for r in renderers}
    if missing:
        raise AnalysisError("vocabulary classes without an extracted template: %s" % sorted(missing))
    inners = inner_texts(renderers, vocab)
    triples = _r1_table(res, renderers, vocab, inners, tier, "R1", "C02")
    nid = operator_identity(res, renderers, vocab)
    res.floor("operator-identity instances", nid, 40)
    nd = _dunder_checks(idx, res)
    res.floor("operator dunders on Element/Operator", nd, 30)
    from ..util import closure_sweep
    closure_sweep(idx, res, "ORDER", ["BPTK_Py/sddsl/"])
    # array aggregates refer to their members (late bound), they never splice a member's current number
    _r2(idx, res, [r for r in renderers if r.cls in vocab], floor=40)
    nt = _operand_truth(idx, res)
    # "unsupported nestings are rejected": the type guards of the public constructors run on every call
    ng = 0
    for q, fi in idx.module(FUNCTIONS).functions.items():
        if fi.cls or "." in q:
            continue
        ps_ = set(params(fi.node))
        for outer in [n for n in fi.node.body if isinstance(n, ast.If)]:
            for inner_if in [n for b in outer.body + outer.orelse for n in ast.walk(b) if isinstance(n, ast.If)]:
                gs = [c for c in ast.walk(inner_if.test) if isinstance(c, ast.Call) and call_name(c) == "isinstance" and isinstance(c.args[0], ast.Name) and c.args[0].id in ps_]
                raises = any(isinstance(x, ast.Raise) for b in inner_if.body + inner_if.orelse for x in ast.walk(b))
                outer_names = {x.id for x in ast.walk(outer.test) if isinstance(x, ast.Name)}
                for g in gs:
                    if raises and g.args[0].id not in outer_names:
                        ng += 1
                        res.find("TRUTH", "TRUTH/%s/%s/guard-under-unrelated-condition" % (fi.qual, g.args[0].id), fi.loc(inner_if), fi.qual, src(inner_if.test)[:80],
                                 "%s checks the type of %s only when `%s` holds: with the other outcome of that condition an operand of any kind is accepted, "
                                 "and the term() template that relies on the guard splices a compound operand unparenthesised" % (fi.qual, g.args[0].id, src(outer.test)[:50]))
    res.floor("public constructors / operator initialisers examined for operand truth tests", nt, 60)
    res.extra.update(stats)
    res.extra["r1_triples"] = triples
    res.extra["inner_texts"] = len(inners)
    res.samples += [{"template": r.text, "class": r.cls} for r in renderers if r.cls in vocab][:10]
    res.samples.append({"inner_texts": [t for _, t, _ in inners][:12]})


# ---------------------------------------------------------------------------
# C01
# ---------------------------------------------------------------------------

def _build_strings(idx: Index, fi: FuncInfo, result_attr: Optional[str]) -> List[Path]:
    ext_ok, _ = extract_handles_element(idx)
    return [p for p in TermEval(idx, fi, time_param=None, extract_handles_element=ext_ok, result_attr=result_attr).run()
            if not p.raised]


def _lambda_of(text: str, who: str) -> ast.Lambda:
    try:
        tree = parse_expr(text)
    except SyntaxError:
        raise AnalysisError("function string of %s does not parse: %r" % (who, text))
    if not isinstance(tree, ast.Lambda) or [a.arg for a in tree.args.args] != ["model", "t"]:
        raise AnalysisError("function string of %s is not 'lambda model, t: ...': %r" % (who, text))
    return tree


def _hole_time_text(h: Hole) -> str:
    if h.time is None:
        return "t"                     # __str__ -> term("t")
    return render(h.time, "t", {}, sign="<")


def _shape_stock(idx: Index, res: Result) -> None:
    fi = idx.func(STOCK, "Stock.build_function_string")
    paths = [p for p in _build_strings(idx, fi, "_function_string") if isinstance(p.result, SStr)]
    if len(paths) < 3:
        raise AnalysisError("Stock.build_function_string: expected >= 3 paths, extracted %d" % len(paths))
    for p in paths:
        parts = p.result.parts
        names = role_names(parts)
        text = render(parts, "t", names)
        lam = _lambda_of(text, fi.qual)
        holes = {h.role: h for _, h in hole_keys(parts)}
        label = "Stock[%s]" % ", ".join("%s=%s" % (c[:38], v) for c, v in p.conds)
        body = lam.body
        if not isinstance(body, ast.IfExp):
            raise AnalysisError("stock function string is not a conditional: %r" % text)
        init_name = names.get("__initial_value")
        ok = nf(body.test) == nf("t <= model.starttime")
        res.check("SHAPE", "%s initial branch taken for t <= starttime" % label, ok, fi.loc(), fi.qual, src(body.test),
                  "the stock's initial-value test is '%s', not 't <= model.starttime': the first grid point would recurse "
                  "before the start time / skip the initial value" % src(body.test), key="SHAPE/Stock/initial-test")
        ok = init_name is not None and nf(body.body) == nf(init_name)
        res.check("SHAPE", "%s initial branch yields the initial value" % label, ok, fi.loc(), fi.qual, src(body.body),
                  "the initial branch is %s" % src(body.body), key="SHAPE/Stock/initial-value")
        eq = names.get("_equation")
        if eq is None:
            want = "model.memoize('f', t - model.dt)"
        else:
            want = "model.memoize('f', t - model.dt) + model.dt * %s" % eq
        got = nf(body.orelse)
        if got != nf(want):
            why = "the update branch is '%s', expected '%s'" % (src(body.orelse), want)
            if eq and got == nf("model.memoize('f', t - model.dt) + %s" % eq):
                why = "the net flow is not multiplied by model.dt: " + why
            elif eq and got == nf("model.memoize('f', t) + model.dt * %s" % eq):
                why = "the previous stock value is read at t instead of t - model.dt: " + why
            res.check("SHAPE", "%s update = previous + dt * netflow" % label, False, fi.loc(), fi.qual, src(body.orelse), why,
                      key="SHAPE/Stock/update")
        else:
            res.ob("SHAPE", "%s update = previous + dt * netflow" % label, True)
        if eq is not None:
            h = holes["_equation"]
            if h.exempt == "number":
                res.ob("SHAPE", "%s netflow is a number (time-invariant)" % label, True, nontrivial=False)
            else:
                tt = _hole_time_text(h)
                ok = nf(tt) == nf("t - model.dt")
                res.check("SHAPE", "%s netflow evaluated at t - dt (same time as the previous value)" % label, ok, fi.loc(), fi.qual,
                          "equation.term(%r)" % tt,
                          "the stock's equation is rendered at time '%s' while the previous value is read at 't-model.dt': "
                          "the integrator is not explicit Euler" % tt, key="SHAPE/Stock/netflow-time")
    # default function string (stock without equation)
    dfi = idx.func(STOCK, "Stock.default_function_string")
    for p in _build_strings(idx, dfi, None):
        if isinstance(p.result, SStr):
            text = render(p.result.parts, "t", role_names(p.result.parts))
            lam = _lambda_of(text, dfi.qual)
            ok = isinstance(lam.body, ast.IfExp) and nf(lam.body.test) == nf("t <= model.starttime") and \
                nf(lam.body.orelse) == nf("model.memoize('f', t - model.dt)")
            res.check("SHAPE", "Stock default: holds its value", ok, dfi.loc(), dfi.qual, text,
                      "a stock without equation does not keep its previous value", key="SHAPE/Stock/default")


def _shape_flow(idx: Index, res: Result) -> None:
    fi = idx.func(FLOW, "Flow.build_function_string")
    paths = [p for p in _build_strings(idx, fi, "_function_string") if isinstance(p.result, SStr)]
    if not paths:
        raise AnalysisError("Flow.build_function_string: no path extracted")
    for p in paths:
        parts = p.result.parts
        names = role_names(parts)
        text = render(parts, "t", names)
        lam = _lambda_of(text, fi.qual)
        eq = names.get("_equation")
        label = "Flow[%s]" % ", ".join("%s=%s" % (c[:40], v) for c, v in p.conds)
        b = lam.body
        ok = isinstance(b, ast.Call) and src(b.func) == "max" and len(b.args) == 2 and \
            sorted([nf(a) for a in b.args], key=repr) == sorted([nf("0"), nf(eq or "0")], key=repr)
        res.check("SHAPE", "%s = max(0, equation)" % label, ok, fi.loc(), fi.qual, text,
                  "a flow's function string is '%s', not max(0, equation): the flow is not clamped at zero" % text,
                  key="SHAPE/Flow/clamp")
        for _, h in hole_keys(parts):
            tt = _hole_time_text(h)
            res.check("SHAPE", "%s equation evaluated at t" % label, nf(tt) == nf("t"), fi.loc(), fi.qual, "time=%s" % tt,
                      "a flow's equation is rendered at '%s' instead of 't': the flow lags its definition by a step" % tt,
                      key="SHAPE/Flow/time")


def _shape_converter(idx: Index, res: Result) -> None:
    fi = idx.func(ELEMENT, "Element.equation.setter")
    paths = [p for p in _build_strings(idx, fi, "_function_string") if isinstance(p.result, SStr)]
    if not paths:
        raise AnalysisError("Element.equation setter: no function string extracted")
    for p in paths:
        parts = p.result.parts
        names = role_names(parts)
        text = render(parts, "t", names)
        lam = _lambda_of(text, fi.qual)
        hs = hole_keys(parts)
        ok = len(hs) == 1 and nf(lam.body) == nf(names[hs[0][0]]) and nf(_hole_time_text(hs[0][1])) == nf("t")
        res.check("SHAPE", "biflow/converter = equation at t", ok, fi.loc(), fi.qual, text,
                  "a biflow/converter's function string is '%s', not its equation at t" % text, key="SHAPE/Element/equation")
    # which setter each element kind uses
    for rel, cname, want in ((STOCK, "Stock", "Stock"), (FLOW, "Flow", "Flow"), (CONSTANT, "Constant", "Constant"),
                             ("BPTK_Py/sddsl/biflow.py", "Biflow", "Element"), ("BPTK_Py/sddsl/converter.py", "Converter", "Element")):
        ci = idx.cls(rel, cname)
        st = idx.resolve_method(ci, "equation", setter=True)
        res.check("SHAPE", "%s uses %s.equation setter" % (cname, want), st is not None and st.cls == want,
                  st.loc() if st else "", cname, st.qual if st else "none",
                  "%s resolves its equation setter to %s" % (cname, st.qual if st else None), key="SHAPE/%s/setter" % cname)
    # constant: number literal
    cfi = idx.func(CONSTANT, "Constant.equation.setter")
    paths = [p for p in _build_strings(idx, cfi, "_function_string") if isinstance(p.result, SStr)]
    ok = False
    for p in paths:
        if any("isinstance(equation, (float, int))" in c and v for c, v in p.conds):
            text = render(p.result.parts, "t", role_names(p.result.parts))
            lam = _lambda_of(text, cfi.qual)
            ok = isinstance(lam.body, (ast.Constant, ast.Name))
    raises = [n for n in walk_no_nested(cfi.node) if isinstance(n, ast.Raise)]
    res.check("SHAPE", "constant = its number; anything else rejected", ok and bool(raises), cfi.loc(), cfi.qual, "lambda model, t: <number>",
              "a constant's function string is not its number / non-numbers are not rejected", key="SHAPE/Constant/equation")
    # generate_function binds the model and t
    gf = idx.func(ELEMENT, "Element.generate_function")
    lams = [n for n in ast.walk(gf.node) if isinstance(n, ast.Lambda)]
    ok = len(lams) == 1 and [a.arg for a in lams[0].args.args] == ["t"] and src(lams[0].body) == "fn(self.model, t)"
    res.check("SHAPE", "generated lambda is bound as equations[name] = lambda t: fn(model, t)", ok, gf.loc(), gf.qual,
              src(lams[0]) if lams else "", "generate_function does not bind the compiled function to (model, t)",
              key="SHAPE/Element/generate_function")


def _r2(idx: Index, res: Result, renderers: List[Renderer], floor: int = 120) -> None:
    ext_ok, ext_fi = extract_handles_element(idx)
    guards = ctor_guards(idx)
    res.ob("R2", "extractTerm renders Elements at the requested time", ext_ok, "" if ext_ok else "only Operators")
    nholes = 0
    for r in renderers:
        if r.cls == "Element":
            continue
        seen: Set[Tuple[str, str]] = set()
        for role, h in hole_keys(r.parts):
            nholes += 1
            base = role.replace("[]", "").replace("[*]", "")
            if (role, h.via) in seen:
                continue
            seen.add((role, h.via))
            inv = TIME_INVARIANT.get((r.cls, base))
            g = guards.get((r.cls, base))
            if inv is None and g is not None and g <= CONSTANT_TYPES:
                inv = "the public constructor accepts only %s" % sorted(g)
            if h.via == "term":
                ok = h.time is not None and any(isinstance(x, TimeRef) for x in _flatten(h.time))
                if not ok and inv:
                    res.ob("R2", "%s.%s rendered at a constant time (exempt: %s)" % (r.cls, role, inv), True, nontrivial=False)
                    continue
                res.check("R2", "%s.%s rendered at the requested time" % (r.cls, role), ok, r.fi.loc(), r.fi.qual,
                          "template %s" % r.text[:110],
                          "operand '%s' is rendered at the constant time '%s' whatever time was requested"
                          % (role, parts_text(h.time) if h.time else "t"), key="R2/%s.term/%s/via=term-const" % (r.cls, base))
            elif h.via == "str":
                if h.exempt == "number" or inv:
                    res.ob("R2", "%s.%s via str (exempt: %s)" % (r.cls, role, h.exempt or inv), True, nontrivial=False)
                    continue
                res.check("R2", "%s.%s rendered at the requested time" % (r.cls, role), False, r.fi.loc(), r.fi.qual,
                          "template %s" % r.text[:110],
                          "operand '%s' is converted with str()/format(): __str__ renders it at time 't' whatever time was "
                          "requested; inside a stock equation (requested time 't-model.dt') it is read one step in the future "
                          "(an implicit-Euler term)" % role, key="R2/%s.term/%s/via=__str__" % (r.cls, base))
            elif h.via == "extractTerm":
                if h.exempt == "number" or inv:
                    continue
                res.check("R2", "%s.%s rendered at the requested time" % (r.cls, role), ext_ok, r.fi.loc(), r.fi.qual,
                          "template %s" % r.text[:110],
                          "operand '%s' goes through extractTerm, which returns an Element unrendered; format() then calls "
                          "__str__ -> term('t'): inside a stock equation an Element operand is read at t instead of t-model.dt"
                          % role, key="R2/%s.term/%s/via=extractTerm" % (r.cls, base))
        # the literal t instead of the time parameter
        names = role_names(r.parts)
        txt = render(r.parts, "TIME__", names)
        try:
            tree = parse_expr(txt)
        except SyntaxError:
            continue
        lit_t = [n for n in ast.walk(tree) if isinstance(n, ast.Name) and n.id == "t"]
        res.check("R2", "%s template uses the time parameter, not the literal t" % r.cls, not lit_t, r.fi.loc(), r.fi.qual,
                  "template %s" % r.text[:110],
                  "the template contains the literal name 't': inside a stock equation it is evaluated at t, not at the "
                  "requested time t-model.dt", key="R2/%s.term/literal-t" % r.cls)
    res.floor("operand holes examined for time pass-through", nholes, floor)
    # the two array helpers: str(element) only for number-valued leaves, extractTerm gets the time through
    for hname in ("_array_resolve", "_matrix_element_to_string"):
        hf = idx.func(OPS, hname)
        inner = [n for n in ast.walk(hf.node) if isinstance(n, ast.FunctionDef) and n is not hf.node]
        if len(inner) != 1:
            raise AnalysisError("%s: expected one nested resolver" % hname)
        rr = inner[0]
        epar = rr.args.args[0].arg
        tname = params(hf.node)[2 if hname == "_array_resolve" else 1]
        # binding time of a leaf: the text refers to the member (model.memoize('v[i]', t)), it never splices the member's current number
        leaf_br = [g for g in rr.body if isinstance(g, ast.If) and "vector_size() == 0" in src(g.test)]
        if len(leaf_br) != 1:
            raise AnalysisError("%s: leaf branch (vector_size() == 0) not found" % hname)
        for r_ in [x for b in leaf_br[0].body for x in ast.walk(b) if isinstance(x, ast.Return)]:
            attrs = [a for a in ast.walk(r_.value) if isinstance(a, ast.Attribute) and isinstance(a.value, ast.Name) and a.value.id == epar
                     and not (isinstance(a.ctx, ast.Load) and a.attr in ("term",))]
            # ... nor through locals (round 10): `eq = leaf.equation; lit = repr(float(eq)); return '(' + lit + ')'` is the same splice
            if not attrs:
                tainted: Dict[str, ast.AST] = {}
                changed = True
                while changed:
                    changed = False
                    for a_ in [x for x in ast.walk(rr) if isinstance(x, ast.Assign) and len(x.targets) == 1 and isinstance(x.targets[0], ast.Name)]:
                        if a_.targets[0].id in tainted or a_.targets[0].id == epar:
                            continue
                        srcs = [y for y in ast.walk(a_.value) if (isinstance(y, ast.Attribute) and isinstance(y.value, ast.Name) and y.value.id == epar
                                                                   and y.attr not in ("term", "_elements", "name", "model"))
                                or (isinstance(y, ast.Name) and y.id in tainted)]
                        if srcs:
                            tainted[a_.targets[0].id] = srcs[0]
                            changed = True
                attrs = [tainted[y.id] for y in ast.walk(r_.value) if isinstance(y, ast.Name) and y.id in tainted]
            res.check("R2", "%s: a leaf is emitted as a reference, not as its current value" % hname, not attrs, hf.loc(r_), hf.qual, norm_stmt(r_)[:80],
                      "%s splices %s into the aggregate's text when the text is built: the aggregate keeps that number when the member is "
                      "changed later (and for an arrayed stock it takes the net-flow literal instead of the level)"
                      % (hname, src(attrs[0]) if attrs else ""), key="R2/%s/leaf-value-spliced" % hname)
        for c in ast.walk(rr):
            if isinstance(c, ast.Call) and call_name(c) == "str" and c.args and src(c.args[0]) == epar:
                guard = [g for g in ast.walk(rr) if isinstance(g, ast.If) and any(x is c for b in g.body for x in ast.walk(b))]
                ok = any("isinstance(%s.equation, (float, int))" % epar in src(g.test) for g in guard)
                res.check("R2", "%s: str(leaf) only for number-valued leaves" % hname, ok, hf.loc(c), hf.qual, src(c),
                          "%s renders a leaf element with str() (time 't') without knowing that it is a number" % hname,
                          key="R2/%s/leaf-str" % hname)
            if isinstance(c, ast.Call) and call_name(c) == "extractTerm":
                ok = len(c.args) == 2 and src(c.args[0]) == epar and src(c.args[1]) == tname
                res.check("R2", "%s: leaf rendered at the requested time" % hname, ok and ext_ok, hf.loc(c), hf.qual, src(c),
                          "%s renders its leaf elements through extractTerm, which returns Elements unrendered (-> time 't')" % hname
                          if ok else "%s does not pass its time argument to the leaf" % hname,
                          key="R2/%s/leaf-time" % hname)


def _flatten(parts: Parts):
    for p in parts:
        yield p
        if isinstance(p, Hole) and p.time:
            yield from _flatten(p.time)
        if isinstance(p, Rep):
            yield from _flatten(p.body)


def sweep_loop(idx: Index):
    """(function, for-loop, timerange call, loop variable, stores into self.results[<equation>]) of the batch sweep."""
    from ..util import deref, table_row_of
    sim = idx.func(SDSIM, "SdSimulation._SdSimulation__simulate") if idx.try_func(SDSIM, "SdSimulation._SdSimulation__simulate") \
        else idx.func(SDSIM, "SdSimulation.__simulate")
    sparams = params(sim.node)

    def through_caller(e: ast.AST) -> ast.AST:
        """a parameter of __simulate: the argument the thread starter passes for it (Thread(target=self.__simulate, args=(...)))"""
        if not (isinstance(e, ast.Name) and e.id in sparams[1:]):
            return e
        pos = sparams.index(e.id) - 1
        for caller in idx.module(SDSIM).functions.values():
            for c in iter_calls(caller.node):
                if call_name(c) == "Thread":
                    kw = {k.arg: k.value for k in c.keywords}
                    if "target" in kw and (dotted(kw["target"]) or "").endswith("simulate") and isinstance(kw.get("args"), ast.Tuple) \
                            and len(kw["args"].elts) > pos:
                        return deref(caller.node, kw["args"].elts[pos])
                elif (call_name(c) or "").endswith("simulate") and call_name(c) != "__simulate_equations" and len(c.args) > pos and caller is not sim \
                        and call_name(c) in ("__simulate", "_SdSimulation__simulate"):
                    return deref(caller.node, c.args[pos])
        return e
    loops = []
    for n in walk_no_nested(sim.node):
        if isinstance(n, ast.For):
            it = through_caller(deref(sim.node, n.iter))
            if isinstance(it, ast.Call) and call_name(it) == "timerange":
                loops.append((n, it))
            elif isinstance(it, ast.Call) and isinstance(it.func, ast.Attribute) and dotted(it.func.value) == "self" and sim.cls:
                # the grid comes from a helper that may keep it in a validated memo: every way the helper answers is one and the same
                # timerange(...) over its arguments (util.value_alternatives)
                from ..util import value_alternatives
                cnode = idx.modules[SDSIM].classes[sim.cls].node
                alts = value_alternatives(cnode, sim.node, it)
                alts = [x.args[0] if isinstance(x, ast.Call) and isinstance(x.func, ast.Name) and x.func.id in ("tuple", "list") and len(x.args) == 1 else x for x in alts]
                texts = {src(x) for x in alts}
                if alts and len(texts) == 1 and isinstance(alts[0], ast.Call) and call_name(alts[0]) == "timerange":
                    loops.append((n, alts[0]))
    if len(loops) != 1 or not isinstance(loops[0][0].target, ast.Name):
        raise AnalysisError("SdSimulation.__simulate: sweep loop over timerange() not found")
    lp, rng = loops[0]
    eqp = params(sim.node)[1]
    stores = []
    # a local series that becomes the equation's row afterwards (series = {} ... self.results[equation] = series) is that row
    later_rows = {n.value.id for n in walk_no_nested(sim.node) if isinstance(n, ast.Assign) and isinstance(n.value, ast.Name)
                  and isinstance(n.targets[0], ast.Subscript) and dotted(n.targets[0].value) == "self.results" and src(n.targets[0].slice) == eqp}
    for n in ast.walk(lp):
        if isinstance(n, ast.Assign) and isinstance(n.targets[0], ast.Subscript):
            row = table_row_of(sim.node, n.targets[0].value)
            if row and row[0] == "self.results" and src(row[1]) == eqp:
                stores.append(n)
            elif isinstance(n.targets[0].value, ast.Name) and n.targets[0].value.id in later_rows:
                stores.append(n)
    return sim, lp, rng, lp.target.id, stores


def _sweep(idx: Index, res: Result) -> None:
    from .. import util as _util
    _util.KEYED_MEMO_DIAGNOSES.clear()
    try:
        sim, lp, rng, v, stores = sweep_loop(idx)
    except AnalysisError:
        # the grid is handed out by a memo whose key does not determine what is remembered: that is the defect, not an analysis gap
        for fn_, read_, why in _util.KEYED_MEMO_DIAGNOSES[:1]:
            sim_ = idx.func(SDSIM, "SdSimulation.__simulate")
            res.find("SWEEP", "SWEEP/__simulate/grid-memo-key", "%s:%d" % (sim_.file, getattr(read_, "lineno", getattr(fn_, "lineno", 0))), getattr(fn_, "name", sim_.qual),
                     src(read_)[:80], "the times the sweep visits come out of a memo: " + why + " - scenarios that differ only in that (a dt overridden "
                     "in the run specs) are simulated on each other's grid")
        raise
    args = rng.args
    ps = params(sim.node)
    res.check("SWEEP", "sweep starts at the requested start with the model's dt", len(args) >= 3 and src(args[0]) == "start"
              and src(args[2]) == "self.mod.dt", sim.loc(lp), sim.qual, src(rng),
              "the sweep is %s" % src(rng), key="SWEEP/__simulate/range")
    ev = [c for c in iter_calls(lp) if call_name(c) == "equation" and (dotted(c.func.value) or "") == "self.mod"]
    # one evaluation per grid time - written once, or once in each branch of a case distinction (plain / '*' equations)
    ok = len(ev) >= 1 and all([src(a) for a in c.args] == [ps[1], v] for c in ev) and (len(ev) == 1 or all(
        any(isinstance(g, ast.If) and any(x is c for b in (g.body if k == 0 else g.orelse) for x in ast.walk(b)) for g in ast.walk(lp) for k in (0, 1)) for c in ev))
    res.check("SWEEP", "each grid time is evaluated once: mod.equation(name, i)", ok, sim.loc(lp), sim.qual, src(ev[0]) if ev else "",
              "the sweep does not evaluate the requested equation at the loop time", key="SWEEP/__simulate/evaluate")
    # the value variable: what mod.equation(...) was assigned to
    valvars = {n.targets[0].id for n in ast.walk(lp) if isinstance(n, ast.Assign) and isinstance(n.targets[0], ast.Name)
               and any(c is x for c in ev for x in ast.walk(n.value))}
    for _ in range(3):     # values derived from it (sum(result) for the '*' equations, a renamed copy)
        valvars |= {n.targets[0].id for n in ast.walk(lp) if isinstance(n, ast.Assign) and isinstance(n.targets[0], ast.Name)
                    and {x.id for x in ast.walk(n.value) if isinstance(x, ast.Name)} & valvars}
    ok = len(stores) >= 1 and all(src(st_.targets[0].slice) == v and (
        (isinstance(st_.value, ast.Name) and st_.value.id in valvars) or any(c is x for c in ev for x in ast.walk(st_.value))) for st_ in stores)
    res.check("SWEEP", "the value is stored under the time it was evaluated at", ok, sim.loc(stores[0]) if stores else sim.loc(), sim.qual,
              norm_stmt(stores[0]) if stores else "", "the result table is keyed by %s, the value was evaluated at %s"
              % (src(stores[0].targets[0].slice) if stores else "?", v), key="SWEEP/__simulate/store-key")
    memo = idx.func(MODEL, "Model.memoize")
    assigns = single_assignments(memo.node)
    keyv = [k for k, vals in assigns.items() if any(isinstance(x, ast.Call) and call_name(x) == "normalize" for x in vals)]
    if len(keyv) != 1:
        raise AnalysisError("Model.memoize: normalised key variable not found")
    K = keyv[0]
    from ..util import is_row as _is_row, row_aliases as _row_aliases
    _rows = _row_aliases(memo.node, "self.memo")
    probes = [n.left for n in walk_no_nested(memo.node) if isinstance(n, ast.Compare) and isinstance(n.ops[0], (ast.In, ast.NotIn))
              and _is_row(_rows, n.comparators[0], "self.memo")]
    probes += [c.args[0] for c in iter_calls(memo.node) if call_name(c) == "get" and c.args and _is_row(_rows, c.func.value, "self.memo")]
    ok = bool(probes) and all(src(t) == K for t in probes)
    res.check("SWEEP", "memo looked up under the normalised time", ok, memo.loc(), memo.qual, src(probes[0]) if probes else "",
              "the memo is probed with %s" % (src(probes[0]) if probes else "?"), key="SWEEP/memoize/lookup-key")
    evs = [c for c in iter_calls(memo.node) if isinstance(c.func, ast.Subscript) and "equations" in src(c.func.value)]
    ok = len(evs) == 1 and [src(a) for a in evs[0].args] == [K]
    res.check("SWEEP", "equation evaluated at the normalised time", ok, memo.loc(), memo.qual, src(evs[0]) if evs else "",
              "the equation is evaluated at %s, the memo key is %s" % ([src(a) for a in evs[0].args] if evs else "?", K),
              key="SWEEP/memoize/eval-arg")
    sts = [n for n in walk_no_nested(memo.node) if isinstance(n, ast.Assign) and isinstance(n.targets[0], ast.Subscript)
           and src(n.targets[0].slice) == K]
    evvars = {n.targets[0].id for n in walk_no_nested(memo.node) if isinstance(n, ast.Assign) and isinstance(n.targets[0], ast.Name)
              and any(c is x for c in evs for x in ast.walk(n.value))}
    ok = len(sts) >= 1 and all((isinstance(s.value, ast.Name) and s.value.id in evvars) or any(c is s.value for c in evs) for s in sts)
    res.check("SWEEP", "result stored under the key it was evaluated for", ok, memo.loc(), memo.qual, norm_stmt(sts[0]) if sts else "",
              "memoize does not store the result under the normalised key", key="SWEEP/memoize/store-key")
    for nm in ("equation", "evaluate_equation"):
        f = idx.func(MODEL, "Model." + nm)
        ps2 = params(f.node)
        rets = [n for n in walk_no_nested(f.node) if isinstance(n, ast.Return)]
        ok = len(rets) == 1 and isinstance(rets[0].value, ast.Call) and call_name(rets[0].value) == "memoize" and \
            [src(a) for a in rets[0].value.args] == ps2[1:3]
        res.check("SWEEP", "Model.%s delegates to memoize(name, t)" % nm, ok, f.loc(), f.qual, norm_stmt(rets[0]) if rets else "",
                  "Model.%s does not delegate to memoize unchanged" % nm, key="SWEEP/Model.%s" % nm)


def _builtins(idx: Index, res: Result, renderers: List[Renderer]) -> None:
    # ---- lookup: clamped linear interpolation
    lk = idx.func(MODEL, "Model._lookup")
    x = params(lk.node)[1]
    ifs = [n for n in lk.node.body if isinstance(n, ast.If) and len(n.body) == 1 and isinstance(n.body[0], ast.Return)]
    lows, highs = [], []

    def idx_kind(e: ast.AST, arr: str) -> Optional[str]:
        if isinstance(e, ast.Subscript) and src(e.value) == arr:
            s = src(e.slice).replace(" ", "")
            if s == "0":
                return "first"
            if s in ("-1", "len(%s)-1" % arr, "len(x_vals)-1", "len(y_vals)-1"):
                return "last"
        return None
    for n in ifs:
        t = n.test
        if not (isinstance(t, ast.Compare) and len(t.ops) == 1):
            continue
        l, r, op = t.left, t.comparators[0], type(t.ops[0])
        if src(r) == x:
            l, r = r, l
            op = {ast.Lt: ast.Gt, ast.LtE: ast.GtE, ast.Gt: ast.Lt, ast.GtE: ast.LtE}.get(op, op)
        if src(l) != x:
            continue
        xk = idx_kind(r, "x_vals")
        yk = idx_kind(n.body[0].value, "y_vals")
        if op in (ast.Lt, ast.LtE):
            lows.append((xk, yk, n))
        elif op in (ast.Gt, ast.GtE):
            highs.append((xk, yk, n))
    ok = len(lows) == 1 and lows[0][:2] == ("first", "first")
    res.check("BUILTIN", "lookup clamps below the first point to the first y", ok, lk.loc(lows[0][2]) if lows else lk.loc(), lk.qual,
              norm_stmt(lows[0][2]) if lows else "", "the low clamp of the lookup is %s" % (norm_stmt(lows[0][2]) if lows else "missing"),
              key="BUILTIN/_lookup/low-clamp")
    ok = len(highs) == 1 and highs[0][:2] == ("last", "last")
    res.check("BUILTIN", "lookup clamps above the last point to the last y", ok, lk.loc(highs[0][2]) if highs else lk.loc(), lk.qual,
              norm_stmt(highs[0][2]) if highs else "", "the high clamp of the lookup is %s" % (norm_stmt(highs[0][2]) if highs else "missing"),
              key="BUILTIN/_lookup/high-clamp")
    ic = [c for c in iter_calls(lk.node) if call_name(c) == "interp1d"]
    ok = len(ic) == 1 and [src(a) for a in ic[0].args] == ["x_vals", "y_vals"] and all(
        k.arg != "kind" or (isinstance(k.value, ast.Constant) and k.value.value == "linear") for k in ic[0].keywords)
    res.check("BUILTIN", "lookup interpolates linearly between the points", ok, lk.loc(), lk.qual, src(ic[0]) if ic else "",
              "the lookup does not use linear interp1d(x_vals, y_vals)", key="BUILTIN/_lookup/interp")
    xv = single_assignments(lk.node)
    def coord_of(e) -> Optional[int]:
        """index of the point coordinate a comprehension collects: [p[0] for p in points] -> 0"""
        for c in ast.walk(e):
            if isinstance(c, (ast.ListComp, ast.GeneratorExp)) and len(c.generators) == 1 and isinstance(c.generators[0].target, ast.Name) \
                    and isinstance(c.elt, ast.Subscript) and isinstance(c.elt.value, ast.Name) and c.elt.value.id == c.generators[0].target.id:
                return const_int(c.elt.slice)
        return None
    ok = coord_of(xv.get("x_vals", [ast.Constant(0)])[0]) == 0 and coord_of(xv.get("y_vals", [ast.Constant(0)])[0]) == 1
    res.check("BUILTIN", "lookup takes x from point[0], y from point[1]", ok, lk.loc(), lk.qual, "x_vals / y_vals",
              "the lookup swaps the coordinates of its points", key="BUILTIN/_lookup/coords")

    byc: Dict[str, List[Renderer]] = {}
    for r in renderers:
        byc.setdefault(r.cls, []).append(r)

    def tree_of(r: Renderer):
        names = role_names(r.parts)
        return parse_expr(render(r.parts, "TIME__", names)), names
    # ---- step
    for r in byc.get("Step", []):
        t, names = tree_of(r)
        ok = isinstance(t, ast.IfExp) and nf(t.body) == nf(names["height"]) and nf(t.orelse) == nf("0.0") and \
            nf(t.test) in (nf("TIME__ > %s" % names["timestep"]), nf("TIME__ >= %s" % names["timestep"]))
        res.check("BUILTIN", "step = height once time has passed the step time, else 0", ok, r.fi.loc(), r.fi.qual, r.text,
                  "the step template is %s" % r.text, key="BUILTIN/Step/shape")
    # ---- delay
    for r in byc.get("Delay", []):
        t, names = tree_of(r)
        holes = {}
        for role, h in hole_keys(r.parts):
            if role not in holes or (h.time and any(isinstance(x, TimeRef) for x in _flatten(h.time))):
                holes[role] = h
        d = names.get("delay_duration")
        ok = isinstance(t, ast.IfExp) and d is not None and nf(t.test) in (nf("TIME__ - %s >= 1.0" % d), nf("TIME__ - %s >= model.starttime" % d))
        res.check("BUILTIN", "delay switches at time - duration >= starttime", ok, r.fi.loc(), r.fi.qual, r.text[:140],
                  "the delay test is %s" % (src(t.test) if isinstance(t, ast.IfExp) else "?"), key="BUILTIN/Delay/test")
        h = holes.get("input_function")
        ht = render(h.time, "TIME__", names) if h and h.time else "t"
        ok = h is not None and d is not None and nf(ht) == nf("TIME__ - %s" % d)
        res.check("BUILTIN", "delay reads the input at time - duration", ok, r.fi.loc(), r.fi.qual, "input@%s" % ht,
                  "the delayed input is read at '%s'" % ht, key="BUILTIN/Delay/shift")
    # ---- pulse
    for r in byc.get("Pulse", []):
        t, names = tree_of(r)
        ok = isinstance(t, ast.IfExp) and nf(t.body) in (nf("%s / 1.0" % names["volume"]), nf("%s / model.dt" % names["volume"])) and nf(t.orelse) == nf("0.0")
        res.check("BUILTIN", "pulse = volume/dt at pulse times, else 0", ok, r.fi.loc(), r.fi.qual, r.text[:140],
                  "the pulse template is %s" % r.text[:120], key="BUILTIN/Pulse/shape")
    # ---- smooth / trend: level' = (input - level) / T through an *unclamped* element
    for cname, level, change in (("Smooth", "smooth", "change_in_smooth"), ("Trend", "exponential_average", "change_in_average")):
        ctor = idx.func(OPS, "%s.__init__" % cname)
        from ..util import expand_aliases
        a = {}
        for n in walk_no_nested(expand_aliases(ctor.node)):       # locals that are stored into self.<x> once are self.<x>
            if isinstance(n, ast.Assign) and len(n.targets) == 1:
                a.setdefault(src(n.targets[0]), []).append(n.value)
        mk = a.get("self.%s" % change, [None])[0]
        kind = call_name(mk) if isinstance(mk, ast.Call) else None
        eq = a.get("self.%s.equation" % change, [None])[0]
        ok = eq is not None and nf(eq) == nf("(self.input_function - self.%s) / self.averaging_time" % level)
        res.check("BUILTIN", "%s: change = (input - level) / averaging time" % cname, ok, ctor.loc(), ctor.qual, src(eq) if eq is not None else "",
                  "the adjustment equation of %s is %s" % (cname, src(eq) if eq is not None else "?"), key="BUILTIN/%s/change-equation" % cname)
        leq = a.get("self.%s.equation" % level, [None])[0]
        ok = leq is not None and src(leq) == "self.%s" % change
        res.check("BUILTIN", "%s: level integrates the change" % cname, ok, ctor.loc(), ctor.qual, src(leq) if leq is not None else "",
                  "the level of %s does not integrate its change element" % cname, key="BUILTIN/%s/level-equation" % cname)
        lmk = a.get("self.%s" % level, [None])[0]
        res.check("BUILTIN", "%s: level is a stock" % cname, isinstance(lmk, ast.Call) and call_name(lmk) == "stock", ctor.loc(), ctor.qual,
                  src(lmk) if lmk is not None else "", "the level of %s is not a stock" % cname, key="BUILTIN/%s/level-kind" % cname)
        res.check("BUILTIN", "%s: change element is not clamped (biflow/converter)" % cname, kind in ("biflow", "converter"), ctor.loc(), ctor.qual,
                  src(mk) if mk is not None else "",
                  "the change element of %s is created with model.%s(): a flow is clamped at 0, so the exponential average can only "
                  "rise and never follows a falling input" % (cname, kind), key="BUILTIN/%s/change-is-clamped-%s" % (cname, kind))
    tr = idx.func(OPS, "Trend.__init__")
    teq = [n.value for n in walk_no_nested(expand_aliases(tr.node)) if isinstance(n, ast.Assign) and src(n.targets[0]) == "self.trend.equation"]
    ok = bool(teq) and nf(teq[0]) == nf("(self.input_function - self.exponential_average) / (self.exponential_average * self.averaging_time)")
    res.check("BUILTIN", "trend = (input - average) / (average * averaging time)", ok, tr.loc(), tr.qual, src(teq[0]) if teq else "",
              "the trend equation is %s" % (src(teq[0]) if teq else "?"), key="BUILTIN/Trend/equation")


def element_factories_rule(idx: Index, res: Result, rule: str) -> int:
    """ONCE: Model.stock / flow / biflow / constant / converter hand back the element registered under a name and build one only when
    there is none.  Building an element is not free of effects - Element.__init__ compiles the default equation into
    model.equations[name] and empties its memo - so a construction that is *evaluated* for a registered name (the default argument of
    dict.setdefault, `get(name) or Cls(...)` written the wrong way round, a construction hoisted above the test) silently replaces the
    user's equation by the default one while the old object is handed back."""
    from ..util import path_atoms as nesting_atoms          # nesting, guard clauses, except KeyError after a look-up
    MODEL = "BPTK_Py/modeling/model.py"
    ELEMENT_CLASSES = {"Stock", "Flow", "Biflow", "Constant", "Converter"}
    ci = idx.cls(MODEL, "Model")
    n = 0
    for meth in ("stock", "flow", "biflow", "constant", "converter"):
        defs = ci.methods.get(meth)
        if not defs:
            raise AnalysisError("anchor vanished: Model.%s" % meth)
        fi = defs[-1]
        ps = params(fi.node)
        name_p = ps[1] if len(ps) > 1 else "name"
        ctors = [c for c in iter_calls(fi.node) if (call_name(c) in ELEMENT_CLASSES and isinstance(c.func, ast.Name))
                 or (isinstance(c.func, ast.Name) and c.func.id in ps and len(c.args) >= 2 and src(c.args[0]) == "self")]
        if not ctors:
            raise AnalysisError("Model.%s: construction of the element not found" % meth)
        for c in ctors:
            n += 1
            fresh = any((isinstance(a, ast.Compare) and len(a.ops) == 1 and isinstance(a.left, ast.Name) and a.left.id == name_p
                         and ((isinstance(a.ops[0], ast.In) and not t) or (isinstance(a.ops[0], ast.NotIn) and t)))
                        or (isinstance(a, ast.Compare) and len(a.ops) == 1 and isinstance(a.ops[0], ast.Is) and t
                            and isinstance(a.comparators[0], ast.Constant) and a.comparators[0].value is None)
                        # x = registry.get(name, <sentinel>) ... if x is <sentinel>:
                        or (isinstance(a, ast.Compare) and len(a.ops) == 1 and isinstance(a.ops[0], ast.Is) and t and isinstance(a.left, ast.Name)
                            and any(isinstance(v_, ast.Call) and call_name(v_) == "get" and len(v_.args) == 2 and src(v_.args[0]) == name_p
                                    and src(v_.args[1]) == src(a.comparators[0]) for v_ in single_assignments(fi.node).get(a.left.id, [])))
                        for a, t in nesting_atoms(fi.node, c))
            res.check(rule, "Model.%s builds an element only for a name that is not registered" % meth, fresh, fi.loc(c), fi.qual, src(c)[:80],
                      "Model.%s evaluates %s whether or not '%s' is registered already: constructing an element compiles its default equation into "
                      "model.equations[name] and clears its memo, so fetching an existing element by name resets its equation to the default while the "
                      "old object is returned" % (meth, src(c)[:50], name_p), key="%s/Model.%s/constructs-for-registered-name" % (rule, meth))
    return n


def check_c01(idx: Index, tier: str, res: Result) -> None:
    res.explanation = ("Decides the *shape of the difference equations the DSL generates*, i.e. that what is evaluated is explicit "
                       "Euler, for every element kind and built-in at once (every model is an instantiation of the same finite set "
                       "of templates): integrator normal form (initial test, previous value at t-dt, factor dt, netflow rendered at "
                       "the same t-dt), flow clamp, converter/biflow/constant shapes, time pass-through of every operand hole of "
                       "every term() method and of both array helpers, the forward sweep's evaluate/store key identity, the "
                       "definitions of lookup/step/delay/pulse/smooth/trend, and hole-safety of the built-ins' templates.")
    res.rules = ["SHAPE: R3 normal-form match of generated function strings", "R2: time pass-through of operand holes",
                 "SWEEP: def-use identity of evaluated time and stored key", "BUILTIN: reference shapes of built-ins",
                 "R1: hole-safety of templates outside C02's vocabulary against C02's inner texts"]
    res.not_decided = ["numeric agreement with a reference interpreter on generated models", "conditioning / float rounding",
                       "scipy.interpolate.interp1d itself", "strictness of the step comparison (> vs >=)"]
    res.assumptions = ["CPython's parser and eval of the generated text", "real-number semantics of + - * /"]
    renderers, stats = dsl_renderers(idx, res)
    res.floor("term methods", stats["term_methods"], 72)
    res.floor("return paths", stats["return_paths"], 100)
    _shape_stock(idx, res)
    _shape_flow(idx, res)
    _shape_converter(idx, res)
    _r2(idx, res, renderers)
    _sweep(idx, res)
    from .timegrid import check_normalisation
    check_normalisation(idx, res)       # a wrong precision/offset evaluates equations at the wrong grid time
    res.floor("element constructions in Model's factories", element_factories_rule(idx, res, "ONCE"), 5)
    _operand_truth(idx, res)            # a setter that decides on an overloaded comparison silently keeps / drops a value the user assigned
    from .memo import invalidate_on_edit
    # the values reported are those of the model as it is *now*: an edited equation must not be answered from the old memo
    res.floor("definition-changing members of sddsl", invalidate_on_edit(idx, res, "FRESH"), 5)
    # ... and the invalidation they trigger really empties every memo, whatever was evaluated through whichever entry point before
    from .memo import clear_rules
    clear_rules(idx, res)
    _builtins(idx, res, renderers)
    vocab = set(C02_VOCAB)
    inners = inner_texts(renderers, vocab)
    others = {r.cls for r in renderers} - vocab - {"Element"}
    guards = ctor_guards(idx)
    res.floor("operand guards read from sddsl/functions.py", len(guards), 8)
    res.samples.append({"constructor_guards": {"%s.%s" % k: sorted(v) for k, v in sorted(guards.items())}})
    triples = _r1_table(res, renderers, others, inners, tier, "R1", "C01", guards)
    res.extra.update(stats)
    res.extra["r1_triples"] = triples
    res.samples += [{"class": r.cls, "template": r.text[:160]} for r in renderers if r.cls in ("Step", "Delay", "Pulse", "Lookup")][:6]


# ---------------------------------------------------------------------------
# operator identity (reference table): what each class's template must compute
# ---------------------------------------------------------------------------

REFERENCE = {
    "AdditionOperator": "element_1 + element_2",
    "SubtractionOperator": "element_1 - element_2",
    "MultiplicationOperator": "element_1 * element_2",
    "DivisionOperator": "element_1 / element_2",
    "NumericalMultiplicationOperator": "element_2 * element_1",
    "ModOperator": "element_1 % element_2",
    "PowerOperator": "element ** power",
    "ComparisonOperator": "element_1 SIGN element_2",
    "If": "then_ if if_ else else_",
    "And": "lhs and rhs",
    "Or": "lhs or rhs",
    "Not": "not condition",
    "MinOperator": "min(element_1, element_2)",
    "MaxOperator": "max(element_1, element_2)",
    "AbsOperator": "abs(element)",
    "Sqrt": "x ** (1 / 2)",
    "Exp": "np.exp(element)",
    "Round": "round(operator, digits)",
    "ArrayMeanOperator": "np.mean([ELEMS])",
    "ArrayMedianOperator": "np.median([ELEMS])",
    "ArrayStandardDeviationOperator": "np.std([ELEMS])",
    "ArraySumOperator": "SUM",
    "ArrayProductOperator": "PROD",
}


def operator_identity(res: Result, renderers: List[Renderer], classes: Set[str], rule: str = "OPID") -> int:
    """Every non-degenerate return path of the class computes what the class name says."""
    n = 0
    for r in renderers:
        if r.cls not in classes or r.cls not in REFERENCE:
            continue
        if not hole_keys(r.parts):
            continue                      # degenerate path ("0.0" for an unresolved arrayed equation)
        names = {}
        for role, h in hole_keys(r.parts):
            names[role] = role.replace("[]", "").replace("[*]", "")
        ref = REFERENCE[r.cls]
        for sign in (SIGNS if "SIGN" in ref else ["<"]):
            txt = render(r.parts, "t", names, rep_n=2, sign=sign)
            want = ref.replace("SIGN", sign)
            if "ELEMS" in want:
                want = want.replace("ELEMS", "element_0, element_1")
            elif want == "SUM":
                want = "element_0 + element_1"
            elif want == "PROD":
                want = "element_0 * element_1"
            try:
                ok = nf(parse_expr(txt)) == nf(parse_expr(want))
            except SyntaxError:
                ok = False
            n += 1
            res.check(rule, "%s path '%s' computes %s" % (r.cls, r.text[:50], want), ok, r.fi.loc(), r.fi.qual, r.text[:120],
                      "a return path of %s.term renders '%s', which is not %s" % (r.cls, txt[:100], want),
                      key="%s/%s.term/%s" % (rule, r.cls, parts_text(r.parts)[:60]))
    return n
