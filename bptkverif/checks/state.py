"""C19 (externalised state is restored losslessly) and C20 (sessions continue
after a crash): def-use, nullability and writer/reader agreement rules over the
external state adapter, the compression helpers and the restore path."""
from __future__ import annotations

import ast
from typing import Dict, List, Optional, Set, Tuple

from ..cfg import Flow, Node, build_cfg
from ..core import (seq, AnalysisError, FuncInfo, Index, Result, call_name, call_recv, const_str, dotted, iter_calls,
                    norm_stmt, src, walk_no_nested)
from ..util import params, single_assignments, names_in

ADAPTER = "BPTK_Py/externalstateadapter/externalStateAdapter.py"
COMPRESS = "BPTK_Py/util/statecompression.py"
SERVER = "BPTK_Py/server/bptkServer.py"
BPTK = "BPTK_Py/bptk.py"
SDSIM = "BPTK_Py/sdsimulation/sd_simulation.py"
RUNNER = "BPTK_Py/scenariorunners/sd_runner.py"

FIELDS = ["state", "instance_id", "time", "timeout", "step"]
FIELD_HINTS = {"state": ("state", "data"), "instance_id": ("id", "uuid"), "time": ("time", "now"), "timeout": ("timeout",), "step": ("step",)}


def _stores_using(fn: ast.AST, var: str, out_names: Set[str]) -> List[ast.AST]:
    """Stores into one of *out_names* (subscript store / append / dict value) whose key or value mentions *var*."""
    hits = []
    for n in ast.walk(fn):
        if isinstance(n, ast.Assign) and isinstance(n.targets[0], ast.Subscript):
            base = n.targets[0]
            while isinstance(base, ast.Subscript):
                base = base.value
            if isinstance(base, ast.Name) and base.id in out_names:
                key_mentions = var in names_in(n.targets[0].slice)
                val_mentions = any(isinstance(x, ast.Name) and x.id == var and not _is_read_index(x, n.value) for x in ast.walk(n.value))
                if key_mentions or val_mentions:
                    hits.append(n)
        if isinstance(n, ast.Call) and call_name(n) == "append" and n.args:
            if any(isinstance(x, ast.Name) and x.id == var and not _is_read_index(x, n.args[0]) for x in ast.walk(n.args[0])):
                hits.append(n)
    return hits


def _is_read_index(name: ast.Name, root: ast.AST) -> bool:
    """Is *name* used only as a subscript index (x[step]) inside *root*?  Reading with the step does not keep it."""
    for n in ast.walk(root):
        if isinstance(n, ast.Subscript) and any(x is name for x in ast.walk(n.slice)):
            return True
    return False


def persist_after_step_rule(idx: Index, res: Result, rule: str = "PERSIST") -> None:
    """Shared by C20 and C19: on the CFG of every stepping handler (and of the streaming generator) every path from a run_step() call to the
    end of the request passes save_instance() (or a server helper that calls it), unless no adapter is configured."""
    # every stepping request externalises the instance after the step: a step the client has seen is in the external state
    nstep = 0
    # helpers of the server that externalise (one level): calling one of them counts as save_instance()
    savers = {"save_instance"}
    for fi in idx.all_funcs("BPTK_Py/server/"):
        if fi.cls == "BptkServer" and not any(call_name(c) == "run_step" for c in iter_calls(fi.node)) and \
                any(call_name(c) == "save_instance" for c in iter_calls(fi.node)) and not fi.node.name.endswith("_resource"):
            savers.add(fi.node.name)
    for fi in idx.all_funcs("BPTK_Py/server/"):
        if fi.cls != "BptkServer" or not any(call_name(c) == "run_step" for c in iter_calls(fi.node)):
            continue
        cfg = build_cfg(fi.node, fi.qual)

        def has_call(node_ast, name):
            return any(call_name(c) == name for c in iter_calls(node_ast)) if node_ast is not None else False

        def tr(node: Node, fact, label):
            if node.kind == "stmt" and label != "exc":
                if has_call(node.ast, "run_step"):
                    return ["stepped"]
                if any(has_call(node.ast, sv_) for sv_ in savers):
                    return ["clean"]
            if node.kind == "test" and "_external_state_adapter" in src(node.ast) and label == "false" and "!=" in src(node.ast).replace("is not", "!="):
                return ["clean"]         # no external state configured: nothing to externalise
            if node.kind == "test" and "_external_state_adapter" in src(node.ast) and label == "true" and ("==" in src(node.ast) or " is None" in src(node.ast)) \
                    and "!=" not in src(node.ast) and "is not" not in src(node.ast):
                return ["clean"]
            return [fact]
        flow = Flow(cfg, ["clean"], tr)
        nstep += 1
        bad = None
        for nd in cfg.nodes:
            if nd.kind == "exit" and "stepped" in flow.at.get(nd.id, set()):
                bad = nd
        wit = flow.witness(bad.id, "stepped") if bad is not None else []
        res.check(rule, "%s externalises the instance after every step" % fi.qual, bad is None, fi.loc(), fi.qual, "run_step ... save_instance",
                  "%s can answer a request after run_step() without save_instance(): the step the client has seen is not in the external state, "
                  "so after a crash the instance resumes one or more steps behind. Path: %s" % (fi.qual, " ; ".join(wit[-6:])),
                  key="%s/%s/step-not-externalised" % (rule, fi.qual))
    res.floor("stepping handlers", nstep, 3)



def check_c19(idx: Index, tier: str, res: Result) -> None:
    res.explanation = ("(1) injectivity of the compressed format: the step key must flow into what compress_* emits and must be taken from "
                       "the input by decompress_*, not synthesised; (2) nullability: every value the session writer can put into "
                       "settings_log is accepted by the reader; (3) FileAdapter writes every record key it reads, all three file "
                       "operations build the same path, save and load call the matching (de)compressor on the matching log; (4) the "
                       "whole session state is copied out and installed back unfiltered, InstanceState is built field by field in the "
                       "declared order.")
    res.rules = ["INJECT: def-use of the step key through (de)compression", "NULL: writer values vs reader guards",
                 "RECORD: key/path agreement in FileAdapter", "WIRING: (de)compressor <-> log key, InstanceState field order",
                 "WHOLE: unfiltered copy-out / install"]
    res.not_decided = ["jsonpickle fidelity (float keys become strings, numpy scalars)", "equality of the session results served before and after"]
    # ---- (1) injectivity ----------------------------------------------------------------------------------
    for name in ("compress_settings", "compress_results"):
        fi = idx.func(COMPRESS, name)
        inp = params(fi.node)[0]
        # what is written for a session is a function of that session's log alone: a compressor that is also handed something kept from an
        # earlier save (columns to extend, a number of steps to skip) writes a mix of two histories as soon as the log was restarted
        extra_ps = params(fi.node)[1:]
        res.check("PURE", "%s(log) is a function of the log alone" % name, not extra_ps, fi.loc(), fi.qual, "def %s(%s)" % (name, ", ".join(params(fi.node))),
                  "%s also takes %s: what it emits depends on what an earlier call left there, not only on the log that is being saved - after a "
                  "session is begun again on the same instance the stored history is part old session, part new" % (name, ", ".join(extra_ps)),
                  key="PURE/%s/extra-input" % name)
        def base_iter(e: ast.AST):
            """strip order-changing / order-keeping wrappers: returns (base expression, [wrapper calls])"""
            wr = []
            while isinstance(e, ast.Call) and call_name(e) in ("sorted", "list", "reversed", "tuple", "iter") and e.args:
                wr.append(e)
                e = e.args[0]
            return e, wr
        loops = [n for n in fi.node.body if isinstance(n, ast.For) and src(base_iter(n.iter)[0]) in ("%s.keys()" % inp, inp, "%s.items()" % inp, "%s.values()" % inp)]
        if len(loops) != 1:
            raise AnalysisError("%s: outer loop over the steps not found" % name)
        # the compressed series are positional: their order is the order in which the steps are visited.  The log's own (insertion) order
        # and the numeric order are the step order; a textual sort ("10.0" < "2.0") or a reversal is not
        bad_order = None
        for w in base_iter(loops[0].iter)[1]:
            kws = {k.arg: k.value for k in w.keywords}
            if call_name(w) == "reversed" or (call_name(w) == "sorted" and "reverse" in kws and not (isinstance(kws["reverse"], ast.Constant) and kws["reverse"].value is False)):
                bad_order = (w, "reversed")
            elif call_name(w) == "sorted" and "key" in kws and not (isinstance(kws["key"], ast.Name) and kws["key"].id in ("float", "int")):
                bad_order = (w, "sorted by %s" % src(kws["key"]))
        res.check("INJECT", "%s visits the steps in step order" % name, bad_order is None, fi.loc(loops[0]), fi.qual, src(loops[0].iter)[:80],
                  "%s visits the steps %s: the values are appended positionally, so from the tenth step on ('10.0' sorts before '2.0') the "
                  "series is permuted and every value is restored under another step" % (name, bad_order[1] if bad_order else ""),
                  key="INJECT/%s/step-order" % name)
        tgt = loops[0].target
        if src(base_iter(loops[0].iter)[0]).endswith(".values()"):
            stepvar = "<the step key is not even read>"
        else:
            stepvar = tgt.id if isinstance(tgt, ast.Name) else tgt.elts[0].id
        rets = [n for n in walk_no_nested(fi.node) if isinstance(n, ast.Return)]
        outs = {r.value.id for r in rets if isinstance(r.value, ast.Name)}
        # aliases of the output structure
        for n in ast.walk(fi.node):
            if isinstance(n, ast.Assign) and isinstance(n.targets[0], ast.Name):
                base = n.value
                while isinstance(base, ast.Subscript):
                    base = base.value
                if isinstance(base, ast.Name) and base.id in outs:
                    outs.add(n.targets[0].id)
        kept = _stores_using(loops[0], stepvar, outs)
        res.check("INJECT", "%s keeps the step key" % name, bool(kept), fi.loc(loops[0]), fi.qual, "for %s in %s.keys()" % (stepvar, inp),
                  "%s drops the step key: values are appended positionally, so the compressed form is the same for every start time, "
                  "dt and for steps without an entry - the original step times cannot be recovered" % name,
                  key="INJECT/%s/step-not-in-output" % name)
    for name in ("decompress_settings", "decompress_results"):
        fi = idx.func(COMPRESS, name)
        synth = [n for n in ast.walk(fi.node) if isinstance(n, ast.For) and isinstance(n.iter, ast.Call) and call_name(n.iter) == "range"]
        keyvars = set()
        for lp in synth:
            if isinstance(lp.target, ast.Name):
                keyvars.add(lp.target.id)
        # is the key of result[...] derived from a range() counter?
        derived = set(keyvars)
        for n in ast.walk(fi.node):
            if isinstance(n, ast.Assign) and isinstance(n.targets[0], ast.Name) and names_in(n.value) & derived:
                derived.add(n.targets[0].id)
        keyed = [n for n in ast.walk(fi.node) if isinstance(n, ast.Assign) and isinstance(n.targets[0], ast.Subscript)
                 and isinstance(n.targets[0].value, ast.Name) and n.targets[0].value.id == "result" and names_in(n.targets[0].slice) & derived]
        res.check("INJECT", "%s takes step keys from its input" % name, not keyed, fi.loc(keyed[0]) if keyed else fi.loc(), fi.qual,
                  norm_stmt(keyed[0])[:90] if keyed else "", "%s numbers the steps 1.0, 2.0, ... from a range() counter: right only for "
                  "start=1, dt=1 and dense logs" % name, key="INJECT/%s/step-synthesised" % name)

    # ---- (2) nullability ------------------------------------------------------------------------------------------
    rs = idx.func(BPTK, "bptk.run_step")
    a = rs.node.args
    defaults = dict(zip([x.arg for x in a.args[len(a.args) - len(a.defaults):]], a.defaults))
    none_default = "settings" in defaults and isinstance(defaults["settings"], ast.Constant) and defaults["settings"].value is None
    logs = [n for n in walk_no_nested(rs.node) if isinstance(n, ast.Assign) and isinstance(n.targets[0], ast.Subscript)
            and isinstance(n.targets[0].value, ast.Subscript) and const_str(n.targets[0].value.slice) == "settings_log"]
    if len(logs) != 1:
        raise AnalysisError("run_step: store into settings_log not found")
    may_store_none = none_default and src(logs[0].value) == "settings"
    cs = idx.func(COMPRESS, "compress_settings")
    inp = params(cs.node)[0]
    outer = [n for n in cs.node.body if isinstance(n, ast.For)][0]
    stepvar = outer.target.id if isinstance(outer.target, ast.Name) else outer.target.elts[0].id
    derefs = [n for n in ast.walk(outer) if isinstance(n, ast.For) and src(n.iter) == "%s[%s]" % (inp, stepvar)]
    guarded = any(isinstance(g, ast.If) and ("%s[%s]" % (inp, stepvar)) in src(g.test) for g in ast.walk(outer))
    if may_store_none:
        res.check("NULL", "compress_settings accepts a step without settings", guarded or not derefs, cs.loc(outer), cs.qual,
                  "for ... in %s[%s]" % (inp, stepvar),
                  "run_step() stores settings=None into settings_log when a step is taken without settings; compress_settings iterates "
                  "settings[step] unguarded: with compression on, run-step without a body raises after the step was taken",
                  key="NULL/compress_settings/None-settings")
    else:
        res.ob("NULL", "run_step never stores None into settings_log", True)
    # the HTTP layer: run-step without a JSON body calls run_step() without settings
    h = idx.func(SERVER, "BptkServer._run_step_resource")
    bare = [c for c in iter_calls(h.node) if call_name(c) == "run_step" and not c.args and not c.keywords]
    res.ob("NULL", "run-step without body reaches run_step() with settings=None (%d call sites)" % len(bare), True, nontrivial=False)

    # the compression round trip builds one entry per scenario: no table of shared entries (fromkeys with a mutable value)
    from ..util import fromkeys_sweep
    fromkeys_sweep(idx, res, "SHAPE", ["BPTK_Py/util/statecompression.py", "BPTK_Py/externalstateadapter/", "BPTK_Py/server/"])
    # the compressed format is positional (the k-th value of a column belongs to the k-th step): whatever walks the steps does so in
    # numeric order.  Sorting by the step *label* - a string such as "10.0" - puts step 10 before step 2.
    nsort = 0
    for q_, f_ in idx.module(COMPRESS).functions.items():
        for c_ in iter_calls(f_.node):
            is_sort = (isinstance(c_.func, ast.Name) and c_.func.id == "sorted") or (isinstance(c_.func, ast.Attribute) and c_.func.attr == "sort")
            if not is_sort:
                continue
            nsort += 1
            key = next((k.value for k in c_.keywords if k.arg == "key"), None)
            numeric = key is not None and any(isinstance(x, ast.Call) and call_name(x) in ("float", "int") for x in ast.walk(key)) \
                or (isinstance(key, ast.Name) and key.id in ("float", "int"))
            res.check("ORDER", "%s orders steps numerically" % q_, bool(numeric), f_.loc(c_), q_, src(c_)[:90],
                      "%s sorts by %s: the step labels are strings ('1.0', '2.0', ... '10.0'), so from the tenth step on the rebuilt logs are in the "
                      "order 1, 10, 11, 2, ... - and because the compressed form is positional the next save files every value under the wrong step"
                      % (q_, src(key)[:40] if key is not None else "the natural order of the cells"), key="ORDER/%s/sorted-by-label" % q_)
    res.ob("ORDER", "sort calls in the compression module: %d" % nsort, True, nontrivial=False)
    # the restore installs what was saved: bptk._set_state changes nothing but the lock default
    sst = idx.func(BPTK, "bptk._set_state")
    sp = params(sst.node)[1] if len(params(sst.node)) > 1 else "state"
    edits = [n for n in walk_no_nested(sst.node) if isinstance(n, (ast.Assign, ast.AugAssign)) and any(
        isinstance(t, ast.Subscript) and isinstance(t.value, ast.Name) and t.value.id == sp and const_str(t.slice) != "lock"
        for t in (n.targets if isinstance(n, ast.Assign) else [n.target]))]
    res.check("WHOLE", "_set_state installs the saved session state unchanged", not edits, sst.loc(edits[0]) if edits else sst.loc(), sst.qual,
              norm_stmt(edits[0])[:100] if edits else "self.session_state = state",
              "bptk._set_state rewrites %s of the state it restores: the restored session differs from the one that was saved (a clock moved to "
              "another grid point, a changed setting)" % (src(edits[0].targets[0] if isinstance(edits[0], ast.Assign) else edits[0].target) if edits else ""),
              key="WHOLE/bptk._set_state/edits-restored-state")
    # ---- (3) FileAdapter record ---------------------------------------------------------------------------------------
    sv = idx.func(ADAPTER, "FileAdapter._save_instance")
    ld = idx.func(ADAPTER, "FileAdapter._load_instance")
    dl = idx.func(ADAPTER, "FileAdapter.delete_instance")
    dicts = [n for n in walk_no_nested(sv.node) if isinstance(n, ast.Dict) and "data" in [const_str(k) for k in n.keys]]
    if not dicts:
        raise AnalysisError("FileAdapter._save_instance: record literal not found")
    inner = dicts[0].values[[const_str(k) for k in dicts[0].keys].index("data")]
    from ..util import _written_out as _wo_rec
    # values through the locals they were put into first (encoded_state = jsonpickle.dumps(state.state))
    written = {const_str(k): _wo_rec(sv.node, v) for k, v in zip(inner.keys, inner.values)} if isinstance(inner, ast.Dict) else {}
    read = set()
    # the record may be reached through a local (stored = <document>["data"])
    data_names = {n.targets[0].id for n in walk_no_nested(ld.node) if isinstance(n, ast.Assign) and len(n.targets) == 1 and isinstance(n.targets[0], ast.Name)
                  and isinstance(n.value, ast.Subscript) and const_str(n.value.slice) == "data"}
    for n in walk_no_nested(ld.node):
        if isinstance(n, ast.Subscript) and const_str(n.slice) and (
                (isinstance(n.value, ast.Subscript) and const_str(n.value.slice) == "data") or (isinstance(n.value, ast.Name) and n.value.id in data_names)):
            read.add(const_str(n.slice))
    res.check("RECORD", "record keys read are written", read <= set(written), ld.loc(), ld.qual, "reads %s / writes %s" % (sorted(read), sorted(written)),
              "_load_instance reads the keys %s that _save_instance does not write" % sorted(read - set(written)), key="RECORD/FileAdapter/keys")
    for k in FIELDS:
        if k == "time":
            continue
        res.check("RECORD", "record carries '%s'" % k, k in written and (k in read), sv.loc(), sv.qual, k,
                  "the field '%s' is %s" % (k, "not written" if k not in written else "written but not read back"), key="RECORD/FileAdapter/%s" % k)
    for k, v in written.items():
        want = "state.%s" % k
        ok = want in src(v)
        res.check("RECORD", "record['%s'] <- state.%s" % (k, k), ok, sv.loc(v), sv.qual, src(v)[:60], "the record key '%s' is filled from %s" % (k, src(v)[:60]),
                  key="RECORD/FileAdapter._save_instance/%s" % k)
    res.check("RECORD", "session state is pickled into the record", "state" in written and "dumps" in src(written["state"]), sv.loc(), sv.qual,
              src(written.get("state", ast.Constant(0)))[:60], "the session state is not serialised into the record", key="RECORD/FileAdapter/state-dumps")
    # both layers (record, embedded session state) are written and read with the same codec
    def codecs(fi: FuncInfo, names) -> List[str]:
        return [(dotted(c.func.value) or "?") for c in sorted(iter_calls(fi.node), key=seq)
                if call_name(c) in names and isinstance(c.func, ast.Attribute)]
    wr = codecs(sv, ("dumps",))
    rd = codecs(ld, ("loads",))
    ok = len(wr) == 2 and len(rd) == 2 and set(wr) == set(rd) and len(set(wr)) == 1
    res.check("RECORD", "record and embedded state are read with the codec they were written with", ok, ld.loc(), ld.qual,
              "write: %s.dumps / read: %s.loads" % (wr, rd),
              "FileAdapter writes with %s.dumps but reads with %s.loads: what the writer encodes specially (jsonpickle back-references "
              "for an object logged more than once, tuples, non-string keys) is not decoded on restore" % (sorted(set(wr)), sorted(set(rd))),
              key="RECORD/FileAdapter/codec")
    paths = []
    for fi in (sv, ld, dl):
        js = [c for c in iter_calls(fi.node) if call_name(c) == "join" and (call_recv(c) or "").endswith("path")]
        if len(js) != 1:
            raise AnalysisError("%s: file path expression not found" % fi.qual)
        shape = [src(_wo_rec(fi.node, a)) for a in js[0].args]
        shape[1] = shape[1].replace("state.instance_id", "ID").replace("instance_uuid", "ID")
        # str(ID) + ".json" and "{}.json".format(str(ID)) name the same file
        shape[1] = shape[1].replace("'{}.json'.format(str(ID))", "str(ID) + '.json'").replace("'{}.json'.format(ID)", "str(ID) + '.json'")
        paths.append(tuple(shape))
    res.check("RECORD", "save, load and delete build the same file path", len(set(paths)) == 1, sv.loc(), "FileAdapter", str(paths[0]),
              "the three file operations build different paths: %s" % sorted(set(paths)), key="RECORD/FileAdapter/path")
    # ---- WIRING: compressor <-> log ------------------------------------------------------------------------------------------
    ncomp = 0
    for q, prefix in (("ExternalStateAdapter.save_state", "compress"), ("ExternalStateAdapter.save_instance", "compress"),
                      ("ExternalStateAdapter.load_state", "decompress"), ("ExternalStateAdapter.load_instance", "decompress")):
        fi = idx.func(ADAPTER, q)
        seen = set()
        for n in walk_no_nested(fi.node):
            if isinstance(n, ast.Assign) and isinstance(n.targets[0], ast.Subscript) and isinstance(n.value, ast.Call):
                key = const_str(n.targets[0].slice)
                fn = call_name(n.value)
                if key in ("settings_log", "results_log"):
                    ncomp += 1
                    seen.add(key)
                    want = "%s_%s" % (prefix, key.split("_")[0])
                    arg_ok = n.value.args and const_str(getattr(n.value.args[0], "slice", None)) == key
                    res.check("WIRING", "%s: %s <- %s(%s)" % (q, key, fn, key), fn == want and bool(arg_ok), fi.loc(n), fi.qual, norm_stmt(n)[:110],
                              "%s stores %s(...%s...) into '%s'" % (q, fn, src(n.value.args[0])[-30:] if n.value.args else "", key),
                              key="WIRING/%s/%s" % (q, key))
        res.check("WIRING", "%s handles both logs" % q, seen == {"settings_log", "results_log"}, fi.loc(), fi.qual, str(sorted(seen)),
                  "%s (de)compresses only %s" % (q, sorted(seen)), key="WIRING/%s/both-logs" % q)
        gate = [g for g in walk_no_nested(fi.node) if isinstance(g, ast.If) and "self.compress" in src(g.test)]
        res.check("WIRING", "%s only under self.compress" % q, bool(gate), fi.loc(), fi.qual, "if self.compress", "%s ignores the compress flag" % q,
                  key="WIRING/%s/flag" % q)
    res.floor("(de)compression call sites", ncomp, 8)
    # InstanceState field order
    ncons = 0
    for fi in list(idx.all_funcs("BPTK_Py/server/")) + list(idx.all_funcs("BPTK_Py/externalstateadapter/")):
        for c in iter_calls(fi.node):
            bound = dict(zip(FIELDS, c.args)) if call_name(c) == "InstanceState" else {}
            bound.update({k.arg: k.value for k in c.keywords if k.arg in FIELDS} if call_name(c) == "InstanceState" else {})
            if call_name(c) == "InstanceState" and len(bound) == 5:
                ncons += 1
                for fld, a in [(f_, bound[f_]) for f_ in FIELDS]:
                    ok = any(h in src(a).lower() for h in FIELD_HINTS[fld])
                    if fld == "time":
                        ok = ok and "timeout" not in src(a).lower()
                    res.check("WIRING", "%s: InstanceState.%s <- %s" % (fi.qual, fld, src(a)[:40]), ok, fi.loc(c), fi.qual, src(c)[:120],
                              "InstanceState field '%s' is filled from %s" % (fld, src(a)[:50]), key="WIRING/%s/InstanceState.%s" % (fi.qual, fld))
    res.floor("InstanceState constructions", ncons, 2)
    isc = idx.cls(ADAPTER, "InstanceState")
    flds = [n.target.id for n in isc.node.body if isinstance(n, ast.AnnAssign) and isinstance(n.target, ast.Name)]
    res.check("WIRING", "InstanceState declares (state, instance_id, time, timeout, step)", flds == FIELDS, "%s:%d" % (ADAPTER, isc.node.lineno),
              "InstanceState", str(flds), "InstanceState declares %s" % flds, key="WIRING/InstanceState/fields")

    # ---- (4) whole state out and in ---------------------------------------------------------------------------------------------
    gis = idx.func(SERVER, "InstanceManager._get_instance_state")
    cp = [c for c in iter_calls(gis.node) if call_name(c) == "deepcopy"]
    ok = len(cp) == 1 and src(cp[0].args[0]).endswith(".session_state")
    res.check("WHOLE", "the whole session_state is copied out", ok, gis.loc(), gis.qual, src(cp[0]) if cp else "",
              "_get_instance_state does not copy the whole session_state", key="WHOLE/_get_instance_state/copy")
    ss = idx.func(BPTK, "bptk._set_state")
    p0 = params(ss.node)[1]
    inst = [n for n in walk_no_nested(ss.node) if isinstance(n, ast.Assign) and dotted(n.targets[0]) == "self.session_state"]
    ok = len(inst) == 1 and src(inst[0].value) == p0
    res.check("WHOLE", "the restored state is installed unfiltered", ok, ss.loc(), ss.qual, norm_stmt(inst[0]) if inst else "",
              "_set_state does not install the restored dictionary as the session state", key="WHOLE/_set_state/install")
    dels = [n for n in walk_no_nested(ss.node) if isinstance(n, ast.Delete) or (isinstance(n, ast.Call) and call_name(n) in ("pop", "clear"))]
    res.check("WHOLE", "_set_state removes nothing", not dels, ss.loc(), ss.qual, norm_stmt(dels[0]) if dels else "", "_set_state drops entries of the restored state",
              key="WHOLE/_set_state/filter")
    # every stepping handler persists after the step (on every path, the streamed one included)
    persist_after_step_rule(idx, res, "WHOLE")


# ---------------------------------------------------------------------------
# C20
# ---------------------------------------------------------------------------

    # ---- the (de)compressors build their nested tables consistently: the table probed is the table filled ---------------------------------
    from ..util import probe_create_mismatches, shared_templates
    npc = 0
    for name in ("compress_settings", "compress_results", "decompress_settings", "decompress_results"):
        fi = idx.func(COMPRESS, name)
        npc += 1
        mm = probe_create_mismatches(fi.node)
        res.check("INJECT", "%s creates an entry in the table it probed" % name, not mm, fi.loc(mm[0][0]) if mm else fi.loc(), fi.qual,
                  "if k not in %s: %s[k] = ..." % (mm[0][1], mm[0][2]) if mm else "if k not in T: T[k] = {}",
                  "%s tests a key against %s but creates the entry in %s: the entry is created again on every pass (what was collected under it so far "
                  "is dropped - only the last constant of a scenario survives) or never" % (name, mm[0][1] if mm else "", mm[0][2] if mm else ""),
                  key="INJECT/%s/probe-create-mismatch" % name)
    res.floor("(de)compressors examined for probe/create agreement", npc, 4)
    # ---- the codec is configured by nobody: jsonpickle options are process-wide; sort_keys writes the step-keyed logs in *string* order -----
    for fi in idx.all_funcs("BPTK_Py/"):
        for c in iter_calls(fi.node):
            if call_name(c) in ("set_encoder_options", "set_decoder_options") and any(k.arg == "sort_keys" and not (isinstance(k.value, ast.Constant) and k.value.value is False)
                                                                                         for k in c.keywords):
                res.find("RECORD", "RECORD/%s/codec-sort-keys" % fi.qual, fi.loc(c), fi.qual, src(c)[:90],
                         "%s switches the JSON encoder to sort_keys for the whole process: the step-keyed logs are written, and therefore restored, in string "
                         "order ('10.0' before '2.0'), so positional results (flat session results) come back permuted after a restore, and jsonpickle's "
                         "back-references to an object logged for several steps resolve to the wrong object" % fi.qual)
    # ---- every saved record is its own object ------------------------------------------------------------------------------------------------
    for fi_, tname, node_, lit_, nested_ in shared_templates(idx, [ADAPTER]):
        res.find("RECORD", "RECORD/%s/shared-template-%s" % (fi_.qual, tname), fi_.loc(node_), fi_.qual, "%s = %s" % (tname, lit_),
                 "%s builds the record from the class-level template %s without a deep copy: the nested %s is one object for every save in the "
                 "process, so overlapping saves of two instances write one instance's file with the other's state" % (fi_.qual, tname, nested_))


def loaded_state_is_fresh(idx: Index, res: Result, rule: str) -> int:
    """OWNSTATE: the session state an adapter hands back for an instance is an object decoded for that load (jsonpickle.loads / json.loads
    / a deep copy) and kept nowhere else.  _set_state installs it as the *live* session_state: a state that also sits in a table of the
    adapter (a decode cache keyed by the file's text, a 'last loaded' slot) is one dict shared by every instance whose file has that
    text - a step of one restored instance advances the others."""
    n = 0
    m = idx.module(ADAPTER)
    isc = m.classes.get("InstanceState")
    fields = [st.target.id for st in isc.node.body if isinstance(st, ast.AnnAssign) and isinstance(st.target, ast.Name)] if isc is not None else ["state"]
    for cname, ci in m.classes.items():
        if "_load_instance" not in ci.methods:
            continue
        ld = ci.methods["_load_instance"][-1]
        if any(isinstance(d, ast.Name) and d.id == "abstractmethod" for d in ld.node.decorator_list):
            continue
        for c in iter_calls(ld.node):
            if call_name(c) != "InstanceState":
                continue
            sv_ = next((k.value for k in c.keywords if k.arg == "state"), None)
            if sv_ is None and "state" in fields and len(c.args) > fields.index("state"):
                sv_ = c.args[fields.index("state")]
            if sv_ is None:
                continue
            n += 1
            # every way the value is bound, through plain copies of names
            todo, seen_, sources, kept = [sv_], set(), [], []
            while todo:
                e = todo.pop()
                if isinstance(e, ast.Name):
                    if e.id in seen_:
                        continue
                    seen_.add(e.id)
                    for a in walk_no_nested(ld.node):
                        if isinstance(a, ast.Assign):
                            if any(isinstance(t, ast.Name) and t.id == e.id for t in a.targets):
                                todo.append(a.value)
                            if isinstance(a.value, ast.Name) and a.value.id == e.id and any(
                                    isinstance(t, (ast.Subscript, ast.Attribute)) and (dotted(t.value if isinstance(t, ast.Subscript) else t) or "").startswith("self.") for t in a.targets):
                                kept.append(a)
                else:
                    sources.append(e)
            def reads_table(e) -> bool:
                """self.T[k] / self.T.get(k) / self.T.pop(k) / self.slot - an object kept on the adapter (a call of a method of self is not)"""
                if isinstance(e, ast.Subscript) and (dotted(e.value) or "").startswith("self."):
                    return True
                if isinstance(e, ast.Call) and isinstance(e.func, ast.Attribute) and e.func.attr in ("get", "pop", "setdefault") and (dotted(e.func.value) or "").startswith("self."):
                    return True
                return isinstance(e, ast.Attribute) and (dotted(e) or "").startswith("self.")
            shared = [e for e in sources if not (isinstance(e, ast.Call) and call_name(e) in ("loads", "load", "deepcopy", "decode", "decompress_settings", "decompress_results"))
                      and reads_table(e)]
            bad = kept or shared
            res.check(rule, "%s._load_instance hands back a state decoded for this load and kept nowhere else" % cname, not bad, ld.loc((kept or shared)[0]) if bad else ld.loc(c),
                      ld.qual, norm_stmt(kept[0])[:90] if kept else (src(shared[0])[:90] if shared else src(sv_)[:60]),
                      "%s._load_instance %s: the state it hands back is installed as the live session state of the instance, so two instances whose "
                      "files decode through the same entry share one dict - a step on one moves the other"
                      % (cname, ("also keeps the decoded state in %s" % src(kept[0].targets[0])[:40]) if kept else ("takes the state from %s" % (src(shared[0])[:50] if shared else ""))),
                      key="%s/%s._load_instance/shared-decoded-state" % (rule, cname))
    return n


def check_c20(idx: Index, tier: str, res: Result) -> None:
    res.explanation = ("(1) the state file is replaced atomically (temp file + os.replace); (2) a None from _load_instance (damaged file) is "
                       "filtered before every consumer - contradiction rule: load_state checks, the constructor and /load-state "
                       "dereference; (3) the restore path reaches a replay of settings and settings_log onto the scenarios; (4) a worker "
                       "thread's exception is propagated or the result is checked for completeness.")
    res.rules = ["ATOMIC: write-then-rename shape of _save_instance; the writer truncates", "PERSIST: every path from run_step() to a response passes save_instance()", "NULL: None-producers vs dereferencing consumers",
                 "REPLAY: call-graph reachability from the restore path to settings application", "THREADEXC: handler coverage in thread targets"]
    res.not_decided = ["equality of the continued values (numeric)", "crash timing inside the interpreter / OS buffering"]
    loaded_state_is_fresh(idx, res, "OWNSTATE")
    from .server import instance_records_rule
    instance_records_rule(idx, res, "OWNSTATE")          # ... and a bptk object of its own
    # ---- (1) atomic replace -----------------------------------------------------------------------------------------
    sv = idx.func(ADAPTER, "FileAdapter._save_instance")
    opens = [c for c in iter_calls(sv.node) if call_name(c) == "open"]
    repl = [c for c in iter_calls(sv.node) if call_name(c) in ("replace", "rename") and (call_recv(c) or "") == "os"]
    direct = False
    final_path = None
    for c in opens:
        mode = const_str(c.args[1]) if len(c.args) > 1 else "r"
        if mode and "w" in mode:
            target = src(c.args[0])
            if not repl:
                direct = True
            else:
                # the file opened for writing must be the *source* of the rename, not its destination
                direct = direct or any(src(r.args[1]) == target for r in repl if len(r.args) >= 2)
    res.check("ATOMIC", "state file is replaced atomically", bool(opens) and not direct and bool(repl), sv.loc(), sv.qual,
              "; ".join(src(c)[:70] for c in opens),
              "the instance file is opened with mode 'w' and written in place: a crash in the middle of the write leaves a truncated file "
              "where the previous good state was", key="ATOMIC/FileAdapter._save_instance/in-place-write")

    # whatever the write strategy, a save replaces the *whole* content: a writer that neither truncates nor renames leaves the tail of a
    # longer previous state behind a shorter new one, and the file no longer parses
    nwr = 0
    for c in iter_calls(sv.node):
        if call_name(c) != "open":
            continue
        if isinstance(c.func, ast.Name):
            mode = const_str(c.args[1]) if len(c.args) > 1 else next((const_str(k.value) for k in c.keywords if k.arg == "mode"), "r")
            if mode is None or not any(ch in mode for ch in "wax+"):
                continue
            nwr += 1
            ok = "w" in mode or "x" in mode or any(call_name(x) in ("truncate", "ftruncate") for x in iter_calls(sv.node))
            res.check("ATOMIC", "the state file is opened truncating", ok, sv.loc(c), sv.qual, src(c)[:90],
                      "the state file is opened with mode %r, which keeps the previous content" % mode, key="ATOMIC/FileAdapter._save_instance/not-truncated")
        elif (call_recv(c) or "") == "os" and len(c.args) >= 2:
            flags = {a.attr for a in ast.walk(c.args[1]) if isinstance(a, ast.Attribute)} | {a.id for a in ast.walk(c.args[1]) if isinstance(a, ast.Name)}
            if not flags & {"O_WRONLY", "O_RDWR"}:
                continue
            nwr += 1
            target = src(c.args[0])
            renamed = any(len(r.args) >= 2 and src(r.args[0]) == target for r in repl)
            trunc_call = any(call_name(x) in ("truncate", "ftruncate") for x in iter_calls(sv.node))
            ok = "O_TRUNC" in flags or ("O_EXCL" in flags and renamed) or trunc_call
            res.check("ATOMIC", "the state file is opened truncating", ok, sv.loc(c), sv.qual, src(c)[:110],
                      "the state file is opened with flags %s - without O_TRUNC: a state shorter than the previous one (a session begun again after "
                      "several logged steps) leaves the old tail behind it, the file fails to parse and the instance cannot be restored"
                      % "|".join(sorted(f for f in flags if f.startswith("O_"))), key="ATOMIC/FileAdapter._save_instance/not-truncated")
    res.floor("writers of the state file", nwr, 1)
    # a save that returns normally has put the new state in place: every path to the normal exit passes the rename (a save that is
    # skipped silently - "somebody else is saving", "file exists" - leaves the previous step on disk while the caller answers 200)
    if repl:
        from ..cfg import Flow, build_cfg
        scfg = build_cfg(sv.node, sv.qual)

        def tr_saved(node, fact, label):
            if node.kind == "stmt" and label != "exc" and node.ast is not None and any(r is x for r in repl for x in ast.walk(node.ast)):
                return [True]
            return [fact]
        sflow = Flow(scfg, [False], tr_saved)
        unsaved = [f for f in sflow.at[scfg.exit] if not f]
        res.check("ATOMIC", "a save that returns has replaced the state file", not unsaved, sv.loc(), sv.qual, "os.replace(...) on every path",
                  "FileAdapter._save_instance can return without having put the new state in place; path: %s"
                  % (" ".join(sflow.witness(scfg.exit, False, 14)) if unsaved else ""), key="ATOMIC/FileAdapter._save_instance/save-skipped")

    persist_after_step_rule(idx, res)

    # ---- (2) None from the loader -------------------------------------------------------------------------------------
    ld = idx.func(ADAPTER, "FileAdapter._load_instance")
    returns_none = any(isinstance(n, ast.Return) and isinstance(n.value, ast.Constant) and n.value.value is None for n in walk_no_nested(ld.node))
    res.ob("NULL", "_load_instance answers None for a file it cannot read", returns_none, nontrivial=False)
    lst = idx.func(ADAPTER, "FileAdapter._load_state")
    apps = [c for c in iter_calls(lst.node) if call_name(c) == "append"]
    filtered_at_source = bool(apps) and all(
        any(isinstance(g, ast.If) and ("None" in src(g.test)) and any(x is c for b in g.body for x in ast.walk(b)) for g in ast.walk(lst.node))
        for c in apps)
    comp = [n for n in ast.walk(lst.node) if isinstance(n, ast.ListComp) and any("None" in src(i) for g in n.generators for i in g.ifs)]
    filtered_at_source = filtered_at_source or bool(comp)
    ncons = 0
    for fi in idx.all_funcs("BPTK_Py/server/"):
        for lp in [n for n in walk_no_nested(fi.node) if isinstance(n, ast.For)]:
            it = lp.iter
            vals = [it]
            if isinstance(it, ast.Name):
                vals = single_assignments(fi.node).get(it.id, [])
            if not any(isinstance(v, ast.Call) and call_name(v) == "load_state" for v in vals):
                continue
            ncons += 1
            var = lp.target.id
            deref = [n for n in ast.walk(lp) if isinstance(n, ast.Attribute) and isinstance(n.value, ast.Name) and n.value.id == var]
            guard = [g for g in ast.walk(lp) if isinstance(g, ast.If) and var in names_in(g.test) and "None" in src(g.test)] or \
                    [n for n in lp.body if isinstance(n, ast.If) and var in names_in(n.test)]
            ok = filtered_at_source or bool(guard) or not (returns_none and deref)
            res.check("NULL", "%s filters unreadable instances" % fi.qual, ok, fi.loc(lp), fi.qual, norm_stmt(lp)[:140],
                      "load_state() can contain None (FileAdapter._load_instance answers None for a damaged file and _load_state appends it; "
                      "ExternalStateAdapter.load_state itself checks for None) but %s dereferences every entry: one damaged state file "
                      "prevents the server from starting / loading the others" % fi.qual,
                      key="NULL/%s/load_state()[i].instance_id" % fi.qual)
    res.floor("consumers of load_state()", ncons, 2)
    from .server import restore_function
    ens = restore_function(idx)
    # nullability dataflow: the value of load_instance() may be None; every attribute access on it is dominated by a non-None test
    from ..util import implied
    loaded = [n.targets[0].id for n in walk_no_nested(ens.node) if isinstance(n, ast.Assign) and isinstance(n.targets[0], ast.Name)
              and any(call_name(c) == "load_instance" for c in iter_calls(n.value))]
    if len(loaded) != 1:
        raise AnalysisError("_ensure_instance_exists: the variable holding load_instance() not found")
    L = loaded[0]
    flags: Dict[str, bool] = {}       # boolean local -> True when "flag true" means L is not None
    for n in walk_no_nested(ens.node):
        if isinstance(n, ast.Assign) and isinstance(n.targets[0], ast.Name) and isinstance(n.value, ast.Compare) and len(n.value.ops) == 1 \
                and isinstance(n.value.left, ast.Name) and n.value.left.id == L and isinstance(n.value.comparators[0], ast.Constant) \
                and n.value.comparators[0].value is None and isinstance(n.value.ops[0], (ast.Is, ast.IsNot)):
            flags[n.targets[0].id] = isinstance(n.value.ops[0], ast.IsNot)
    ecfg = build_cfg(ens.node, ens.qual)
    derefs = []

    def tr_null(node: Node, fact, label):
        a = node.ast
        if a is not None and node.kind in ("stmt", "test") and fact == "maybe":
            if any(isinstance(x, ast.Attribute) and isinstance(x.value, ast.Name) and x.value.id == L for x in ast.walk(a)):
                derefs.append(node)
        if node.kind == "stmt" and label != "exc" and isinstance(a, ast.Assign) and any(isinstance(t, ast.Name) and t.id == L for t in a.targets):
            return ["maybe"]
        if node.kind == "test" and label in ("true", "false"):
            for atom, truth in implied(a, label == "true"):
                if isinstance(atom, ast.Compare) and len(atom.ops) == 1 and isinstance(atom.ops[0], ast.Is) and isinstance(atom.left, ast.Name) \
                        and atom.left.id == L and isinstance(atom.comparators[0], ast.Constant) and atom.comparators[0].value is None:
                    fact = "none" if truth else "nonnull"
                elif isinstance(atom, ast.Name) and atom.id in flags:
                    fact = "nonnull" if truth == flags[atom.id] else "none"
                elif isinstance(atom, ast.Name) and atom.id == L:
                    fact = "nonnull" if truth else "none"
        return [fact]
    Flow(ecfg, ["unset"], tr_null)
    ok = not derefs
    res.check("NULL", "_ensure_instance_exists checks the loaded instance", ok, ens.loc(derefs[0].ast) if derefs else ens.loc(), ens.qual,
              derefs[0].text() if derefs else "if instance is None", "lazy restore dereferences the value of load_instance() on a path on which it can be None",
              key="NULL/_ensure_instance_exists")

    # ---- (3) replay on restore -----------------------------------------------------------------------------------------------
    # functions reachable from reconstruct_instance (depth 3, resolved by name within bptk / InstanceManager)
    recon = idx.func(SERVER, "InstanceManager.reconstruct_instance")
    bcls = idx.cls(BPTK, "bptk")
    reach: List[FuncInfo] = [recon]
    seen = {recon.qual}
    work = [recon]
    while work:
        fi = work.pop()
        for c in iter_calls(fi.node):
            n = call_name(c)
            m = idx.resolve_method(bcls, n) if n else None
            if m is not None and m.qual not in seen and n in ("_set_state", "begin_session", "run_step", "lock", "unlock"):
                seen.add(m.qual)
                reach.append(m)
                work.append(m)
    applies = {"configure_settings", "change_equation", "change_points", "run_scenario_step", "replay", "_replay_settings"}
    replay = [c for fi in reach for c in iter_calls(fi.node) if call_name(c) in applies]
    res.check("REPLAY", "restore re-applies settings and settings_log", bool(replay), recon.loc(), recon.qual,
              " -> ".join(f.qual for f in reach),
              "reconstruct_instance -> bptk._set_state only installs the session dictionary; nothing re-applies session_state['settings'] "
              "or the per-step settings_log to the freshly built scenarios: after a restart the next step is computed without the settings "
              "of the earlier steps and from an empty memo", key="REPLAY/InstanceManager.reconstruct_instance/no-replay")
    # the step after a restore builds a new SdSimulation and applies only the current step's settings
    rss = idx.func(RUNNER, "SdRunner.run_scenario_step")
    from ..util import nesting_atoms

    def _none_live(a_, t_):
        return t_ and isinstance(a_, ast.Compare) and len(a_.ops) == 1 and isinstance(a_.ops[0], ast.Is) and (dotted(a_.left) or "").endswith(".sd_simulation") \
            and isinstance(a_.comparators[0], ast.Constant) and a_.comparators[0].value is None
    # the statements that run only where no simulation is live (body of `is None`, else of `is not None`)
    fresh_calls = [c for c in iter_calls(rss.node) if call_name(c) == "change_runspecs" and any(_none_live(a_, t_) for a_, t_ in nesting_atoms(rss.node, c))]
    fresh = [1] if any(isinstance(n, ast.Assign) and (dotted(n.targets[0]) or "").endswith(".sd_simulation") and
                       any(_none_live(a_, t_) for a_, t_ in nesting_atoms(rss.node, n)) for n in walk_no_nested(rss.node)) else []
    res.ob("REPLAY", "run_scenario_step rebuilds the simulation when none is live (%d site)" % len(fresh), bool(fresh), nontrivial=False)
    # the simulation rebuilt after a restore continues the *scenario's* run: same start time, stop time and dt as before the crash
    for g in fresh:
        crs = fresh_calls
        cprm = params(idx.func(SDSIM, "SdSimulation.change_runspecs").node)[1:]
        for c in crs:
            kw = dict(zip(cprm, [src(a) for a in c.args]))
            kw.update({k.arg: src(k.value) for k in c.keywords})
            owner = next(((dotted(a_.left) or "").rsplit(".", 1)[0] for a_, t_ in nesting_atoms(rss.node, c) if _none_live(a_, t_)), "sc")
            ok = all(kw.get(r_, "") == owner + "." + r_ for r_ in ("starttime", "stoptime", "dt"))
            res.check("REPLAY", "a rebuilt simulation keeps the scenario's run specs", ok, rss.loc(c), rss.qual, src(c),
                      "the simulation rebuilt when no live one exists (the first step after a restart) is given %s: it no longer integrates "
                      "from the scenario's start time, so every stock restarts from its initial value at the current step" % kw,
                      key="REPLAY/SdRunner.run_scenario_step/rebuilt-runspecs")
        res.check("REPLAY", "the rebuild applies the scenario's run specs", bool(crs), rss.loc(g), rss.qual, "change_runspecs(...)",
                  "the rebuilt simulation is not given the scenario's run specs", key="REPLAY/SdRunner.run_scenario_step/no-runspecs")

    # ---- (4) worker thread exceptions -----------------------------------------------------------------------------------------------
    sim = idx.try_func(SDSIM, "SdSimulation.__simulate")
    if sim is None:
        raise AnalysisError("anchor vanished: SdSimulation.__simulate")
    trys = [n for n in ast.walk(sim.node) if isinstance(n, ast.Try) and any(call_name(c) == "equation" for c in iter_calls(n))]
    if len(trys) != 1:
        raise AnalysisError("__simulate: try around the equation call not found")
    wide = any(h.type is None or src(h.type).split(".")[-1] in ("Exception", "BaseException") for h in trys[0].handlers)
    records = any(any(isinstance(x, (ast.Assign, ast.AugAssign)) and "error" in src(x).lower() for x in ast.walk(h)) or
                  any(isinstance(x, ast.Raise) for x in ast.walk(h)) for h in trys[0].handlers if h.type is None or src(h.type).split(".")[-1] in ("Exception", "BaseException"))
    start = idx.func(SDSIM, "SdSimulation.start")
    verifies = any(isinstance(n, ast.Compare) and "finished_simulations_count" in src(n) for n in ast.walk(start.node)) or \
        any(isinstance(n, ast.Compare) and "len(self.results)" in src(n) for n in ast.walk(start.node))
    ok = (wide and records) or verifies
    res.check("THREADEXC", "a failing equation is reported, not dropped", ok, sim.loc(trys[0]), sim.qual,
              "except " + ", ".join(src(h.type) if h.type is not None else "<bare>" for h in trys[0].handlers),
              "the per-equation worker thread catches only %s; any other exception ends the thread silently and start() builds the frame "
              "from whatever columns exist without checking that every requested equation finished: a step result can lack an equation"
              % [src(h.type) for h in trys[0].handlers], key="THREADEXC/SdSimulation.__simulate/silent-drop")
    # widening the handler to swallow everything is not a repair
    swallow = [h for h in trys[0].handlers if (h.type is None or src(h.type).split(".")[-1] in ("Exception", "BaseException"))
               and all(isinstance(x, (ast.Pass, ast.Break, ast.Continue, ast.Expr)) for x in h.body)]
    res.check("THREADEXC", "no catch-all that only swallows", not swallow, sim.loc(trys[0]), sim.qual, "except ...: pass",
              "the worker thread swallows every exception without recording it", key="THREADEXC/SdSimulation.__simulate/swallow-all")

    # ---- every save writes its own record: no class-/module-level template shared between overlapping saves ---------------------------------
    from ..util import shared_templates
    for fi_, tname, node_, lit_, nested_ in shared_templates(idx, [ADAPTER]):
        res.find("ATOMIC", "ATOMIC/%s/shared-template-%s" % (fi_.qual, tname), fi_.loc(node_), fi_.qual, "%s = %s" % (tname, lit_),
                 "%s fills the class-level template %s (shallow copy: the nested %s is shared by all saves of the process): two requests that "
                 "externalise at the same time can write one instance's file with the other instance's state and id - after a crash that instance is gone"
                 % (fi_.qual, tname, nested_))
